"""C12 — streaming pipeline stages are chunk-invariant and keep a contiguous time base.

One case = one stage + parameters + one input stream + one chunking of it.  The same
`new` / `push` (or `ev`) lines go to the Lean model (`psidriver stages`) and to the real
coroutine of psiaudio/pipeline.py.  Values are printed as *cells* (X k = input column k,
F k = k-th sample of the whole-signal filter, B lo.hi = block function of columns
[lo, hi), D k, P k, G m.k): the adapter identifies each emitted value by looking it up in
the result of the real kernel applied to the whole signal, so no float crosses languages.
"""
import itertools
import warnings
from fractions import Fraction

import numpy as np

from .framework import Spec

FS = 1000.0
CONT = ['blocked', 'downsample', 'decimate', 'discard', 'rms', 'iirfilter', 'derivative',
        'transform', 'mc_reference', 'auto_th']
DIVIDED = ('downsample', 'decimate', 'rms')
LFILTER = ('iirfilter', 'decimate')
IIR = [(1, 100.0, 'lowpass', 'butter'), (2, 100.0, 'lowpass', 'butter'), (3, 200.0, 'highpass', 'butter'),
       (4, 150.0, 'lowpass', 'bessel'), (2, 50.0, 'highpass', 'bessel'),
       # hardening: every design argument at a non-default value (rp, rs, a band given as a list / tuple, integer Wn)
       (3, 100, 'lowpass', 'cheby1', 1, None), (3, 100.0, 'highpass', 'ellip', 1.0, 40), (2, [50.0, 200.0], 'bandpass', 'butter'),
       (2, (60, 180), 'bandstop', 'cheby2', None, 30.0)]
TH_OVERRIDE = 0.3          # what current_th_cb returns in the 'thcb' variant of auto_th
FS_REPS = {'int1000': 1000, 'np1000': np.float64(1000.0), '44100': 44100.0, '97656.25': 97656.25, '500': 500.0}
REP_OPTIONS = {
    'fsin': list(FS_REPS),                  # sampling rate of the stream (and of the fs arguments): other values / int / NumPy scalar
    's0np': [1],                            # s0 of the annotated chunks as np.int64
    'pnp': ['int64', 'int32'],              # integer stage parameters as NumPy integers, float ones as np.float64
    'spell': ['kw'],                        # every argument by keyword
    'layout': ['F', 'strided', 'copy', 'readonly'],
    'nch': [1, 3],                          # channel count of 2-D streams (default 2)
    'dtype': ['int16', 'uint16', 'int32', 'float32'],
    'ath': ['fsnone', 'nfloat', 'cb', 'thcb'],      # auto_th: fs=None (taken from the data), n as float, auto_th_cb / current_th_cb given
    'erate': ['stepfloat', 'npargs', 's0mode'],     # event_rate: block_step as float (its documented type), NumPy integers, s0_mode='center' spelled out
}
# Demands that FAIL on the unchanged library and wait for the integrator's decision (notes/C12.md, "hardening"):
# generated only with VERIF_PENDING=1.
import os
PENDING = os.environ.get('VERIF_PENDING') == '1'


def rep_of(c):
    return c.get('rep') or {}


def fs_of(c):
    return FS_REPS.get(rep_of(c).get('fsin'), FS)


def iir_of(c):
    t = IIR[c['p2'] % len(IIR)]
    return t if len(t) == 6 else t + (None, None)
MODES = ['positive', 'negative', 'both']
MATRIX = np.array([[1.0, -1.0], [0.25, 1.5]])
META = {'m': 1}
# metadata values need not be plain numbers or strings: a multi-element array (per-channel gains) and an object without
# __eq__ compare equal only by identity -- `mdobj` cases carry both, the very same objects on every chunk
GAIN = np.array([1.0, 2.5])


class _Tag:
    pass


TAG = _Tag()


def case_meta(c):
    return dict(META, gain=GAIN, tag=TAG) if c.get('mdobj') else dict(META)


def md_eq(md, want):
    """dict equality that compares array / object values by identity or element-wise"""
    if not isinstance(md, dict) or set(md) != set(want):
        return False
    for k, v in want.items():
        w = md[k]
        if w is v:
            continue
        if isinstance(v, np.ndarray) or isinstance(w, np.ndarray):
            if not (isinstance(v, np.ndarray) and isinstance(w, np.ndarray) and np.array_equal(v, w)):
                return False
        elif isinstance(v, _Tag) or isinstance(w, _Tag):
            return False            # a Tag has no value: another Tag object is not "the same metadata"
        elif w != v:
            return False
    return True
INIT = 0.5
TOL = 1e-12


def arr_kinds(stage):
    if stage == 'derivative':
        return ['pd1', 'pd2']          # reads fs off the data: annotated input only (domain)
    if stage == 'mc_reference':
        return ['2d', 'pd2']           # matrix @ data mixes channels: 2-D only
    return ['1d', '2d', 'pd1', 'pd2']


def nch_of(c):
    return rep_of(c).get('nch', 2) if c['kind'] != 'mc_reference' else 2


def dtype_of(c):
    dt = rep_of(c).get('dtype') or c.get('dtype')
    if dt in ('int16', 'uint16', 'int32') and c['kind'] in ('rms', 'derivative', 'auto_th'):
        # outputs of these stages are identified by value; |x| / differences of integers coincide too often
        return 'float32'
    if dt in ('int16', 'uint16') and c['N'] * nch_of(c) > 4000:
        return 'int32'
    return dt


def signal_of(c):
    r = np.random.RandomState(c.get('seed', 0) % (2 ** 31))
    n = c['N']
    shape = n if c['arr'] in ('1d', 'pd1') else (nch_of(c), n)
    dt = dtype_of(c)
    if dt in ('int16', 'int32', 'uint16'):
        # acquisition hardware delivers integer counts: the defining whole-signal computation is the same formula
        # applied to the same integers (small enough that nothing overflows)
        # (distinct values, so that a sample is still identified by its value)
        size = int(np.prod(shape))
        return (r.permutation(4 * size)[:size] - (0 if dt == 'uint16' else 2 * size)).reshape(shape).astype(dt)
    x = r.uniform(-1, 1, shape)
    return x.astype(dt) if dt else x


def lay_out(c, x):
    """the same values in another memory layout"""
    lay = rep_of(c).get('layout')
    if lay == 'F':
        return np.asfortranarray(x)
    if lay == 'strided':                       # every other sample of an interleaved buffer
        buf = np.zeros(x.shape[:-1] + (2 * x.shape[-1],), dtype=x.dtype)
        buf[..., ::2] = x
        return buf[..., ::2]
    if lay == 'readonly':
        x = x.copy()
        x.setflags(write=False)
        return x
    return x


def in_channel(c):
    if c['arr'] == 'pd1':
        return 'c0' if c.get('lab', 1) else None      # lab=0: the default (no label) of a 1-D PipelineData
    return ['a', 'b', 'c'][:nch_of(c)]


def reference(c, x):
    """The stage's defining whole-signal computation, with the real kernels."""
    from scipy import signal
    st = c['kind']
    if st in ('blocked', 'downsample', 'discard'):
        return x
    if st == 'iirfilter':
        order, wn, btype, ftype, rp, rs = iir_of(c)
        b, a = signal.iirfilter(order, wn, rp, rs, btype, ftype=ftype, fs=fs_of(c))
        zi = signal.lfilter_zi(b, a) * x[..., :1]
        return signal.lfilter(b, a, x, zi=zi, axis=-1)[0]
    if st == 'decimate':
        b, a = signal.cheby1(4, 0.05, 0.8 / c['p1'])
        zi = signal.lfilter_zi(b, a)
        if x.ndim == 2:
            zi = np.broadcast_to(zi[np.newaxis], (x.shape[0], zi.shape[0])).copy()
        return signal.lfilter(b, a, x, zi=zi, axis=-1)[0]
    if st == 'rms':
        n = c['p1']
        nb = x.shape[-1] // n
        d = x[..., :nb * n].reshape(list(x.shape[:-1]) + [nb, n])
        return np.mean(d ** 2, axis=-1) ** 0.5
    if st == 'derivative':
        ini = np.full(list(x.shape[:-1]) + [1], INIT)
        return np.diff(np.concatenate((ini, x), axis=-1)) * fs_of(c)
    if st == 'transform':
        return x * 2 + 1
    if st == 'mc_reference':
        return MATRIX @ x
    if st == 'auto_th':
        bs = c['p1']
        if x.shape[-1] < bs:
            return np.zeros(x.shape, dtype=bool)
        with warnings.catch_warnings():
            warnings.simplefilter('ignore')
            th = x[..., :bs].std() * 2
        if rep_of(c).get('ath') == 'thcb':
            th = TH_OVERRIDE                     # current_th_cb overrides the automatic threshold
        mode = MODES[c['p2'] % 3]
        if mode == 'positive':
            return x >= th
        if mode == 'negative':
            return x <= -th
        return (x >= th) | (x <= -th)
    raise ValueError(st)


class Lookup:
    """value column -> index in the whole-signal reference"""

    def __init__(self, ref, exact):
        self.ref = np.asarray(ref)
        self.exact = exact
        self.scale = 1.0 + (float(np.max(np.abs(self.ref))) if self.ref.size else 0.0)
        if exact:
            if self.ref.shape[-1] == 0:
                cols = []
            else:
                cols = self.ref.reshape(-1, self.ref.shape[-1]).T if self.ref.ndim > 1 else self.ref.reshape(-1, 1)
            self.table = {}
            for k, col in enumerate(cols):
                self.table.setdefault(tuple(col.tolist()), k)

    def find(self, col, hint=None):
        col = np.asarray(col, dtype=float).reshape(-1)
        if self.exact:
            return self.table.get(tuple(col.tolist()))
        if self.ref.shape[-1] == 0:
            return None
        r = self.ref.reshape(-1, self.ref.shape[-1]) if self.ref.ndim > 1 else self.ref.reshape(1, -1)
        if r.shape[0] != col.shape[0]:
            return None
        if hint is not None and 0 <= hint < r.shape[1] and np.max(np.abs(r[:, hint] - col)) <= TOL * self.scale:
            return hint          # (long streams) the expected position matches: no need to scan the whole reference
        err = np.max(np.abs(r - col[:, None]), axis=0)
        j = int(np.argmin(err))
        return j if err[j] <= TOL * self.scale else None


def make_stage(c, target, cb_log=None):
    from psiaudio import pipeline as P
    st, p1, p2 = c['kind'], c['p1'], c['p2']
    rep = rep_of(c)
    fs = fs_of(c)
    kw = rep.get('spell') == 'kw'
    npint = np.dtype(rep['pnp']).type if rep.get('pnp') else int
    npflt = np.float64 if rep.get('pnp') else float
    if st == 'blocked':
        return P.blocked(block_size=npint(p1), target=target) if kw else P.blocked(npint(p1), target)
    if st == 'downsample':
        return P.downsample(q=npint(p1), target=target) if kw else P.downsample(npint(p1), target)
    if st == 'decimate':
        return P.decimate(q=npint(p1), target=target) if kw else P.decimate(npint(p1), target)
    if st == 'discard':
        return P.discard(discard_samples=npint(p1), cb=target) if kw else P.discard(npint(p1), target)
    if st == 'rms':
        return P.rms(fs=fs, duration=npflt(p1 / fs), target=target) if kw else P.rms(fs, npflt(p1 / fs), target)
    if st == 'iirfilter':
        order, wn, btype, ftype, rp, rs = iir_of(c)
        if kw:
            return P.iirfilter(fs=fs, N=npint(order), Wn=wn, rp=rp, rs=rs, btype=btype, ftype=ftype, target=target)
        return P.iirfilter(fs, npint(order), wn, rp, rs, btype, ftype, target)
    if st == 'derivative':
        return P.derivative(initial_state=npflt(INIT), target=target) if kw else P.derivative(npflt(INIT), target)
    if st == 'transform':
        f = lambda d: d * 2 + 1
        return P.transform(function=f, target=target) if kw else P.transform(f, target)
    if st == 'mc_reference':
        return P.mc_reference(matrix=MATRIX, target=target) if kw else P.mc_reference(MATRIX, target)
    if st == 'auto_th':
        ath = rep.get('ath')
        n = 2.0 if ath == 'nfloat' else npint(2)
        fsarg = None if (ath == 'fsnone' and c['arr'].startswith('pd')) else fs
        extra = {}
        if ath == 'cb':
            extra['auto_th_cb'] = (cb_log.append if cb_log is not None else (lambda th: None))
        if ath == 'thcb':
            extra['current_th_cb'] = lambda: TH_OVERRIDE
        if kw:
            return P.auto_th(n=n, baseline=npflt(p1 / fs), target=target, fs=fsarg, mode=MODES[p2 % 3], **extra)
        return P.auto_th(n, npflt(p1 / fs), target, fsarg, MODES[p2 % 3], **extra)
    if st == 'event_rate':
        er = rep.get('erate')
        size, step = (np.int64(p1), np.int64(p2)) if er == 'npargs' else (p1, float(p2) if er == 'stepfloat' else p2)
        extra = {'s0_mode': 'center'} if er == 's0mode' else {}
        if kw:
            return P.event_rate(block_size=size, block_step=step, target=target, **extra)
        return P.event_rate(size, step, target, **extra)
    raise ValueError(st)


def parse_block(tok):
    s0, fs, ch, md, n, cells = tok.split(';')
    return {'s0': s0, 'fs': fs, 'ch': ch, 'md': md, 'n': int(n),
            'cells': [] if cells == '-' else cells.split(',')}


def parse_out(line):
    """'ok b|b' -> list of blocks; None for an error line"""
    if not line.startswith('ok'):
        return None
    body = line[3:]
    return [] if body in ('-', '') else [parse_block(t) for t in body.split('|')]


def s0_value(tok):
    if '/' in tok:
        a, b = tok.split('/')
        return Fraction(int(a), int(b))
    return Fraction(int(tok))


class C12(Spec):
    PROP = 'C12'
    MODEL = 'stages'
    PROOF_MODULES = ['PsiProofs.C12']
    DESIGN_REF = 'DESIGN.md §6 C12'
    TRUST = [
        'modelled, not verified: the numeric kernels (scipy.signal.lfilter with carried zi as a deterministic per-sample '
        'state machine; the block RMS; np.diff(.)*fs; std; the threshold comparison; matrix @ . column-wise) are '
        'parameters of the model; NumPy slicing / concatenation and PipelineData.__getitem__ / __array_finalize__ '
        'annotation rules are transcribed (take/drop/[::q]) and compared on every case',
        'filter outputs, RMS values and matrix products are matched against the whole-signal call of the same kernel '
        'to 1e-12 (relative to the signal scale); selections, derivative and threshold booleans bit-exactly',
        'downsample, decimate, iirfilter and rms are modelled as repaired by notes/C12_fix_1..5.diff (5: the filter state is kept over an empty chunk)',
    ]
    ASSUMPTIONS = [
        'input stream is well formed: one annotation record, chunk k+1 starts where chunk k ends (other streams are '
        'only compared with the model, which raises ValueError where concat does)',
        'derivative and event_rate need annotated input (they read fs off the data); auto_th needs an explicit fs; '
        'mc_reference needs 2-D data; iirfilter needs a non-empty first chunk; block sizes / factors are >= 1',
        'rms: annotated input starts at a multiple of the block length (s0/n is a true division in the code)',
        'event_rate: every event lies inside the span of the Events object that carries it (listed in any order), one sampling rate',
        'the Ellipsis restart signal of blocked/discard must be forwarded to the target exactly once; the stream that follows is a new '
        'input stream and must be processed as by a freshly created stage (the model runs its own Ellipsis branch on the carried state: '
        'blockedStepE / discardStepE; theorems blocked_restart_like_fresh / discard_restart_like_fresh)',
        'not demanded (fail on the unchanged library, reported in notes/C12.md, generated with VERIF_PENDING=1 only): the caller may overwrite '
        'a chunk after send() (blocked, downsample, rms, auto_th keep references into it); auto_th adding its threshold to the metadata of the chunk it was sent',
    ]
    RULE = ('per stage x array kind (plain 1-D, plain 2-D, annotated 1-D, annotated 2-D): every composition of short '
            'streams (exhaustive), random chunkings with parts smaller than q / block size incl. empty chunks, chunk '
            'edges at every offset -2..+2 around each multiple of the stage parameter, and a few non-contiguous '
            '(malformed) streams. Non-trivial = at least two chunks and at least one emitted block; distinct = '
            'distinct case dict. Hardening: stream rate 500..97656.25 Hz / int / NumPy scalar, s0 as np.int64 and beyond 2^31 / 2^40, stage '
            'parameters as NumPy scalars, all-keyword construction, Fortran / strided / copied / read-only chunks, 1 and 3 channels, '
            'int16 / uint16 / int32 / float32 samples, auto_th with fs=None / float n / auto_th_cb / current_th_cb, iirfilter designs with rp, rs and '
            'band edges as list / tuple, event_rate with float block_step / NumPy arguments / s0_mode spelled out; streams without any sample; '
            'every chunk is compared with a snapshot after send(); the consumer overwrites the blocks it received; two stages (other stage, one '
            'parameter changed, identical twin) fed the same chunk objects alternately; Ellipsis restarts of blocked / discard followed by new '
            'streams; per run 5 continuous streams of 2^16..2^17 samples (parameters up to 65537, 0/1-sample next to 50000-sample chunks, '
            's0 beyond 2^31) and 3 event_rate lives with thousands of events.')
    exhaustive_note = {
        'quick': 'every composition of N<=6 samples for each of the 10 continuous stages x array kinds (one parameter set), '
                 'event_rate: every composition of a 9-sample span',
        'thorough': 'every composition of N<=9 samples for each continuous stage x array kind x two parameter sets; '
                    'event_rate: every composition of a 12-sample span x 3 parameter pairs',
    }
    SEARCH_SECONDS = {'quick': 20, 'thorough': 240}
    PARALLEL = 16

    # ------------------------------------------------------------------ cases
    @staticmethod
    def _params(stage, rng, small=False):
        if stage in ('blocked', 'rms'):
            return (rng.choice([1, 2, 3, 4, 5, 7]) if not small else 3), 0
        if stage in ('downsample', 'decimate'):
            return (rng.choice([1, 2, 3, 4, 5]) if not small else 3), 0
        if stage == 'discard':
            return (rng.choice([0, 1, 2, 3, 5, 8, 11]) if not small else 4), 0
        if stage == 'iirfilter':
            return 0, rng.randrange(len(IIR))
        if stage == 'auto_th':
            return (rng.choice([1, 2, 3, 4, 6, 9]) if not small else 4), rng.randrange(3)
        return 0, 0

    @staticmethod
    def _mk(stage, arr, n, chunks, p1, p2, s0, seed, gaps=None):
        if stage == 'rms' and s0 % max(p1, 1):
            s0 = (s0 // max(p1, 1)) * max(p1, 1)
        c = {'kind': stage, 'arr': arr, 'N': n, 'chunks': list(chunks), 'p1': p1, 'p2': p2, 's0': s0, 'seed': seed}
        if arr.startswith('pd') and seed % 5 == 4:
            c['mdobj'] = True
        if seed % 7 in (1, 2, 3) and n > 9:      # random-stream cases only (the exhaustive scope keeps float64)
            c['dtype'] = {1: 'int32', 2: 'int32', 3: 'float32'}[seed % 7]
            if c['dtype'] == 'int32' and stage in ('rms', 'derivative', 'auto_th'):
                # outputs of these stages are identified by value; |x| / differences of integers coincide too often
                c['dtype'] = 'float32'
        if arr == 'pd1' and seed % 2:
            c['lab'] = 0
        if gaps:
            c['gaps'] = list(gaps)
        return c

    def cases(self, rng, tier):
        quick = tier == 'quick'
        # (a) exhaustive compositions of short streams
        nmax = 6 if quick else 9
        for stage in CONT:
            psets = [self._params(stage, rng, small=True)]
            if not quick:
                psets.append((2, 1))
            for arr in arr_kinds(stage):
                for p1, p2 in psets:
                    for n in range(1, nmax + 1):
                        for cuts in itertools.product((0, 1), repeat=n - 1):
                            parts, cur = [], 1
                            for bit in cuts:
                                if bit:
                                    parts.append(cur)
                                    cur = 1
                                else:
                                    cur += 1
                            parts.append(cur)
                            yield self._mk(stage, arr, n, parts, p1, p2, 0 if n % 2 else 6, n)
        # (b) random chunkings, small parts, empty chunks
        nrand = 140 if quick else 1500
        for stage in CONT:
            for arr in arr_kinds(stage):
                for i in range(nrand // len(arr_kinds(stage))):
                    p1, p2 = self._params(stage, rng)
                    n = rng.randint(1, 60)
                    parts = []
                    left = n
                    while left > 0:
                        k = min(left, rng.choice([0, 1, 1, 2, 2, 3, 4, 5, 7, 11, 19]))
                        parts.append(k)
                        left -= k
                    if rng.random() < 0.2:
                        parts.append(0)
                    yield self._mk(stage, arr, n, parts, p1, p2, rng.choice([0, 0, 6, 12, 35]), rng.randrange(10 ** 6))
        # (c) boundary-targeted: a chunk edge at every offset around multiples of the parameter
        for stage in CONT:
            for arr in arr_kinds(stage):
                for rep in range(1 if quick else 4):
                    p1, p2 = self._params(stage, rng)
                    unit = max(p1, 1) if stage not in ('iirfilter', 'derivative', 'transform', 'mc_reference') else 4
                    n = 4 * unit + rng.randint(0, unit)
                    for m in range(0, 4):
                        for off in (-2, -1, 0, 1, 2):
                            e = m * unit + off
                            if 0 < e < n:
                                e2 = min(n, e + rng.choice([1, unit, unit + 1]))
                                parts = [e, e2 - e] + ([n - e2] if n > e2 else [])
                                yield self._mk(stage, arr, n, parts, p1, p2, rng.choice([0, 6]), rng.randrange(10 ** 6))
        # (d) malformed: a gap / overlap between two annotated chunks
        for stage in CONT:
            for arr in ('pd1', 'pd2'):
                if arr not in arr_kinds(stage):
                    continue
                for rep in range(2 if quick else 10):
                    p1, p2 = self._params(stage, rng)
                    n = rng.randint(6, 24)
                    parts = rng.chunks(n, 5)
                    gaps = [0] * len(parts)
                    if len(parts) > 1:
                        gaps[rng.randrange(1, len(parts))] = rng.choice([-2, -1, 1, 3])
                    yield self._mk(stage, arr, n, parts, p1, p2, 6, rng.randrange(10 ** 6), gaps)
        # (d') regression for the former finding C12-lfilter-empty-chunk (repaired by notes/C12_fix_5.diff):
        # scipy's lfilter reports a garbage final state for an empty chunk; the stages must not adopt it
        for stage in LFILTER:
            for arr in arr_kinds(stage):
                yield self._mk(stage, arr, 12, [4, 0, 8], 2, 1, 0, 7)
                yield self._mk(stage, arr, 9, [1, 0, 0, 3, 0, 5, 0], 3, 1, 6, 3)
        yield self._mk('decimate', 'pd1', 7, [0, 2, 0, 5], 2, 1, 0, 5)
        # (e) event_rate
        span = 9 if quick else 12
        pairs = [(3, 2)] if quick else [(3, 2), (4, 4), (2, 3)]
        for size, step in pairs:
            for cuts in itertools.product((0, 1), repeat=span - 1):
                parts, cur = [], 1
                for bit in cuts:
                    if bit:
                        parts.append(cur)
                        cur = 1
                    else:
                        cur += 1
                parts.append(cur)
                ev = sorted(rng.sample(range(span), rng.randint(0, span // 2)))
                yield {'kind': 'event_rate', 'p1': size, 'p2': step, 's0': rng.choice([0, 5]), 'chunks': parts,
                       'events': ev, 'evorder': rng.choice([None, None, 'rev', 'split'])}
        for i in range(300 if quick else 4000):
            size, step = rng.choice([(20, 20), (20, 5), (10, 10), (16, 4), (5, 7), (1, 1), (7, 3)])
            n = rng.randint(1, 150)
            parts = []
            left = n
            while left > 0:
                k = min(left, rng.choice([0, 1, 2, 3, 5, 8, 13, 30, 50]))
                parts.append(k)
                left -= k
            ev = sorted(rng.randrange(n) for _ in range(rng.randint(0, n // 3 + 1)))
            c = {'kind': 'event_rate', 'p1': size, 'p2': step, 's0': rng.choice([0, 0, 3, 100]), 'chunks': parts,
                 'events': ev, 'evorder': rng.choice([None, None, 'rev', 'split'])}
            if rng.random() < 0.03 and len(parts) > 1:
                g = [0] * len(parts)
                g[rng.randrange(1, len(parts))] = rng.choice([-1, 2])
                c['gaps'] = g
                c['s0'] = max(c['s0'], 3)       # sample positions stay non-negative
            elif rng.random() < 0.03 and len(parts) > 1:
                # malformed: one Events object of the stream has another sampling rate (fs/q)
                q = [1] * len(parts)
                q[rng.randrange(1, len(parts))] = rng.choice([2, 3])
                c['fsq'] = q
            yield c
        yield from self.hardening_cases(rng, tier)

    # ------------------------------------------------------------------ hardening (HARDENING.md items 1-7)
    @staticmethod
    def _rand_rep(rng, stage, arr, p=0.3):
        rep = {}
        for k, opts in REP_OPTIONS.items():
            if (k == 'ath' and stage != 'auto_th') or k == 'erate':
                continue
            if k == 'nch' and (arr not in ('2d', 'pd2') or stage == 'mc_reference'):
                continue
            if k == 's0np' and not arr.startswith('pd'):
                continue
            if rng.random() < p:
                rep[k] = rng.choice(opts)
        return rep

    def _rand_case(self, rng, stage, arr, nmax=60, rep=None, **extra):
        p1, p2 = self._params(stage, rng)
        n = rng.randint(1, nmax)
        parts, left = [], n
        while left > 0:
            k = min(left, rng.choice([0, 1, 1, 2, 2, 3, 4, 5, 7, 11, 19]))
            parts.append(k)
            left -= k
        if rng.random() < 0.2:
            parts.insert(rng.randint(1, len(parts)), 0)
        c = self._mk(stage, arr, n, parts, p1, p2, rng.choice([0, 0, 6, 12, 35, 2 ** 31 - 3, 2 ** 40]), rng.randrange(10 ** 6))
        if rep:
            c['rep'] = rep
        c.update(extra)
        return c

    @staticmethod
    def _mixed_chunks(rng, n, unit):
        """chunk sizes mixing tiny (0, 1, around the stage parameter) and huge ones"""
        parts, left, tiny = [], n, 0
        while left > 0:
            k = rng.choice([0, 1, 2, 3, unit - 1, unit, unit + 1, 4096, 30000, rng.randint(1, 50000)])
            if k < 100:
                tiny += 1
                if tiny > 60:
                    k = rng.randint(20000, 60000)
            k = max(0, min(k, left))
            parts.append(k)
            left -= k
        return parts

    def hardening_cases(self, rng, tier):
        quick = tier == 'quick'
        # 1/2. the same stream / parameters in other representations, keyword spelling, options at non-default values
        for stage in CONT:
            kinds = arr_kinds(stage)
            for i in range(60 if quick else 500):
                arr = kinds[i % len(kinds)]
                yield self._rand_case(rng, stage, arr, rep=self._rand_rep(rng, stage, arr))
        for key, opts in REP_OPTIONS.items():                 # every option a few times on its own
            if key == 'erate':
                continue
            for o in opts:
                for _ in range(3):
                    stage = 'auto_th' if key == 'ath' else rng.choice([st for st in CONT if st != 'mc_reference'])
                    arr = rng.choice(['2d', 'pd2'] if key == 'nch' else ['pd1', 'pd2'] if key == 's0np' else arr_kinds(stage))
                    yield self._rand_case(rng, stage, arr, rep={key: o})
        # 4. streams without a single sample
        for stage in CONT:
            if stage == 'iirfilter':
                continue                                      # needs a non-empty first chunk (domain)
            for arr in arr_kinds(stage):
                p1, p2 = self._params(stage, rng)
                for parts in ([0], [0, 0]):
                    yield self._mk(stage, arr, 0, parts, p1, p2, 6, 0)
        # 6. the consumer overwrites every block it received (values and annotations) before the next chunk is sent;
        #    (all cases) every chunk must come back from send() as it was
        for stage in CONT:
            kinds = arr_kinds(stage)
            for i in range(24 if quick else 200):
                arr = kinds[i % len(kinds)]
                yield self._rand_case(rng, stage, arr, rep=self._rand_rep(rng, stage, arr, 0.1), scrout=1)
                if PENDING:
                    yield self._rand_case(rng, stage, arr, scrin=1)
        # 5/7. two stages (another stage, or the same stage with one parameter changed) receive the same chunk objects
        for _ in range(300 if quick else 3000):
            sa = rng.choice(CONT)
            arr = rng.choice(arr_kinds(sa))
            if rng.random() < 0.5:
                sb = sa
            else:
                sb = rng.choice([st for st in CONT if arr in arr_kinds(st)])
            if arr.startswith('pd') and 'auto_th' in (sa, sb) and not PENDING:
                continue          # auto_th writes into the metadata of the chunk it is sent: see notes (reported, not demanded)
            a = self._rand_case(rng, sa, arr, 40)
            a.pop('dtype', None)
            rep = {k: v for k, v in self._rand_rep(rng, sa, arr, 0.15).items() if k in ('fsin', 's0np', 'layout', 'nch')}
            if 'mc_reference' in (sa, sb):
                rep.pop('nch', None)
            if rng.random() < 0.3:
                rep['dtype'] = 'float32'
            b = dict(a)
            b['kind'] = sb
            while True:
                b['p1'], b['p2'] = self._params(sb, rng)
                if sb != sa or (b['p1'], b['p2']) != (a['p1'], a['p2']) or sa in ('derivative', 'transform', 'mc_reference') \
                        or rng.random() < 0.3:          # (sometimes an identical twin)
                    break
            if arr.startswith('pd'):
                unit = (a['p1'] if sa == 'rms' else 1) * (b['p1'] if sb == 'rms' else 1)
                a['s0'] = b['s0'] = (a['s0'] // unit) * unit
            if rep:
                a['rep'], b['rep'] = rep, dict(rep)
            if sb == 'auto_th' and rng.random() < 0.5:
                b['rep'] = dict(b.get('rep') or {}, ath=rng.choice(REP_OPTIONS['ath']))
            yield {'kind': 'dual', 'a': a, 'b': b}
        # 5. restart signal (Ellipsis) of blocked / discard: forwarded, then a new stream is processed from scratch
        for stage in ('blocked', 'discard'):
            for arr in arr_kinds(stage):
                for _ in range(15 if quick else 150):
                    c = self._rand_case(rng, stage, arr, 30)
                    c['segs'] = []
                    for _ in range(rng.randint(1, 2)):
                        d = self._rand_case(rng, stage, arr, 30)
                        c['segs'].append({k: d[k] for k in ('N', 'chunks', 's0', 'seed')})
                    c.pop('dtype', None)
                    yield c
        # 3. scale: 2^16 .. 2^17 samples (2^18 thorough), parameters in the thousands, tiny chunks next to huge ones,
        #    first s0 beyond 2^31
        big_params = {'blocked': [1, 3, 4096, 10007], 'downsample': [2, 3, 16], 'decimate': [2, 3, 8], 'discard': [0, 50000, 65537],
                      'rms': [3, 1024], 'auto_th': [9, 10000]}
        stages = rng.sample(CONT, 5) if quick else CONT + CONT
        for stage in stages:
            arr = rng.choice(arr_kinds(stage))
            n = rng.choice([2 ** 16, 2 ** 16 + 1, 2 ** 17 - 1] + ([] if quick else [2 ** 18]))
            p1, p2 = self._params(stage, rng)
            if stage in big_params:
                p1 = rng.choice(big_params[stage])
            c = self._mk(stage, arr, n, self._mixed_chunks(rng, n, max(p1, 2)), p1, p2,
                         rng.choice([2 ** 31 - 5, 2 ** 31 + 7, 2 ** 40]), rng.randrange(10 ** 6))
            if c['chunks'][0] == 0 and stage == 'iirfilter':
                c['chunks'][0] = 1
                c['chunks'][-1] -= 1
            c.pop('dtype', None)
            yield c
        # event_rate: argument representations; thousands of events over a long span starting beyond 2^31
        for i in range(150 if quick else 1500):
            size, step = rng.choice([(20, 20), (20, 5), (10, 10), (16, 4), (5, 7), (1, 1), (7, 3)])
            n = rng.randint(1, 150)
            parts = rng.chunks(n, 8)
            if rng.random() < 0.3:
                parts.insert(rng.randint(0, len(parts)), 0)
            ev = sorted(rng.randrange(n) for _ in range(rng.randint(0, n // 3 + 1)))
            yield {'kind': 'event_rate', 'p1': size, 'p2': step, 's0': rng.choice([0, 3, 100, 2 ** 31 - 40, 2 ** 40]), 'chunks': parts,
                   'events': ev, 'evorder': rng.choice([None, None, 'rev', 'split']),
                   'rep': {'erate': rng.choice(REP_OPTIONS['erate'])} if rng.random() < 0.8 else {'spell': 'kw'}}
        for size, step, n, nev in [(1000, 500, 2 ** 17, 5000), (4096, 4096, 2 ** 16, 3000), (7, 3, 3000, 1500)][:3 if quick else 3]:
            parts = [k for k in self._mixed_chunks(rng, n, size) ]
            ev = sorted(rng.randrange(n) for _ in range(nev))
            yield {'kind': 'event_rate', 'p1': size, 'p2': step, 's0': rng.choice([2 ** 31 - 1000, 2 ** 40]), 'chunks': parts,
                   'events': ev, 'evorder': rng.choice([None, 'rev', 'split'])}

    # ------------------------------------------------------------------ lines
    @staticmethod
    def _segments(c):
        """the stream segments of a case: the case itself, then one stream per Ellipsis reset (blocked / discard)"""
        segs = [{k: v for k, v in c.items() if k != 'segs'}]
        for sg in c.get('segs') or []:
            d = {k: v for k, v in c.items() if k != 'segs'}
            d.update(sg)
            segs.append(d)
        return segs

    def model_lines(self, c):
        if c['kind'] == 'dual':
            return self.model_lines(c['a']) + self.model_lines(c['b'])
        if c.get('segs'):
            # the Ellipsis signal goes through the model's restart branch (blockedStepE / discardStepE): the stage state is
            # carried over, not re-created; the stream that follows starts at its own s0
            lines = []
            for i, sg in enumerate(self._segments(c)):
                ls = self.model_lines(sg)
                lines += ([f"restart {sg['s0']}"] + ls[1:]) if i else ls
            return lines
        if c['kind'] == 'event_rate':
            lines = [f"new event_rate 1 1 {c['s0']} {c['p1']} {c['p2']}"]
            pos = c['s0']
            off = 0
            gaps = c.get('gaps') or [0] * len(c['chunks'])
            fsq = c.get('fsq') or [1] * len(c['chunks'])
            for k, g, q in zip(c['chunks'], gaps, fsq):
                a, b = pos + g, pos + g + k
                evs = [e + c['s0'] + (a - (c['s0'] + off)) for e in c['events'] if off <= e < off + k]
                lines.append(f"ev {a} {b} {','.join(map(str, evs)) if evs else '-'}" + (f' {q}' if q != 1 else ''))
                pos = b
                off += k
            return lines
        dim = 2 if c['arr'] in ('2d', 'pd2') else 1
        ann = 1 if c['arr'].startswith('pd') else 0
        lines = [f"new {c['kind']} {dim} {ann} {c['s0']} {c['p1']} {c['p2']}"]
        gaps = c.get('gaps') or [0] * len(c['chunks'])
        for k, g in zip(c['chunks'], gaps):
            lines.append(f'push {k} {g}')
        return lines

    # the real code ---------------------------------------------------------
    def _fmt_block(self, c, o, look, state):
        from psiaudio import pipeline as P
        st = c['kind']
        annotated = c['arr'].startswith('pd')
        a = np.asarray(o)
        want_ndim = 2 if c['arr'] in ('2d', 'pd2') else 1
        n = a.shape[-1] if a.ndim else 0
        cells = []
        if a.ndim != want_ndim:
            cells = ['?dim']
        else:
            for j in range(n):
                col = a[..., j]
                if st == 'auto_th':
                    k = state['emitted'] + j
                    ok = k < look.ref.shape[-1] and a.dtype == bool and np.array_equal(col, look.ref[..., k])
                    cells.append(f"G{c['p1']}.{k}" if ok else '?')
                    continue
                e = state['emitted'] + j
                k = look.find(col, e * c['p1'] if st == 'decimate' else e)
                if k is None:
                    cells.append('?')
                elif st in ('blocked', 'downsample', 'discard'):
                    cells.append(f'X{k}')
                elif st in ('iirfilter', 'decimate'):
                    cells.append(f'F{k}')
                elif st == 'rms':
                    cells.append(f"B{k * c['p1']}.{(k + 1) * c['p1']}")
                elif st == 'derivative':
                    cells.append(f'D{k}')
                else:
                    cells.append(f'P{k}')
        state['emitted'] += n
        cellstr = ','.join(cells) if cells else '-'
        if not annotated:
            head = '_;_;_;_' if not isinstance(o, P.PipelineData) else 'PD;_;_;_'
            return f'{head};{n};{cellstr}'
        if not isinstance(o, P.PipelineData):
            return f'_;_;_;_;{n};{cellstr}'
        # s0
        if st == 'rms':
            num = int(round(float(o.s0) * c['p1']))
            s0 = f"{num}/{c['p1']}" if num / c['p1'] == o.s0 else 's0?'
        else:
            s0 = str(int(o.s0)) if float(o.s0) == int(o.s0) else 's0?'
        # fs
        if st in DIVIDED and o.fs == fs_of(c) / c['p1']:
            fs = f"fs/{c['p1']}"
        elif o.fs == fs_of(c):
            fs = 'fs'
        else:
            fs = 'fs?'
        ch_in = in_channel(c)
        if o.channel == ch_in and type(o.channel) is type(ch_in):
            ch = 'ch'
        elif o.channel is None or (isinstance(o.channel, list) and all(v is None for v in o.channel)):
            ch = 'chdef'
        else:
            ch = 'ch?'
        md = o.metadata
        want = case_meta(c)
        if md_eq(md, want):
            mdt = 'md'
        elif isinstance(md, dict) and 'auto_th' in md and md_eq({k: v for k, v in md.items() if k != 'auto_th'}, want):
            mdt = 'md+th'
        elif md == {}:
            mdt = 'mdempty'
        else:
            mdt = 'md?'
        return f'{s0};{fs};{ch};{mdt};{n};{cellstr}'

    @staticmethod
    def _snapshot(c, a):
        """what the caller can observe of a chunk it sent (values and annotations)"""
        snap = [str(a.dtype), a.shape, np.ascontiguousarray(a).tobytes()]
        if hasattr(a, 'metadata'):
            md = dict(a.metadata) if isinstance(a.metadata, dict) else a.metadata
            if c['kind'] == 'auto_th' and not PENDING and isinstance(md, dict):
                md.pop('auto_th', None)   # auto_th writes its threshold into the chunk it was given (unchanged library; reported)
            snap += [repr(a.s0), repr(a.fs), repr(a.channel), repr(sorted(md.items())) if isinstance(md, dict) else repr(md)]
        return snap

    def _build_chunks(self, c):
        from psiaudio import pipeline as P
        x = lay_out(c, signal_of(c))
        annotated = c['arr'].startswith('pd')
        if annotated:
            s0 = np.int64(c['s0']) if rep_of(c).get('s0np') else c['s0']
            xs = P.PipelineData(x, fs_of(c), s0=s0, channel=in_channel(c), metadata=case_meta(c))
        else:
            xs = x
        chunks, pos, shift = [], 0, 0
        gaps = c.get('gaps') or [0] * len(c['chunks'])
        for k, g in zip(c['chunks'], gaps):
            chunk = xs[..., pos:pos + k]
            shift += g
            if annotated and shift:
                chunk.s0 = chunk.s0 + shift
            if rep_of(c).get('layout') == 'copy':
                chunk = chunk.copy()
            pos += k
            chunks.append(chunk)
        return chunks

    def _run_cont(self, c, shared=None):
        """generator: one `None` per chunk sent, finally the list of lines.  `shared`: chunk objects that another stage
        receives as well (dual cases)."""
        out = []
        lines = []
        segs = self._segments(c)
        try:
            co = make_stage(c, out.append, cb_log=[])
            lines.append('ok')
        except Exception as e:
            yield [f'err {type(e).__name__}'] + ['err Dead'] * (sum(1 + len(sg['chunks']) for sg in segs) - 1)
            return
        dead = False
        for si, sg in enumerate(segs):
            if si:
                # restart signal of blocked / discard: forwarded to the target, then a new stream begins
                n0 = len(out)
                try:
                    if not dead:
                        co.send(Ellipsis)
                    lines.append('err Dead' if dead else ('ok' if len(out) == n0 + 1 and out[-1] is Ellipsis else 'err ResetNotForwarded'))
                except Exception as e:
                    lines.append(f'err {type(e).__name__}')
                    dead = True
            ref = reference(sg, signal_of(sg))
            look = Lookup(ref, exact=sg['kind'] in ('blocked', 'downsample', 'discard', 'auto_th'))
            state = {'emitted': 0}
            chunks = shared if shared is not None else self._build_chunks(sg)
            for chunk in chunks:
                if dead:
                    lines.append('err Dead')
                    yield None
                    continue
                n0 = len(out)
                snap = self._snapshot(sg, chunk)
                try:
                    with warnings.catch_warnings():
                        warnings.simplefilter('ignore')
                        co.send(chunk)
                except StopIteration:
                    lines.append('err Dead')
                    dead = True
                    yield None
                    continue
                except Exception as e:
                    lines.append(f'err {type(e).__name__}')
                    dead = True
                    yield None
                    continue
                blocks = out[n0:]
                line = 'ok ' + ('|'.join(self._fmt_block(sg, o, look, state) for o in blocks) if blocks else '-')
                if self._snapshot(sg, chunk) != snap:
                    line += ' ARG-MODIFIED'
                lines.append(line)
                if c.get('scrout'):
                    # the consumer works in place on what it received
                    for o in blocks:
                        if isinstance(o, np.ndarray) and o.flags.writeable and o.size:
                            o[...] = 1 if o.dtype == bool else 77
                        if hasattr(o, 'metadata') and isinstance(o.metadata, dict):
                            o.metadata['scribbled'] = 1
                            if isinstance(o.channel, list):
                                o.channel[:] = ['zz'] * len(o.channel)
                            o.s0, o.fs = -5, 1.0
                if c.get('scrin') and shared is None and chunk.flags.writeable:
                    # (VERIF_PENDING only) the caller re-uses its buffer
                    chunk[...] = 1 if chunk.dtype == bool else 55
                yield None
        yield lines

    def _impl_cont(self, c):
        *_, lines = self._run_cont(c)
        return lines

    def _impl_dual(self, c):
        a, b = c['a'], c['b']
        chunks = self._build_chunks(a)
        ga, gb = self._run_cont(a, chunks), self._run_cont(b, chunks)
        ra = rb = None
        while ra is None or rb is None:              # chunk i to stage A, chunk i to stage B, chunk i+1 to A, ...
            if ra is None:
                ra = next(ga)
            if rb is None:
                rb = next(gb)
        return ra + rb

    def _impl_events(self, c):
        from psiaudio import pipeline as P
        size, step = c['p1'], c['p2']
        out = []
        co = make_stage(c, out.append)
        lines = ['ok']
        dead = False
        for ml in self.model_lines(c)[1:]:
            if dead:
                lines.append('err Dead')
                continue
            _, a, b, evs, *q = ml.split()
            evs = [] if evs == '-' else [int(v) for v in evs.split(',')]
            fs_in = FS / int(q[0]) if q else FS
            # An Events block is a set of (kind, sample) tuples: nothing requires them to be listed
            # chronologically.  'rev' lists them newest first, 'split' lists alternate events first
            # (like "all rising before all falling"); the model (a count per window) is order-free.
            order = c.get('evorder')
            if order == 'rev':
                evs = evs[::-1]
            elif order == 'split':
                evs = evs[0::2] + evs[1::2]
            n0 = len(out)
            try:
                if rep_of(c).get('erate') == 'npargs':
                    co.send(P.Events([('e', np.int64(s)) for s in evs], np.int64(a), np.int64(b), int(fs_in) if fs_in == int(fs_in) else fs_in))
                else:
                    co.send(P.Events([('e', s) for s in evs], int(a), int(b), fs_in))
            except StopIteration:
                lines.append('err Dead')
                dead = True
                continue
            except Exception as e:
                lines.append(f'err {type(e).__name__}')
                dead = True
                continue
            toks = []
            for o in out[n0:]:
                a_ = np.asarray(o)
                s0x2 = int(round(float(o.s0) * 2))
                s0 = f'{s0x2}/2' if s0x2 / 2 == o.s0 else 's0?'
                fs = f'fs/{step}' if o.fs == FS / step else 'fs?'
                ch = 'chdef' if o.channel == [None] else 'ch?'
                md = 'mdempty' if o.metadata == {} else 'md?'
                cells = []
                if a_.ndim != 2 or a_.shape[0] != 1:
                    cells = ['?dim']
                else:
                    for r in a_[0]:
                        cnt = int(round(float(r) * size / FS))
                        cells.append(str(cnt) if cnt / size * FS == r else '?')
                toks.append(f"{s0};{fs};{ch};{md};{a_.shape[-1]};{','.join(cells) if cells else '-'}")
            lines.append('ok ' + ('|'.join(toks) if toks else '-'))
        return lines

    def impl_lines(self, c):
        if c['kind'] == 'dual':
            return self._impl_dual(c)
        if c['kind'] == 'event_rate':
            return self._impl_events(c)
        return self._impl_cont(c)

    # ------------------------------------------------------------------ oracle
    @staticmethod
    def _wellformed(c):
        if any(c.get('gaps') or []) or any(q != 1 for q in c.get('fsq') or []):
            return False
        if c['kind'] == 'iirfilter' and c['chunks'] and c['chunks'][0] == 0:
            return False
        return True

    @staticmethod
    def expected_cells(c):
        """The whole-signal definition of the stage, as cells, truncated to what can have been emitted."""
        st = c['kind']
        if st == 'event_rate':
            size, step, s0 = c['p1'], c['p2'], c['s0']
            n = sum(c['chunks'])
            out = []
            if len(c['chunks']) >= 2:
                j = 0
                while s0 + j * step + size < s0 + n:
                    lo = j * step
                    out.append(str(sum(1 for e in c['events'] if lo <= e < lo + size)))
                    j += 1
            return out
        n, p = c['N'], c['p1']
        if st == 'blocked':
            return [f'X{k}' for k in range(n // p * p)]
        if st == 'downsample':
            return [f'X{k * p}' for k in range(n // p)]
        if st == 'decimate':
            return [f'F{k * p}' for k in range(n // p)]
        if st == 'discard':
            return [f'X{k}' for k in range(p, n)]
        if st == 'rms':
            return [f'B{k * p}.{(k + 1) * p}' for k in range(n // p)]
        if st == 'iirfilter':
            return [f'F{k}' for k in range(n)]
        if st == 'derivative':
            return [f'D{k}' for k in range(n)]
        if st in ('transform', 'mc_reference'):
            return [f'P{k}' for k in range(n)]
        if st == 'auto_th':
            return [f'G{p}.{k}' for k in range(n)] if n >= p else []
        raise ValueError(st)

    def oracle(self, c, out):
        if out and out[0].startswith('HARNESS-EXC'):
            return out[0]
        if c['kind'] == 'dual':
            na = len(self.model_lines(c['a']))
            for name, sub, o in (('A', c['a'], out[:na]), ('B', c['b'], out[na:])):
                f = self.oracle(sub, o)
                if f is not None:
                    return (f'two stages fed the same chunk objects alternately (A = {self.describe(c["a"])}; '
                            f'B = {self.describe(c["b"])}), stage {name}: {f}')
            return None
        for l in out:
            if 'ARG-MODIFIED' in l:
                return f'{c["kind"]}: the stage modified the chunk it was sent (values or annotations): {l[:160]}'
        pos = 0
        for i, sg in enumerate(self._segments(c)):
            n = 1 + len(sg['chunks'])
            f = self._oracle_stream(sg, out[pos:pos + n])
            if f is not None:
                return (f'after {i} restart signal(s) (Ellipsis): ' if i else '') + f
            pos += n
        return None

    def _oracle_stream(self, c, out):
        if not self._wellformed(c):
            return None
        st = c['kind']
        if out[0] != 'ok':
            return f'{st}: construction / restart failed ({out[0]})'
        blocks = []
        for i, line in enumerate(out[1:]):
            bs = parse_out(line)
            if bs is None:
                return f'chunk {i} of a well-formed stream: stage raised ({line})'
            blocks.extend(bs)
        got = [x for b in blocks for x in b['cells']]
        want = self.expected_cells(c)
        if st == 'event_rate' and got == want[:len(got)]:
            # emission lag is not part of the property: accept any count between "windows that end
            # strictly before the known span" (what the code does) and "windows inside the known span"
            n = sum(c['chunks'])
            inside = 0
            while inside * c['p2'] + c['p1'] <= n:
                inside += 1
            if len(want) <= len(got) <= inside or (len(c['chunks']) < 2 and len(got) <= inside):
                want = got
        if got != want:
            j = next((j for j, (a, b) in enumerate(zip(got, want)) if a != b), min(len(got), len(want)))
            return (f'{st}: concatenated output differs from the whole-signal computation at output sample {j}: '
                    f'got {got[j] if j < len(got) else "nothing"}, whole-signal value is '
                    f'{want[j] if j < len(want) else "nothing"} ({len(got)} emitted, {len(want)} expected)')
        annotated = st == 'event_rate' or c['arr'].startswith('pd')
        if annotated:
            if st in DIVIDED:
                fs_want = f"fs/{c['p1']}"
            elif st == 'event_rate':
                fs_want = f"fs/{c['p2']}"
            else:
                fs_want = 'fs'
            prev = None
            for i, b in enumerate(blocks):
                if b['s0'] in ('_', 's0?'):
                    return f'{st}: emitted block {i} has no usable s0 ({b["s0"]})'
                s0 = s0_value(b['s0'])
                if prev is not None and s0 != prev:
                    return (f'{st}: emitted block {i} starts at s0={s0}, the previous block ended at {prev} '
                            f'(blocks cannot be concatenated)')
                prev = s0 + b['n']
                if b['fs'] != fs_want:
                    return f'{st}: emitted block {i} has rate {b["fs"]}, expected {fs_want}'
                if st != 'event_rate':
                    if b['ch'] != 'ch':
                        return f'{st}: emitted block {i} lost/changed the channel labels ({b["ch"]})'
                    md_want = 'md+th' if st == 'auto_th' else 'md'
                    if b['md'] != md_want:
                        return f'{st}: emitted block {i} lost/changed the metadata ({b["md"]})'
        return None

    def nontrivial(self, c, out):
        if c['kind'] == 'dual':
            return True
        return len(c['chunks']) >= 2 and any(l.startswith('ok ') and l != 'ok -' for l in out[1:])

    def kind(self, c):
        if c['kind'] == 'dual':
            return 'dual'
        return c['kind'] + ('+reset' if c.get('segs') else '')

    def known(self, c, failure):
        # No recorded finding is left for C12: the former C12-lfilter-empty-chunk (iirfilter / decimate adopting
        # the garbage final state scipy's lfilter reports for an empty chunk) is repaired by
        # notes/C12_fix_5.diff and is a plain VIOLATION on a tree without that guard.
        return None

    # ------------------------------------------------------------------ search
    def neighbours(self, c, rng):
        if c['kind'] == 'dual':
            yield c['a']
            yield c['b']
            return
        if c.get('segs'):
            for sg in self._segments(c):
                yield sg
            return
        n = sum(c['chunks'])
        for _ in range(40):
            d = dict(c)
            d.pop('gaps', None)
            d.pop('fsq', None)
            m = max(1, n + rng.randint(-2, 2))
            parts = rng.chunks(m, 8)
            d['chunks'] = parts
            if c['kind'] == 'event_rate':
                d['events'] = [e for e in c['events'] if e < m]
            else:
                d['N'] = m
            yield d
        if c['kind'] != 'event_rate':
            for arr in arr_kinds(c['kind']):
                d = dict(c)
                d.pop('gaps', None)
                d['arr'] = arr
                d['chunks'] = rng.chunks(n, 6) if n else []
                yield d

    def shrink_candidates(self, c):
        if c['kind'] == 'dual':
            yield c['a']
            yield c['b']
            for sa in self.shrink_candidates(c['a']):
                sb = dict(c['b'])
                sb.update({k: sa[k] for k in ('arr', 'N', 'chunks', 's0', 'seed') if k in sa})
                for k in ('rep', 'gaps', 'dtype', 'lab'):
                    sb.pop(k, None)
                    if k in sa:
                        sb[k] = sa[k]
                if c['b'].get('rep'):
                    sb['rep'] = dict(sa.get('rep') or {}, **{k: v for k, v in c['b']['rep'].items() if k in ('ath', 'pnp', 'spell')})
                yield {'kind': 'dual', 'a': sa, 'b': sb}
            return
        if c.get('segs'):
            segs = self._segments(c)
            for sg in segs:
                yield sg
            if len(c['segs']) > 1:
                for i in range(len(c['segs'])):
                    yield dict(c, segs=c['segs'][:i] + c['segs'][i + 1:])
        if c.get('rep'):
            for k in c['rep']:
                yield dict(c, rep={a: b for a, b in c['rep'].items() if a != k})
        for k in ('scrout', 'scrin'):
            if c.get(k):
                yield {a: b for a, b in c.items() if a != k}
        ch = c['chunks']
        ev = c['kind'] == 'event_rate'

        def mk(parts, **kw):
            d = dict(c)
            d.pop('gaps', None)
            d.pop('fsq', None)
            d['chunks'] = parts
            if ev:
                tot = sum(parts)
                d['events'] = [e for e in c['events'] if e < tot]
            else:
                d['N'] = sum(parts)
            d.update(kw)
            return d
        if len(ch) > 1:
            yield mk(ch[:-1])
            for i in range(len(ch) - 1):
                yield mk(ch[:i] + [ch[i] + ch[i + 1]] + ch[i + 2:])
        for i in range(len(ch)):
            if ch[i] > 1:
                yield mk(ch[:i] + [ch[i] - 1] + ch[i + 1:])
                yield mk(ch[:i] + [ch[i] // 2] + ch[i + 1:])
            if ch[i] == 0 and len(ch) > 1:
                yield mk(ch[:i] + ch[i + 1:])
        if ev and c['events']:
            for i in range(len(c['events'])):
                d = dict(c)
                d['events'] = c['events'][:i] + c['events'][i + 1:]
                yield d
        if c['s0']:
            yield mk(ch, s0=0)
        if not ev:
            if c['arr'] == 'pd2' and 'pd1' in arr_kinds(c['kind']):
                yield mk(ch, arr='pd1')
            if c['arr'] == '2d' and '1d' in arr_kinds(c['kind']):
                yield mk(ch, arr='1d')
            if c.get('seed'):
                yield mk(ch, seed=c['seed'] % 2)

    def describe(self, c):
        if c['kind'] == 'dual':
            return 'dual: A = ' + self.describe(c['a']) + ' ; B = ' + self.describe(c['b'])
        extra = ''.join(f' {k}={c[k]}' for k in ('rep', 'scrout', 'scrin', 'segs', 'dtype') if c.get(k))
        return self._describe(c) + extra

    def _describe(self, c):
        if c['kind'] == 'event_rate':
            return (f"event_rate(block_size={c['p1']}, block_step={c['p2']}) start={c['s0']} spans={c['chunks']} "
                    f"events={c['events']}" + (f" order={c['evorder']}" if c.get('evorder') else '')
                    + (f" gaps={c['gaps']}" if c.get('gaps') else '') + (f" fs/q={c['fsq']}" if c.get('fsq') else ''))
        return (f"{c['kind']}(p1={c['p1']}, p2={c['p2']}) on {c['arr']}{'' if c.get('lab', 1) else ' (unlabelled)'} stream N={c['N']} s0={c['s0']} "
                f"chunks={c['chunks']}" + (f" gaps={c['gaps']}" if c.get('gaps') else ''))


SPEC = C12()
