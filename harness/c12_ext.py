"""EXT12 — extension of the C12 machinery to pipeline stages that property C12 does not name:
delay, average, accumulate, mc_select, detrend, broadcast (model lean/PsiModel/StagesExt.lean, theorems
lean/PsiProofs/C12Ext.lean) and rms_band, capture, events_to_info (lean/PsiModel/StagesExt2.lean, theorems
lean/PsiProofs/C12Ext2.lean); registry lean/registry/EXT12.txt.  NOT part of `./check C12`.

Run:  PYTHONPATH=. PSI_REPO=... /venv/bin/python -m harness.c12_ext [--tier quick|thorough] [--replay path]
Prints `EXT12 ... exit 0`, or `EXT-MISMATCH stage=<name> replay=<path>` (exit 1); `EXT-KNOWN ...` lines name the
recorded behaviours of the unchanged library that were met (notes/EXT12.md).

One case = one stage + parameters + one input stream + one chunking.  The same `x…` lines go to the Lean model
(`psidriver stages`) and to the real coroutine.  Values are printed as cells (N NaN, X k column k, A lo.hi mean of
rows [lo, hi), C r.k channel r column k, E k / T k epoch k / detrended epoch k): the adapter identifies each emitted
value by looking it up in the whole input (or in the real kernel applied to the whole input), so no float crosses
languages.  The oracle is the whole-signal definition on the concatenated output.
"""
import argparse
import json
import logging
import os
import sys
import time
import warnings

import numpy as np

from . import common as C
from .framework import Spec

FS = 1000.0
MD = {'m': 1}
X0 = 1000.0
CAPFS = 8.0            # capture: requests are t0 = r2 / 16 s, so t0 * CAPFS = r2 / 2 exactly (half-way cases included)
EDGES = {0: 'falling', 1: 'rising', 2: 'other'}


def _pipeline():
    from psiaudio import pipeline
    return pipeline


_AVG_FIXED = None


def average_is_fixed():
    """Does this library's `average` index with a tuple (notes/EXT12_fix_1.diff)?  One probe: average(1) sent one row."""
    global _AVG_FIXED
    if _AVG_FIXED is None:
        P = _pipeline()
        out = []
        try:
            P.average(1, out.append).send(np.zeros((2, 2)))
            _AVG_FIXED = True          # anything but the IndexError of the list index: judged against the repaired model
        except IndexError:
            _AVG_FIXED = False
    return _AVG_FIXED


def cells_x(a):
    out = []
    for v in np.asarray(a, dtype=float).ravel().tolist():
        if v != v:
            out.append('N')
        elif v == int(v) and v >= X0:
            out.append(f'X{int(v - X0)}')
        else:
            out.append('?')
    return ','.join(out) if out else '-'


def bar(items):
    return 'ok ' + '|'.join(items) if items else 'ok -'


class quiet_fds:
    """silence what native code writes to file descriptors 1 and 2 (only when `on`)"""

    def __init__(self, on):
        self.on = on

    def __enter__(self):
        if self.on:
            sys.stdout.flush()
            sys.stderr.flush()
            self.saved = (os.dup(1), os.dup(2))
            null = os.open(os.devnull, os.O_WRONLY)
            os.dup2(null, 1)
            os.dup2(null, 2)
            os.close(null)

    def __exit__(self, *a):
        if self.on:
            os.dup2(self.saved[0], 1)
            os.dup2(self.saved[1], 2)
            os.close(self.saved[0])
            os.close(self.saved[1])
        return False


def exc_name(e):
    return 'Dead' if isinstance(e, StopIteration) else type(e).__name__


class Ext(Spec):
    PROP = 'EXT12'
    MODEL = 'stages'
    PROOF_MODULES = ['PsiProofs.C12Ext', 'PsiProofs.C12Ext2']
    STAGES = ['delay', 'average', 'acc_time', 'acc_stack', 'mc_select', 'detrend', 'broadcast',
              'rms_band', 'capture', 'events_to_info']

    # ------------------------------------------------------------------ cases
    def chunking(self, rng, maxn=9):
        n = rng.randint(0, maxn)
        ch = rng.chunks(n) if n else []
        for _ in range(rng.choice([0, 0, 1, 2])):          # empty chunks anywhere
            ch.insert(rng.randint(0, len(ch)), 0)
        return ch

    def one(self, rng, stage, malformed=False):
        c = {'stage': stage, 's0': rng.choice([0, 5, -3, 2 ** 31 + 1])}
        if stage == 'delay':
            c.update(n=rng.randint(0, 4), ann=rng.randint(0, 1), chunks=self.chunking(rng))
        elif stage == 'average':
            c.update(n=rng.randint(1, 4), chunks=self.chunking(rng), width=rng.choice([1, 3]),
                     dim=rng.choice([1, 2, 3]))
        elif stage == 'acc_time':
            ops = [['p', k, 0] for k in self.chunking(rng)]
            for _ in range(rng.choice([0, 0, 1, 2])):
                ops.insert(rng.randint(0, len(ops)), ['r'])
            c.update(n=rng.randint(1, 4), cb=rng.randint(0, 1), ann=rng.randint(0, 1), ops=ops,
                     axis=rng.choice([-1, 'time']))
            if malformed and ops:
                k = rng.randint(0, len(ops) - 1)
                if ops[k][0] == 'p':
                    ops[k][2] = rng.choice([-1, 1, 2])
        elif stage == 'acc_stack':
            m = rng.randint(0, 9)
            ops = [['b']] * m
            for _ in range(rng.choice([0, 0, 1, 2])):
                ops = ops[:]
                ops.insert(rng.randint(0, len(ops)), ['r'])
            c.update(n=rng.randint(1, 4), cb=rng.randint(0, 1), ops=ops,
                     variant=rng.choice(['plain-epoch-new', 'plain-chan-new', 'pd-epoch-new', 'pd-epoch', 'pd-chan-new',
                                         'pd-chan', 'pd3-epoch', 'plain-m2', 'plain-m3']))
        elif stage == 'mc_select':
            nch = rng.randint(1, 3)
            chan = [f'c{i}' for i in range(nch)]
            kind = rng.choice(['i', 'i', 'l'])
            labels = rng.choice([chan, chan[::-1], None]) if kind == 'i' else rng.choice([chan, chan[::-1]])
            if kind == 'i':
                v = rng.randint(-nch, nch - 1)
            else:
                v = rng.choice(chan)
            c.update(nch=nch, chan=chan, sel=kind, v=v, labels=labels, ann=rng.randint(0, 1),
                     chunks=self.chunking(rng), nd=[])
            if malformed:
                what = rng.choice(['range', 'label', 'nolabels', 'nd'])
                if what == 'range':
                    c.update(sel='i', v=rng.choice([nch, nch + 1, -nch - 1]))
                elif what == 'label':
                    c.update(sel='l', v='zz', labels=chan)
                elif what == 'nolabels':
                    c.update(sel='l', v=chan[0], labels=None)
                elif c['chunks']:
                    c['nd'] = [rng.randint(0, len(c['chunks']) - 1)]
        elif stage == 'detrend':
            mode = rng.choice(['none', 'constant', 'linear'])
            ch = self.chunking(rng, 6)
            if mode == 'linear' and not malformed:
                ch = [k for k in ch if k] if rng.random() < 0.7 else ch
            c.update(mode=mode, chunks=ch, kind=rng.choice(['plain', 'pd3']), nch=rng.randint(1, 2), nt=rng.randint(2, 5))
            if malformed:
                c['kind'] = rng.choice(['pd2', 'pd1'])
        elif stage == 'broadcast':
            c.update(k=rng.randint(0, 3), m=rng.randint(0, 5))
        elif stage == 'rms_band':
            n = rng.choice([4, 5, 6, 8])
            ops = [['pd', k, 0] for k in self.chunking(rng, rng.choice([9, 3 * n + 2]))]
            c.update(n=n, dim=rng.choice([1, 1, 2]), ops=ops)
            if malformed:
                what = rng.choice(['plain-first', 'plain-later', 'gap', 'n0'])
                if what == 'n0':
                    c['n'] = 0
                    c['ops'] = ops or [['pd', 2, 0]]
                elif not ops:
                    c['ops'] = [['plain', 3, 0]]
                elif what == 'plain-first':
                    ops[0][0] = 'plain'
                elif what == 'plain-later':
                    ops[rng.randint(0, len(ops) - 1)][0] = 'plain'
                else:
                    ops[rng.randint(0, len(ops) - 1)][2] = rng.choice([-1, 1, 3])
        elif stage == 'capture':
            lens = self.chunking(rng, 12)
            total = sum(lens)
            ops = [['p', 'pd', k] for k in lens]
            nreq = rng.choice([0, 1, 1, 1, 2, 3])
            for _ in range(nreq):
                # requested start: twice the sample number (odd = half-way between two samples)
                r2 = rng.choice([2 * rng.randint(0, total + 1), 2 * rng.randint(0, total + 1), rng.randint(-3, 2 * total + 3)])
                ops.insert(rng.randint(0, len(ops)), ['q', r2] if rng.random() < 0.8 else ['q', None])
            c.update(dim=rng.choice([1, 1, 2]), ops=ops)
            if malformed:
                for o in ops:
                    if o[0] == 'p' and rng.random() < 0.5:
                        o[1] = 'plain'
        elif stage == 'events_to_info':
            sends, ts = [], 0
            for _ in range(rng.randint(0, 5)):
                k = rng.choice([0, 0, 1, 2, 3, 5])
                sends.append([[rng.choice([0, 1, 1, 2]), ts + i] for i in range(k)])
                ts += k
            c.update(edge=rng.choice([0, 1]), sends=sends)
            if malformed:
                sends.insert(rng.randint(0, len(sends)), 'events')
        return c

    def cases(self, rng, tier):
        reps = 60 if tier == 'quick' else 1500
        # boundary: chunk edges around every multiple of n
        for n in (1, 2, 3):
            for total in range(0, 3 * n + 2):
                for first in range(0, total + 1):
                    chunks = [first, total - first]
                    yield {'stage': 'average', 'n': n, 'chunks': chunks, 'width': 2, 'dim': 2, 's0': 0}
                    yield {'stage': 'delay', 'n': n, 'ann': first % 2, 'chunks': chunks, 's0': 5}
                    yield {'stage': 'mc_select', 'nch': 2, 'chan': ['a', 'b'], 'sel': 'l', 'v': 'b', 'labels': ['a', 'b'],
                           'ann': 1, 'chunks': chunks, 'nd': [], 's0': 7}
            for m in range(0, 3 * n + 2):
                for cb in (0, 1):
                    yield {'stage': 'acc_stack', 'n': n, 'cb': cb, 'ops': [['b']] * m, 'variant': 'pd-epoch-new', 's0': 0}
                    yield {'stage': 'acc_time', 'n': n, 'cb': cb, 'ann': 1, 'axis': -1,
                           'ops': [['p', 1 + (i % 2), 0] for i in range(m)], 's0': 3}
        yield {'stage': 'acc_stack', 'n': 0, 'cb': 1, 'ops': [['b']] * 3, 'variant': 'plain-epoch-new', 's0': 0}
        # rms_band: a chunk edge at every offset -2..+2 around every multiple of n; capture: the request arriving before
        # every chunk of a fixed chunking, for every requested start sample (early, on a chunk edge, late)
        for total in range(0, 3 * 4 + 2):
            for first in range(0, total + 1):
                yield {'stage': 'rms_band', 'n': 4, 'dim': 1, 's0': 7, 'ops': [['pd', first, 0], ['pd', total - first, 0]]}
        lens = [2, 0, 3, 1]
        for at in range(0, len(lens) + 1):
            for r in range(-1, sum(lens) + 2):
                ops = [['p', 'pd', k] for k in lens]
                ops.insert(at, ['q', 2 * r])
                yield {'stage': 'capture', 'dim': 1, 's0': 5, 'ops': ops}
                yield {'stage': 'capture', 'dim': 1, 's0': 0, 'ops': ops + [['q', None], ['p', 'pd', 2], ['q', 2 * r + 8], ['p', 'pd', 3], ['p', 'pd', 4]]}
        for stage in self.STAGES:
            for _ in range(reps):
                yield self.one(rng, stage)
            for _ in range(max(6, reps // 6)):
                yield self.one(rng, stage, malformed=True)

    def kind(self, c):
        return c['stage']

    # ------------------------------------------------------------------ model side
    def model_lines(self, c):
        st = c['stage']
        if st == 'delay':
            return [f"xnew delay {c['n']} {c['ann']}"] + [f'xpush {k} 0' for k in c['chunks']]
        if st == 'average':
            return [f"xnew average {c['n']} {int(average_is_fixed())}"] + [f'xrows {k}' for k in c['chunks']]
        if st == 'acc_time':
            return [f"xnew acc_time {c['n']} {c['cb']} {c['ann']}"] + \
                [f'xpush {o[1]} {o[2]}' if o[0] == 'p' else 'xrestart' for o in c['ops']]
        if st == 'acc_stack':
            return [f"xnew acc_stack {c['n']} {c['cb']}"] + ['xblk' if o[0] == 'b' else 'xrestart' for o in c['ops']]
        if st == 'mc_select':
            labels = ','.join(c['labels']) if c['labels'] else '-'
            lines = [f"xnew mc_select {c['sel']} {c['v']} {labels} {','.join(c['chan'])}"]
            for i, k in enumerate(c['chunks']):
                kind = 'nd' if i in c['nd'] else ('pd' if c['ann'] else 'plain')
                lines.append(f"x2d {kind} {c['nch']} {k} 0")
            return lines
        if st == 'detrend':
            return [f"xnew detrend {c['mode']}"] + [f"xep {c['kind']} {k}" for k in c['chunks']]
        if st == 'broadcast':
            return [f"xnew broadcast {c['k']}"] + ['xany'] * c['m']
        if st == 'rms_band':
            return [f"xband {c['n']}"] + [f'xbpush {o[0]} {o[1]} {o[2]}' for o in c['ops']]
        if st == 'capture':
            lines = ['xcap']
            for o in c['ops']:
                if o[0] == 'p':
                    lines.append(f'xcpush {o[1]} {o[2]}')
                elif o[1] is None:
                    lines.append('xcq none')
                else:
                    # `round(t0 * fs)` is the library's own rounding kernel (a parameter of the model)
                    lines.append(f'xcq {o[1]} {round(o[1] / 16 * CAPFS)}')
            return lines
        if st == 'events_to_info':
            return [f"xinfo {c['edge']}"] + ['xievents' if sd == 'events' else
                                             'xipairs ' + (','.join(f'{e}:{t}' for e, t in sd) or '-') for sd in c['sends']]
        raise ValueError(st)

    # ------------------------------------------------------------------ implementation side
    def show1(self, b, s0):
        """a 1-D block: `s0;ch;n;cells` (annotations that are not as sent are flagged in the ch field)"""
        P = _pipeline()
        if isinstance(b, P.PipelineData):
            ch = str(b.channel)
            if b.fs != FS:
                ch += '!fs'
            if b.metadata != MD:
                ch += '!md'
            if b.ndim != 1:
                ch += f'!ndim{b.ndim}'
            return f'{int(b.s0) - s0};{ch};{b.shape[-1]};{cells_x(b)}'
        if isinstance(b, np.ndarray) and b.ndim == 1:
            return f'_;_;{b.shape[-1]};{cells_x(b)}'
        return f'?{type(b).__name__}{getattr(b, "shape", "")}'

    def send_all(self, co, out, sends, show):
        """send the chunks; one line per send: what the callbacks received during it, or the exception"""
        lines = []
        for ch in sends:
            del out[:]
            try:
                co.send(ch)
                lines.append(bar([show(b) for b in out]))
            except Exception as e:
                lines.append(f'err {exc_name(e)}')
        return lines

    def impl_lines(self, c):
        with warnings.catch_warnings():
            warnings.simplefilter('ignore')
            return getattr(self, '_impl_' + c['stage'])(c)

    def _stream1(self, c, lens_gaps, ann, channel='ch'):
        """1-D chunks with unique values X k; annotated chunks are views of nothing (fresh arrays)"""
        P = _pipeline()
        pos, s0, out = 0, c['s0'], []
        for k, gap in lens_gaps:
            v = X0 + np.arange(pos, pos + k, dtype=float)
            s0 += gap
            out.append(P.PipelineData(v, fs=FS, s0=s0, channel=channel, metadata=dict(MD)) if ann else v)
            pos += k
            s0 += k
        return out

    def _impl_delay(self, c):
        P = _pipeline()
        out = []
        co = P.delay(c['n'], out.append)
        first = bar([self.show1(b, c['s0']) for b in out])
        sends = self._stream1(c, [(k, 0) for k in c['chunks']], c['ann'])
        lines = []
        for ch in sends:
            del out[:]
            try:
                co.send(ch)
                lines.append(bar([self.show1(b, c['s0']) + ('' if b is ch else '!copy') for b in out]))
            except Exception as e:
                lines.append(f'err {exc_name(e)}')
        return [first] + lines

    def _impl_average(self, c):
        P = _pipeline()
        n, w = c['n'], c['width']
        total = sum(c['chunks'])
        shape = {1: (), 2: (w,), 3: (2, w)}[c['dim']]
        rng = np.random.RandomState(total * 7 + n)
        whole = rng.randint(-50, 50, size=(total,) + shape).astype(float)
        out = []
        co = P.average(n, out.append)
        lines, pos, emitted = ['ok'], 0, 0
        for k in c['chunks']:
            del out[:]
            try:
                co.send(whole[pos:pos + k])
                items = []
                for b in out:
                    lo, hi = emitted * n, (emitted + 1) * n
                    want = whole[lo:hi].mean(axis=0) if hi <= total else None
                    good = want is not None and np.shape(b) == want.shape and np.allclose(b, want, rtol=1e-12, atol=1e-12)
                    items.append(f'A{lo}.{hi}' if good else '?')
                    emitted += 1
                lines.append(bar(items))
            except Exception as e:
                lines.append(f'err {exc_name(e)}')
            pos += k
        return lines

    def _impl_acc_time(self, c):
        P = _pipeline()
        out = []

        def show(b):
            if isinstance(b, tuple):
                return f'S{b[1]}'
            if b is Ellipsis:
                return 'R'
            return 'E:' + self.show1(b, c['s0'])
        cb = (lambda k: out.append(('S', k))) if c['cb'] else None
        co = P.accumulate(c['n'], c['axis'], False, cb, out.append)
        pushes = [(o[1], o[2]) for o in c['ops'] if o[0] == 'p']
        chunks = iter(self._stream1(c, pushes, c['ann']))
        sends = [next(chunks) if o[0] == 'p' else Ellipsis for o in c['ops']]
        return ['ok'] + self.send_all(co, out, sends, show)

    def _impl_acc_stack(self, c):
        P = _pipeline()
        v = c['variant']
        kind, axis, new = (v.split('-') + [''])[:3]
        newaxis = new == 'new'
        out = []
        ids = iter(range(10 ** 6))

        def block(i):
            if kind == 'plain':
                if axis == 'm2':
                    return np.full((1, 3), float(i))             # stacked along axis -2 without a new axis
                if axis == 'm3':
                    return np.full((1, 2, 3), float(i))
                return np.full((2, 3) if axis == 'epoch' else (3,), float(i))
            if kind == 'pd3':
                return P.PipelineData(np.full((1, 2, 3), float(i)), fs=FS, s0=c['s0'], channel=['a', 'b'], metadata=[{'e': i}])
            if axis == 'epoch':
                return P.PipelineData(np.full((2, 3), float(i)), fs=FS, s0=c['s0'], channel=['a', 'b'], metadata={'e': i})
            return P.PipelineData(np.full((3,), float(i)), fs=FS, s0=c['s0'], channel=f'c{i}', metadata=dict(MD))
        ax = {'epoch': 'epoch', 'chan': 'channel', 'm2': -2, 'm3': -3}[axis]
        if kind == 'plain' and axis in ('epoch', 'chan') and not newaxis:
            newaxis = True
        npax = {'epoch': -3, 'chan': -2, 'm2': -2, 'm3': -3}[axis]

        def show(b):
            if isinstance(b, tuple):
                return f'S{b[1]}'
            if b is Ellipsis:
                return 'R'
            a = np.asarray(b)
            sl = np.moveaxis(a, npax, 0)
            got = []
            for s in sl:
                u = np.unique(s)
                got.append(str(int(u[0])) if len(u) == 1 else '?')
            flag = ''
            if isinstance(b, P.PipelineData):           # labels / per-epoch metadata follow the blocks
                idn = [int(x) for x in got if x != '?']
                if axis == 'epoch' and b.metadata != [{'e': i} for i in idn]:
                    flag = '!md'
                if axis == 'chan' and b.channel != [f'c{i}' for i in idn]:
                    flag = '!ch'
                if b.fs != FS or b.s0 != c['s0']:
                    flag += '!ann'
            elif kind != 'plain':
                flag = '!plain'
            return 'E:' + '+'.join(got) + flag
        cb = (lambda k: out.append(('S', k))) if c['cb'] else None
        co = P.accumulate(c['n'], ax, newaxis, cb, out.append)
        sends = [block(next(ids)) if o[0] == 'b' else Ellipsis for o in c['ops']]
        return ['ok'] + self.send_all(co, out, sends, show)

    def _impl_mc_select(self, c):
        P = _pipeline()
        out = []
        try:
            co = P.mc_select(int(c['v']) if c['sel'] == 'i' else c['v'], c['labels'], out.append)
        except Exception as e:
            return [f'err {exc_name(e)}'] + ['err Dead'] * len(c['chunks'])
        lines, pos, dead = ['ok'], 0, False
        for i, k in enumerate(c['chunks']):
            if dead:
                lines.append('err Dead')
                continue
            v = np.arange(c['nch'])[:, None] * 1e6 + X0 + np.arange(pos, pos + k, dtype=float)[None, :]
            if i in c['nd']:
                ch = v.ravel()
            elif c['ann']:
                ch = P.PipelineData(v, fs=FS, s0=c['s0'] + pos, channel=list(c['chan']), metadata=dict(MD))
            else:
                ch = v
            del out[:]
            try:
                co.send(ch)
                items = []
                for b in out:
                    a = np.asarray(b, dtype=float)
                    cells = ','.join(f'C{int(x // 1e6)}.{int(x % 1e6 - X0)}' for x in a.ravel().tolist()) or '-'
                    if isinstance(b, P.PipelineData):
                        lab = str(b.channel) + ('' if b.fs == FS else '!fs') + ('' if b.metadata == MD else '!md')
                        items.append(f"{int(b.s0) - c['s0']};{lab};{a.shape[-1] if a.ndim == 1 else '?'};{cells}")
                    else:
                        items.append(f"_;_;{a.shape[-1] if a.ndim == 1 else '?'};{cells}")
                lines.append(bar(items))
                pos += k
            except Exception as e:
                lines.append(f'err {exc_name(e)}')
                dead = True
        return lines

    def _impl_detrend(self, c):
        P = _pipeline()
        from scipy import signal
        total = sum(c['chunks'])
        rng = np.random.RandomState(total * 11 + c['nt'])
        whole = rng.randint(-50, 50, size=(total, c['nch'], c['nt'])).astype(float) + np.arange(total)[:, None, None] * 1000.0
        mode = None if c['mode'] == 'none' else c['mode']
        ref = whole if mode is None or total == 0 else signal.detrend(whole, axis=-1, type=mode)   # whole-signal definition
        out = []
        co = P.detrend(mode, out.append)
        lines, pos, dead = ['ok'], 0, False
        labels = ['a', 'b'][:c['nch']]
        for k in c['chunks']:
            if dead:
                lines.append('err Dead')
                continue
            d = whole[pos:pos + k]
            md = [{'e': i} for i in range(pos, pos + k)]
            if c['kind'] == 'pd3':
                d = P.PipelineData(d, fs=FS, s0=7, channel=labels, metadata=md)
            elif c['kind'] == 'pd2':
                d = P.PipelineData(d.reshape(-1, c['nt']), fs=FS, s0=7)
            elif c['kind'] == 'pd1':
                d = P.PipelineData(d.ravel(), fs=FS, s0=7)
            del out[:]
            try:
                with quiet_fds(c['mode'] == 'linear' and k == 0):      # LAPACK prints a complaint of its own there
                    co.send(d)
                items = []
                for b in out:
                    a = np.asarray(b)
                    cells = []
                    for j, e in enumerate(a):
                        i = pos + j
                        if mode is not None and i < total and e.shape == ref[i].shape and np.allclose(e, ref[i], rtol=1e-9, atol=1e-9):
                            cells.append(f'T{i}')
                        elif mode is None and i < total and np.array_equal(e, whole[i]):
                            cells.append(f'E{i}')
                        else:
                            cells.append('?')
                    cs = ','.join(cells) or '-'
                    if isinstance(b, P.PipelineData):
                        ch = 'ch' if (b.channel == labels and b.fs == FS) else '!ann'
                        mdl = ','.join(f"M{m.get('e')}" for m in b.metadata) or '-'
                        items.append(f'{b.s0};{ch};{mdl};{len(a)};{cs}')
                    else:
                        items.append(f'_;_;{len(a)};{cs}' if c['kind'] == 'plain' else f'!plain;{len(a)};{cs}')
                lines.append(bar(items))
                pos += k
            except Exception as e:
                lines.append(f'err {exc_name(e)}')
                dead = True
        return lines

    def _impl_broadcast(self, c):
        P = _pipeline()
        out = []
        targets = [(lambda d, j=j: out.append((j, d))) for j in range(c['k'])]
        co = P.broadcast(*targets)
        lines = ['ok']
        for i in range(c['m']):
            del out[:]
            try:
                co.send(i)
                lines.append(bar([f'{j}:{d}' for j, d in out]))
            except Exception as e:
                lines.append(f'err {exc_name(e)}')
        return lines

    # ---- second extension: rms_band, capture, events_to_info
    @staticmethod
    def _cols(a):
        """cells of a 1-D / 2-D block of the stream `row r, column k ↦ r·1e6 + X0 + k`: `X k` per column"""
        a = np.asarray(a, dtype=float)
        if a.ndim == 1:
            a = a[None, :]
        out = []
        for col in a.T:
            k = col[0] - X0
            ok = k == int(k) and k >= 0 and all(v == r * 1e6 + X0 + k for r, v in enumerate(col.tolist()))
            out.append(f'X{int(k)}' if ok else '?')
        return ','.join(out) if out else '-'

    def _impl_rms_band(self, c):
        P = _pipeline()
        n, dim = c['n'], c['dim']
        total = sum(o[1] for o in c['ops'])
        rng = np.random.RandomState(total * 13 + n)
        whole = rng.randn(*((2, total) if dim == 2 else (total,))) * 10
        labels = ['a', 'b'] if dim == 2 else 'c'
        dur = n / FS
        if n and int(round(FS * dur)) != n:
            return ['HARNESS-EXC block length not representable']
        fl, fh = (0.9 * FS / n, FS) if n else (100.0, 200.0)       # bins 1 … last: the values tell the blocks apart

        def mk(lo, hi, s0, kind='pd'):
            return P.PipelineData(whole[..., lo:hi], fs=FS, s0=s0, channel=labels, metadata=dict(MD)) if kind == 'pd' \
                else np.array(whole[..., lo:hi])
        ref = None
        if n and total >= n:                                        # whole-signal definition: the stage fed the whole signal at once
            r = []
            P.rms_band(FS, fl, fh, dur, r.append).send(mk(0, total, c['s0']))
            ref = np.asarray(r[0])
        out = []
        co = P.rms_band(FS, fl, fh, dur, out.append)
        lines, pos, s0, emitted, dead = ['ok'], 0, c['s0'], 0, False
        for kind, k, gap in c['ops']:
            if dead:
                lines.append('err Dead')
                continue
            s0 += gap
            d = mk(pos, pos + k, s0, kind)
            del out[:]
            try:
                co.send(d)
                items = []
                for b in out:
                    a = np.asarray(b)
                    cells = []
                    for j in range(a.shape[-1]):
                        e = emitted + j
                        good = ref is not None and e < ref.shape[-1] and a[..., j].shape == ref[..., e].shape and \
                            np.allclose(a[..., j], ref[..., e], rtol=1e-9, atol=1e-12)
                        cells.append(f'B{e * n}' if good else '?')
                    emitted += a.shape[-1]
                    flag = ''
                    if not isinstance(b, P.PipelineData):
                        flag = '!plain'
                    else:
                        if b.fs != FS / n:
                            flag += '!fs'
                        if b.channel != (None if dim == 1 else [None, None]):
                            flag += '!ch'
                        if b.metadata != {}:
                            flag += '!md'
                        if a.ndim != dim:
                            flag += '!ndim'
                    items.append(f"{getattr(b, 's0', '?')}{flag};{a.shape[-1]};{','.join(cells) or '-'}")
                lines.append(bar(items))
                pos += k
                s0 += k
            except Exception as e:
                lines.append(f'err {exc_name(e)}')
                dead = True
        return lines

    def _impl_capture(self, c):
        import collections
        P = _pipeline()
        dim = c['dim']
        q = collections.deque()
        out = []
        lg = logging.getLogger('psiaudio.pipeline')
        old = lg.level
        lg.setLevel(logging.CRITICAL + 1)                           # the stage logs every request at level ERROR
        try:
            co = P.capture(CAPFS, q, out.append)
            lines, pos, dead = ['ok'], 0, False
            labels = ['a', 'b'] if dim == 2 else 'ch'
            for o in c['ops']:
                if o[0] == 'q':
                    q.append(None if o[1] is None else {'t0': o[1] / 16})
                    lines.append('ok')
                    continue
                if dead:
                    lines.append('err Dead')
                    continue
                k = o[2]
                v = X0 + np.arange(pos, pos + k, dtype=float)
                if dim == 2:
                    v = np.arange(2)[:, None] * 1e6 + v[None, :]
                d = P.PipelineData(v, fs=CAPFS, s0=c['s0'] + pos, channel=labels, metadata=dict(MD)) if o[1] == 'pd' else v
                del out[:]
                try:
                    co.send(d)
                    items = []
                    for b in out:
                        if b is Ellipsis:
                            items.append('R')
                        elif isinstance(b, P.PipelineData):
                            md = dict(b.metadata)
                            cap = md.pop('capture', 'missing')
                            caps = 'None' if cap is None else (str(int(round(cap * 16))) if isinstance(cap, float) and cap * 16 == int(cap * 16) else f'?{cap}')
                            flag = ''
                            if md != MD:
                                flag += '!md'
                            if b.channel != labels or b.fs != CAPFS or b.ndim != dim:
                                flag += '!ann'
                            if isinstance(d, P.PipelineData) and d.metadata != MD:
                                flag += '!mut'
                            items.append(f"{int(b.s0) - c['s0']};{caps}{flag};{b.shape[-1]};{self._cols(b)}")
                        elif isinstance(b, np.ndarray):
                            items.append(f'_;_;{b.shape[-1]};{self._cols(b)}')
                        else:
                            items.append(f'?{type(b).__name__}')
                    lines.append(bar(items))
                    pos += k
                except Exception as e:
                    lines.append(f'err {exc_name(e)}')
                    dead = True
            return lines
        finally:
            lg.setLevel(old)

    def _impl_events_to_info(self, c):
        P = _pipeline()
        base = {'k': 1, 'nested': [1]}
        base0 = {'k': 1, 'nested': [1]}
        out = []
        co = P.events_to_info(EDGES[c['edge']], base, out.append)
        lines, dead, seen = ['ok'], False, []
        for sd in c['sends']:
            if dead:
                lines.append('err Dead')
                continue
            obj = P.Events([('rising', 3)], 0, 10, FS) if sd == 'events' else [(EDGES[e], float(t)) for e, t in sd]
            del out[:]
            try:
                co.send(obj)
                items = []
                for r in out:
                    if not isinstance(r, list):
                        items.append(f'?{type(r).__name__}')
                        continue
                    cells = []
                    for info in r:
                        t0 = info.get('t0') if isinstance(info, dict) else None
                        cell = f'I{int(t0)}' if isinstance(t0, float) and t0 == int(t0) else '?'
                        if not isinstance(info, dict) or {k: v for k, v in info.items() if k != 't0'} != base0:
                            cell += '!base'
                        if info is base or any(info is x for x in seen):
                            cell += '!alias'
                        seen.append(info)
                        cells.append(cell)
                    items.append('L:' + (','.join(cells) or '-') + ('' if base == base0 else '!mut'))
                lines.append(bar(items))
            except Exception as e:
                lines.append(f'err {exc_name(e)}')
                dead = True
        return lines

    # ------------------------------------------------------------------ oracle: the whole-signal definition
    @staticmethod
    def _cells(lines, prefix=''):
        """concatenated cells of all `ok` lines (blocks `…;cells`)"""
        out = []
        for l in lines:
            if not l.startswith('ok') or l in ('ok', 'ok -'):
                continue
            for blk in l[3:].split('|'):
                if prefix and not blk.startswith(prefix):
                    continue
                cells = blk.split(';')[-1]
                if cells != '-':
                    out.extend(cells.split(','))
        return out

    def wellformed(self, c):
        st = c['stage']
        if st == 'acc_time':
            return c['n'] >= 1 and all(o[0] != 'p' or o[2] == 0 for o in c['ops'])
        if st == 'acc_stack':
            return c['n'] >= 1
        if st == 'mc_select':
            if c['nd']:
                return False
            if c['sel'] == 'i':
                return -c['nch'] <= c['v'] < c['nch']
            return c['labels'] is not None and c['v'] in c['labels']
        if st == 'detrend':
            return c['kind'] in ('plain', 'pd3')
        if st == 'rms_band':
            return c['n'] >= 1 and all(o[0] == 'pd' and o[2] == 0 for o in c['ops'])
        if st == 'capture':
            return all(o[0] != 'p' or o[1] == 'pd' for o in c['ops'])
        if st == 'events_to_info':
            return 'events' not in c['sends']
        return True

    def known_behaviour(self, c, out):
        """recorded behaviours of the unchanged library (notes/EXT12.md) — narrow matches"""
        st = c['stage']
        if st == 'average' and not average_is_fixed() and 'err IndexError' in out:
            i = out.index('err IndexError')
            if sum(c['chunks'][:i]) >= c['n'] > sum(c['chunks'][:i - 1]) and all(l in ('ok', 'ok -') for l in out[:i]):
                return 'average-list-index'
        if st == 'detrend' and c['mode'] == 'linear' and 'err ValueError' in out:
            i = out.index('err ValueError')
            if c['chunks'][i - 1] == 0:
                return 'detrend-linear-empty-batch'
        if st == 'events_to_info' and 'err TypeError' in out:
            i = out.index('err TypeError')
            if c['sends'][i - 1] == 'events':
                return 'events_to_info-Events-object-not-iterable'
        if st == 'capture' and self.wellformed(c):
            for cmd, o_at, lo, hi in self._capture_segments(c):
                if cmd is not None and cmd[1] < o_at:
                    return 'capture-late-request-forwards-nothing'
        return None

    @staticmethod
    def _capture_segments(c):
        """the history cut at the chunks at which a queue entry is taken (one `popleft()` per chunk): for each entry
        `(None | (r2, start sample), offset of the chunk at which it is taken, first op index, end op index)`"""
        queue, segs, pos = [], [], 0
        for j, o in enumerate(c['ops']):
            if o[0] == 'q':
                queue.append(o[1])
            else:
                if queue:
                    r2 = queue.pop(0)
                    if segs:
                        segs[-1][3] = j
                    segs.append([None if r2 is None else (r2, round(r2 / 16 * CAPFS)), pos, j, len(c['ops'])])
                pos += o[2]
        return segs

    def oracle(self, c, out):
        if out and out[0].startswith('HARNESS-EXC'):
            return out[0]
        if not self.wellformed(c):
            return None
        st = c['stage']
        if st != 'capture' and self.known_behaviour(c, out):       # capture: the late request is part of the law checked below
            return None
        errs = [l for l in out if l.startswith('err')]
        if errs:
            return f'raised on a legal input: {errs[0]}'
        if any('?' in l or '!' in l for l in out):
            return 'an emitted value / annotation is not the one of the whole-signal definition: ' + \
                next(l for l in out if '?' in l or '!' in l)
        if st == 'delay':
            n_in = sum(c['chunks'])
            want = ['N'] * c['n'] + [f'X{k}' for k in range(n_in)]
            if self._cells(out) != want:
                return f'concatenated output is not {c["n"]} NaNs followed by the input'
        elif st == 'average':
            total = sum(c['chunks'])
            want = [f'A{k * c["n"]}.{(k + 1) * c["n"]}' for k in range(total // c['n'])]
            got = [x for l in out[1:] if l not in ('ok -',) for x in l[3:].split('|')]
            if got != want:
                return f'emitted means {got} are not those of the complete groups of the whole input {want}'
        elif st in ('acc_time', 'acc_stack'):
            n = c['n']
            seg, pos, want_cells, want_groups, ident = [], 0, [], [], 0
            for o in c['ops'] + [['end']]:
                if o[0] in ('r', 'end'):
                    full = len(seg) // n * n if n else 0
                    for g in range(0, full, n):
                        want_groups.append(seg[g:g + n])
                    seg = []
                elif o[0] == 'p':
                    seg.append([f'X{k}' for k in range(pos, pos + o[1])])
                    pos += o[1]
                else:
                    seg.append(str(ident))
                    ident += 1
            if st == 'acc_time':
                want = [x for g in want_groups for blk in g for x in blk]
                if self._cells(out, 'E:') != want:
                    return 'concatenated emissions are not the complete groups of chunks of each segment'
            else:
                got = [b[2:] for l in out[1:] if l.startswith('ok ') for b in l[3:].split('|') if b.startswith('E:')]
                if got != ['+'.join(g) for g in want_groups]:
                    return f'emissions {got} are not the complete groups of {n} blocks'
            if sum(l.count('R') for l in out[1:] if l.startswith('ok ')) != sum(1 for o in c['ops'] if o[0] == 'r'):
                return 'Ellipsis not passed on exactly once'
        elif st == 'mc_select':
            if c['sel'] == 'i':
                r = c['v'] % c['nch']
            else:
                r = c['labels'].index(c['v'])
            want = [f'C{r}.{k}' for k in range(sum(c['chunks']))]
            if self._cells(out) != want:
                return f'concatenated output is not row {r} of the concatenated input'
            if c['ann']:
                pos = 0
                for l, k in zip(out[1:], c['chunks']):
                    f = l[3:].split(';')
                    if f[0] != str(pos) or f[1] != c['chan'][r]:
                        return f'block {l} does not start at {pos} with label {c["chan"][r]}'
                    pos += k
        elif st == 'detrend':
            t = 'E' if c['mode'] == 'none' else 'T'
            if self._cells(out) != [f'{t}{k}' for k in range(sum(c['chunks']))]:
                return 'emitted epochs are not the per-epoch detrend of the whole input, in order'
        elif st == 'rms_band':
            n = c['n']
            total = sum(o[1] for o in c['ops'])
            blocks = [b.split(';') for l in out[1:] if l.startswith('ok ') and l != 'ok -' for b in l[3:].split('|')]
            if self._cells(out) != [f'B{k * n}' for k in range(total // n)]:
                return f'emitted values are not the band values of the {total // n} complete blocks of {n} samples of the whole input'
            k = 0
            for f in blocks:
                if f[0] != str(k):
                    return f'block {";".join(f)} does not start at output sample {k}'
                k += int(f[1])
        elif st == 'capture':
            segs = self._capture_segments(c)
            first = segs[0][2] if segs else len(c['ops'])
            if any(l != 'ok -' for l, o in zip(out[1:first + 1], c['ops'][:first]) if o[0] == 'p'):
                return 'something was forwarded before any request'
            for cmd, o_at, lo, hi in segs:
                seg = [l for l, o in zip(out[1 + lo:1 + hi], c['ops'][lo:hi]) if o[0] == 'p']
                items = [b for l in seg if l != 'ok -' for b in l[3:].split('|')]
                end = o_at + sum(o[2] for o in c['ops'][lo:hi] if o[0] == 'p')
                if cmd is None:
                    want_r, want = 0, []
                else:
                    want_r = 1
                    want = [f'X{k}' for k in range(cmd[1], end)] if cmd[1] >= o_at else []   # late request: nothing (recorded behaviour)
                if items[:want_r] != ['R'] * want_r or 'R' in items[want_r:]:
                    return f'Ellipsis is not passed on exactly once, first, for the request taken at sample {o_at}'
                got, nxt = [], None
                for b in items[want_r:]:
                    f = b.split(';')
                    cells = [] if f[3] == '-' else f[3].split(',')
                    if not cells:
                        return 'an empty block was forwarded'
                    if f[0] != cells[0][1:]:
                        return f'block {b}: s0 is not the position of its first sample'
                    if f[1] != str(cmd[0]):
                        return f'block {b}: metadata["capture"] is not the t0 of the request'
                    got += cells
                if got != want:
                    return f'forwarded samples {got[:4]}… are not the input from sample {cmd and cmd[1]} on (request taken at {o_at})'
        elif st == 'events_to_info':
            calls = [b for l in out[1:] if l.startswith('ok ') and l != 'ok -' for b in l[3:].split('|')]
            if len(calls) != len(c['sends']) or any(l == 'ok -' or '|' in l for l in out[1:]):
                return 'target is not called exactly once per block of events'
            for cl, sd in zip(calls, c['sends']):
                want = [f'I{t}' for e, t in sd if e == c['edge']]
                got = [] if cl == 'L:-' else cl[2:].split(',')
                if got != want:
                    return f'infos {got} are not one per {EDGES[c["edge"]]} event, in order, with its time stamp {want}'
        elif st == 'broadcast':
            for j in range(c['k']):
                got = [b.split(':')[1] for l in out[1:] if l.startswith('ok ') for b in l[3:].split('|') if b.split(':')[0] == str(j)]
                if got != [str(i) for i in range(c['m'])]:
                    return f'target {j} did not receive the stream'
        return None


SPEC = Ext()


def run(tier, seed):
    t0 = time.time()
    spec = SPEC
    infra = []
    ok, log, _ = C.lake_build(spec.PROOF_MODULES + ['psidriver'])
    if not ok:
        print('INFRA: lake build failed: ' + ' | '.join([l for l in log.split('\n') if 'error' in l.lower()][:4]))
        return 2
    hits = [h for h in C.grep_forbidden() if 'StagesExt' in h or 'C12Ext' in h]
    if hits:
        infra.append('forbidden constructs: ' + '; '.join(hits[:5]))
    entries = C.registry('EXT12')
    axioms, _ = C.print_axioms(entries)
    discharged = 0
    for _, t in entries:
        ax = axioms.get(t)
        if ax is None:
            infra.append(f'theorem missing: {t}')
        elif not set(ax) <= C.ACCEPTED_AXIOMS:
            infra.append(f'{t} depends on unaccepted axioms {ax}')
        else:
            discharged += 1
    if tier == 'thorough':
        okc, outc = C.leanchecker(spec.PROOF_MODULES)
        if not okc:
            infra.append('leanchecker rejected: ' + outc[-300:])

    rng = C.Rng(seed)
    cases = list(spec.cases(rng, tier))
    lines, spans = [], []
    for c in cases:
        ml = spec.model_lines(c)
        spans.append((len(lines) + 1, len(ml)))
        lines.append('reset')
        lines.extend(ml)
    mout_all = C.Driver(spec.MODEL).run(lines)
    bad = None
    known, hist = {}, {}
    for c, (s, n) in zip(cases, spans):
        hist[c['stage']] = hist.get(c['stage'], 0) + 1
        iout = spec.safe_impl(c)
        mout = mout_all[s:s + n]
        try:
            f = spec.oracle(c, iout)
        except Exception as e:
            f = f'oracle raised {type(e).__name__}: {e}'
        k = spec.known_behaviour(c, iout)
        if k:
            known.setdefault(k, c)
        if bad is None and (f is not None or mout != iout):
            j = next((j for j, (a, b) in enumerate(zip(mout, iout)) if a != b), None)
            bad = (c, f, {'line': j, 'op': spec.model_lines(c)[j] if j is not None else None,
                          'model': mout[j] if j is not None else None, 'impl': iout[j] if j is not None else None},
                   mout, iout)
    for k, c in sorted(known.items()):
        print(f'EXT-KNOWN stage={c["stage"]} {k}: recorded behaviour of the unchanged library met (notes/EXT12.md), '
              f'e.g. {json.dumps(c, sort_keys=True)[:160]}')
    for i in infra:
        print('INFRA:', i)
    rc = 0
    if bad is not None:
        c, f, diff, mout, iout = bad
        path = C.write_replay('EXT12', {'property': 'EXT12', 'kind': 'failing-input', 'case': c, 'failure': f,
                                        'model_vs_impl': diff, 'model': mout, 'impl': iout, 'seed': seed, 'tier': tier})
        print(f'EXT-MISMATCH stage={c["stage"]} replay={path}')
        rc = 1
    elif infra:
        rc = 2
    print(f'EXT12 {tier} seed={seed}: theorems {discharged}/{len(entries)}, cases {len(cases)} '
          f'({", ".join(f"{k} {v}" for k, v in sorted(hist.items()))}), average={"repaired" if average_is_fixed() else "as-is"}, '
          f'exit {rc}, {time.time() - t0:.1f}s')
    return rc


def replay(path):
    obj = json.load(open(path if os.path.isabs(path) else os.path.join(C.VERIF, path)))
    c = obj['case']
    ml = SPEC.model_lines(c)
    mout = C.Driver(SPEC.MODEL).run(['reset'] + ml)[1:]
    iout = SPEC.safe_impl(c)
    print('case  :', json.dumps(c, sort_keys=True))
    for i, l in enumerate(ml):
        print(f'  op {l}\n    model: {mout[i] if i < len(mout) else None}\n    impl : {iout[i] if i < len(iout) else None}')
    f = SPEC.oracle(c, iout)
    print('oracle:', 'whole-signal law holds on this input' if f is None else f'FAILS: {f}')
    return 0 if (f is None and mout == iout) else 1


def main():
    ap = argparse.ArgumentParser()
    ap.add_argument('--tier', default='quick', choices=['quick', 'thorough'])
    ap.add_argument('--replay')
    a = ap.parse_args()
    if a.replay:
        return replay(a.replay)
    return run(a.tier, C.seed_from_env())


if __name__ == '__main__':
    try:
        rc = main()
    except SystemExit:
        raise
    except BaseException:
        import traceback
        traceback.print_exc()
        rc = 2
    sys.exit(rc)
