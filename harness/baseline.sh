#!/bin/sh
# baseline.sh [repo dir]: run the pinned suite, print pass count (expect 192 passed, 3 collection errors)
d="${1:-/repo}"
cd "$d" && PYTHONPATH="$d" /venv/bin/python -m pytest -q -p no:cacheprovider --timeout=900 --continue-on-collection-errors -n 8 2>&1 | tail -3
