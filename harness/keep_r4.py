"""keep_r4.py <ID> "<what was run / result>": file the confirmed round-4 change of a property under seeded/<ID>-r4-1/"""
import json, os, shutil, sys
pid, ran = sys.argv[1], sys.argv[2]
src = f'/verif/seeded_incoming/r4_{pid}'
dst = f'/verif/seeded/{pid}-r4-1'
os.makedirs(dst, exist_ok=True)
shutil.copy(f'{src}/patch_1.diff', f'{dst}/patch.diff')
shutil.copy(f'{src}/demo_1.py', f'{dst}/demo.py')
meta = json.load(open(f'{src}/meta_1.json'))
meta['round'] = 4
meta['confirmed'] = ('harness/confirm_seed.sh: demo PASS on /repo HEAD, FAIL with patch in a scratch worktree; '
                     'pinned suite 192 passed with the patch')
meta['checks_run'] = ran
json.dump(meta, open(f'{dst}/meta.json', 'w'), indent=1)
print(dst)
