"""keep_seed.py <ID> <k> "<what was run / result>": file a confirmed seeded change under /verif/seeded/<ID>-<k>/"""
import json, os, shutil, sys
pid, k, ran = sys.argv[1], sys.argv[2], sys.argv[3]
src = f'/verif/seeded_incoming/{pid}'
dst = f'/verif/seeded/{pid}-{k}'
os.makedirs(dst, exist_ok=True)
shutil.copy(f'{src}/patch_{k}.diff', f'{dst}/patch.diff')
shutil.copy(f'{src}/demo_{k}.py', f'{dst}/demo.py')
meta = json.load(open(f'{src}/meta_{k}.json'))
meta['confirmed'] = ('harness/confirm_seed.sh: demo PASS on /repo HEAD, FAIL with patch in a scratch worktree; '
                     'pinned suite 192 passed with the patch')
meta['checks_run'] = ran
json.dump(meta, open(f'{dst}/meta.json', 'w'), indent=1)
print(dst)
