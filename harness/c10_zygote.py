"""Reference evaluator for C10: a brand-new interpreter that has imported psiaudio and NEVER built a
generator or queue.  Every request is evaluated in a forked child of that pristine state, so a reference
stream cannot be influenced by anything the history under test did (module/class-level caches included).

Protocol (stdin/stdout, binary): 4-byte little-endian length + pickle((kind, case, v[, cpu seconds])) ->
4-byte length + pickle(('ok', value) | ('err', text)).  Kinds (see c10._ref_eval): 'g' / 'q' the packed chunks of
one pristine generator / queue of lineage v (one per draw / pop: the references of all prefixes), 'k' / 'K' the
value of one / several stimulus-function calls, 'h' the history under test itself (so that nothing an earlier
case did in the checking process can influence it, and every replay is self-contained).
"""
import pickle
import struct
import sys


def main():
    from harness import c10
    c10.leash()     # die with the check that started us (also set by the parent before exec), as do our children
    c10._stim()
    import psiaudio.queue  # noqa: F401
    inp, out = sys.stdin.buffer, sys.stdout.buffer
    while True:
        hdr = inp.read(4)
        if len(hdr) < 4:
            return
        (n,) = struct.unpack('<I', hdr)
        kind, case, v, cpu = (tuple(pickle.loads(inp.read(n))) + (None,))[:4]
        try:
            val = ('ok', c10.in_child(c10._ref_eval, kind, case, v, cpu=cpu))
        except Exception as e:  # noqa
            val = ('err', f'{type(e).__name__}: {e}')
        data = pickle.dumps(val)
        out.write(struct.pack('<I', len(data)) + data)
        out.flush()


if __name__ == '__main__':
    main()
