"""C05 — epoch extraction returns exactly the requested samples, once, for any chunking.

Real code: psiaudio.pipeline.extract_epochs (+ capture_epoch).  Model: lean/PsiModel/Extract.lean.

A case is a whole history: a stream of N samples (value = absolute index, 2nd channel = its
negation) cut into chunks, requests made visible just before a chosen `send`, removals made
visible just before a chosen `send`, `source_complete` None or an Event set before a chosen
`send`.  The harness converts seconds to samples with the very expressions of
pipeline.py 815-817 (same operand order) and hands integers to the model.
"""
import copy
import itertools
from collections import deque
from threading import Event

import numpy as np

from .framework import Spec

FS_LIST = [1000.0, 25000.0, 44100.0, 48828.125, 97656.25, 195312.5, 32768.0, 65536.0]   # the last two: exact .5 ties


# ---------------------------------------------------------------------------
# seconds -> samples, exactly as extract_epochs writes it
# ---------------------------------------------------------------------------
def conv(case, req):
    fs, pre, post = case['fs'], case['pre'], case['post']
    epoch_size = case['epoch_size']
    size = epoch_size if epoch_size else req['dur']
    total_epoch_size = size + post + pre
    epoch_samples = round(total_epoch_size * fs)
    t0 = round((req['t0'] - pre) * fs)
    # `skip`: the stream is preceded by one chunk of `skip` samples (>= 2^31) that the model does not see;
    # all positions handed to the model / printed / used by the oracle are relative to its end
    return t0 - case.get('skip', 0), epoch_samples


def buffer_samples(case):
    return round(case['buffer'] * case['fs'])


def key_ids(case):
    """(t0, key) -> small integer (index of the first request carrying that pair; removals naming no
    request get the numbers after the requests)."""
    ids = {}
    for i, r in enumerate(case['reqs']):
        ids.setdefault((r['t0'], r.get('key')), i)
    for i, g in enumerate(case.get('ghosts') or []):
        ids.setdefault((g['t0'], g.get('key')), len(case['reqs']) + i)
    return ids


def bounds_of(parts):
    out, t = [0], 0
    for p in parts:
        t += p
        out.append(t)
    return out


def oldest_all(parts, B):
    """oldest_start(parts, B, j) for every j, in one pass (the prune pointer only moves forward)."""
    b = bounds_of(parts)
    out, i = [0], 0
    for j in range(1, len(parts)):
        # state after call j-1: tlb = b[j]; chunks i.. are kept while not (end < tlb - B)
        while i < j - 1 and b[i + 1] < b[j] - B:
            i += 1
        # the prune loop never removes the chunk just appended unless B < 0
        out.append(b[i] if not (b[i + 1] < b[j] - B) else b[j])
    return out


def last_admissible_fast(oldest, s):
    j = 0
    while j + 1 < len(oldest) and oldest[j + 1] <= s:
        j += 1
    return j


def as_repr(x, how):
    """The same number in another representation."""
    if x is None or how in (None, 'float'):
        return x
    if how == 'np64':
        return np.float64(x)
    if how == 'int':
        return int(x) if float(x).is_integer() else x
    if how == 'npint':
        return np.int64(x) if float(x).is_integer() else x
    raise ValueError(how)


def oldest_start(parts, B, j):
    """Start of the oldest chunk in prior_samples during call j (prune rule of lines 852-858)."""
    bounds = np.concatenate([[0], np.cumsum(parts)]).tolist()
    if j == 0:
        return 0
    tlb = bounds[j]                     # samples acquired before call j
    for i in range(j):
        if not (bounds[i + 1] < tlb - B):
            return bounds[i]
    return bounds[j]


def last_admissible(parts, B, s):
    j = 0
    while j + 1 < len(parts) and oldest_start(parts, B, j + 1) <= s:
        j += 1
    return j


def arrival(r):
    """Index of the call whose intake loop finds the request in `queue`: the call before which the caller
    appended it, or - for a request posted by the consumer during call j - the next one."""
    return r['j'] + 1 if r.get('late') else r['j']


def completion_call(parts, j, s, n):
    """Index of the call in which a request (s, n) taken in at call j gets its last sample
    (None if the stream ends first)."""
    bounds = np.cumsum(parts).tolist()
    for c in range(j, len(parts)):
        if bounds[c] >= s + n:
            return c
    return None


def last_sample_call(parts, s, n):
    """Index of the call whose chunk brings sample s+n-1 (or touches s when n = 0)."""
    bounds = np.cumsum(parts).tolist()
    for c in range(len(parts)):
        if bounds[c] >= s + n:
            return c
    return None


def rle(vals):
    out = []
    for v in vals:
        if out and out[-1][0] + out[-1][1] == v:
            out[-1][1] += 1
        else:
            out.append([v, 1])
    return '/'.join(f'{a}+{n}' for a, n in out)


class C05(Spec):
    PROP = 'C05'
    MODEL = 'extract'
    PROOF_MODULES = ['PsiProofs.C05']
    DESIGN_REF = 'DESIGN.md §6 C05'
    TRUST = [
        'modelled, not verified: NumPy basic slicing / np.concatenate and PipelineData slicing/concat put the '
        'selected columns in order (the correspondence check compares the content of every delivered epoch)',
        'the harness evaluates round((t0 - prestim)*fs) and round((size + poststim + prestim)*fs) with the '
        "code's own expressions and feeds the integers to the model; Python round() itself is not modelled here (see C06)",
        'queue / removed_queue / source_complete are only changed between two send() calls or, for queue, by the target '
        'callback while it is handed a batch (re-entrant append, model: Call.late); appends by another thread are covered '
        'by the model and its theorems only (any test of them would depend on timing)',
    ]
    ASSUMPTIONS = [
        'request keys (t0, key) are pairwise distinct; one epoch length per extractor; epoch length >= 0',
        'a removal notification is never made visible in an earlier call than the request it removes',
        'buffer_size >= 0; without empty_queue_cb nothing is demanded about the all-done notification',
        'the caller does not overwrite a chunk after sending it, nor the nested metadata dict of a request still pending '
        '(the extractor keeps references to both; see notes/C05.md, hardening)',
    ]
    RULE = ('random: stream of 30-3000 samples, random partition (parts 0..N), 0-10 requests each made visible at a '
            'chunk index drawn among all admissible ones (bias to the last admissible), overlapping / back-to-back / '
            'same-chunk, removals at every relative position, prestim/poststim on/off grid, buffer 0/small/large, '
            'source_complete None / Event set before a random call, 1-D / 2-D / annotated input. boundary: one or two '
            'requests with chunk edges at every offset -2..+2 around epoch start and end, every admissible arrival call '
            'and every removal call. malformed: late (missed) requests, duplicate keys, removal before its request, mixed '
            'epoch lengths. late: in a third of the random / variant / beyond-2^31 histories and in a boundary family the '
            'consumer (target) appends 1-3 further requests to the queue while it is handed a batch - in a call where an epoch '
            'is due (requests chain) or anywhere (then nothing is posted), the new epoch back-to-back with the one handed over, '
            'starting with the next chunk, inside the look-back window, or further ahead, sometimes withdrawn again, sometimes '
            'posted during the last call (it stays in the queue); chunk edges -2..+2 around the hand-over, source_complete None / '
            'set before every call around it; demanded: every such request delivered exactly once with its samples, the callback '
            'not before the queue is empty and every epoch handed over, nothing requested before the callback delivered after it. '
            'variant: a random history told differently - fs / times / sizes as int, NumPy scalars; stream dtype '
            'float32/int16/int32/int64/uint16, strided or Fortran-ordered memory, 1-4 channels; arguments positional / only the '
            'non-default ones; no callback, no removed_queue; extra info entries, no metadata entry, per-request metadata keys '
            '(must not show up on another request\'s epoch); the consumer overwrites every delivered batch, the caller clears '
            'every info dict after the call that consumed it; removals naming no request (same t0 other key, same key one sample '
            'later); a second extractor with other buffer/prestim/poststim/size on the very same info dicts and chunk objects; '
            'the chunks (data, metadata, channel labels) must come back unmodified. beyond-2^31: the same after one leading chunk '
            'of 2^31..2^40 samples (no memory behind it; the model sees positions relative to its end). scale: 2^16..2^20 samples '
            'in chunks mixing 1 sample and 2^15..2^18, about 1000 requests or epochs of 2^15..2^16 samples. capture: capture_epoch '
            'used on its own, first sample as int/float/NumPy scalar. '
            'A case is non-trivial when at least one epoch is delivered or removed; distinct = distinct case dict.')
    exhaustive_note = {
        'quick': '',
        'thorough': 'every composition of a 6-sample stream x every request (s, len) inside it x every admissible arrival '
                    'call x every removal call (or none) x buffer 0/1/2/large; and x every second request (same length, start '
                    'inside the look-back window of the next call .. end of stream) posted by the consumer on receipt of the '
                    'first x source_complete None / set from the start / set after the hand-over x buffer 0/large',
    }
    PARALLEL = 16

    # ------------------------------------------------------------------ cases
    def _mk(self, kind, fs, N, nd, parts, epoch_size, pre, post, buffer, reqs, rems, sc):
        return {'kind': kind, 'fs': fs, 'N': N, 'nd': nd, 'parts': parts, 'epoch_size': epoch_size,
                'pre': pre, 'post': post, 'buffer': buffer, 'reqs': reqs, 'rems': rems, 'sc': sc}

    def _partition(self, rng, N):
        mode = rng.random()
        if mode < 0.15:
            parts = [N]
        elif mode < 0.5:
            parts = rng.chunks(N, max_parts=min(N, 12))
        elif mode < 0.8:
            parts, left = [], N
            while left > 0:
                n = min(left, rng.choice([1, 1, 2, 3, 5, 8, 13, 21, 50, 200]))
                parts.append(n)
                left -= n
        else:
            parts = rng.chunks(N, max_parts=min(N, 40))
        if rng.random() < 0.2:                     # a few empty chunks
            for _ in range(rng.randint(1, 3)):
                parts.insert(rng.randint(0, len(parts)), 0)
        return parts

    def _random_case(self, rng, big, skip=0, late=False):
        fs = rng.choice(FS_LIST) if rng.random() < 0.8 else rng.uniform(8000, 400000)
        N = rng.randint(30, 3000 if big else 400)
        nd = rng.choice(['1d', '2d', 'pd1', 'pd2'])
        parts = self._partition(rng, N)
        L = rng.choice([0, 1, 2, 5, 10, 40, 100]) if rng.random() < 0.8 else rng.randint(1, max(1, N // 3))
        size_off = rng.choice([0, 0, 0.25, -0.25, 0.49, 0.5])
        epoch_size = (L + size_off) / fs if L > 0 else 0.2 / fs
        pre_s = rng.choice([0, 0, 3, 1.5, 2.25, 7.3, 2.5, 2, -2, -1.5])
        post_s = rng.choice([0, 0, 2, 0.4, 2, 3, -1, 0.5])
        if L + pre_s + post_s < 1:                 # negative prestim / poststim only while the epoch keeps a length >= 0
            pre_s = post_s = 0
        pre = pre_s / fs if pre_s else 0
        post = post_s / fs if post_s else 0
        use_dur = rng.random() < 0.15
        bmode = rng.random()
        if bmode < 0.35:
            buffer = 0
        elif bmode < 0.75:
            buffer = rng.choice([1, 2, 5, 20, 50.5, 100]) / fs
        else:
            buffer = (N + 10) / fs
        # `epoch_size if epoch_size else info['duration']`: None, 0 and 0.0 all mean "per-request duration"
        case = self._mk('random', fs, N, nd, parts, rng.choice([None, None, 0, 0.0]) if use_dur else epoch_size,
                        pre, post, buffer, [], [], None)
        if skip:
            case['skip'] = skip
        B = buffer_samples(case)
        nreq = rng.choice([0, 1, 1, 2, 3, 4, 6, 10])
        reqs, rems = [], []
        anchor = None
        for r in range(nreq):
            style = rng.random()
            frac = rng.choice([0, 0, 0.25, -0.25, 0.5, 0.3])
            req = {'mid': 100 + r}
            if rng.random() < 0.85:
                req['key'] = r
            if use_dur:
                req['dur'] = epoch_size
            if anchor is not None and style < 0.25:        # back-to-back with a previous one
                target = anchor[0] + anchor[1]
            elif anchor is not None and style < 0.45:      # overlapping a previous one
                target = anchor[0] + rng.randint(0, max(0, anchor[1]))
            elif style < 0.55:                             # on a chunk boundary
                target = rng.choice(np.cumsum([0] + parts).tolist())
            else:
                target = rng.randint(0, N)
            req['t0'] = (skip + target + frac) / fs + pre
            s, n = conv(case, req)
            if s < 0:
                continue
            if s + n > N and rng.random() < 0.85:
                continue
            if any(q['t0'] == req['t0'] and q.get('key') == req.get('key') for q in reqs):
                continue
            jmax = last_admissible(parts, B, s)
            req['j'] = jmax if rng.random() < 0.3 else rng.randint(0, jmax)
            anchor = (s, n)
            reqs.append(req)
        for ri, req in enumerate(reqs):
            if rng.random() < 0.35:
                s, n = conv(case, req)
                c = completion_call(parts, req['j'], s, n)
                hi = len(parts) - 1
                where = rng.random()
                if where < 0.2:
                    j = req['j']
                elif where < 0.45 and c is not None:
                    j = c
                elif where < 0.6 and c is not None:
                    j = min(hi, c + 1)
                else:
                    j = rng.randint(req['j'], hi)
                rems.append({'r': ri, 'j': j})
                if rng.random() < 0.15:
                    rems.append({'r': ri, 'j': rng.randint(j, hi)})
        case['reqs'], case['rems'] = reqs, rems
        if rng.random() < 0.5 or skip:
            case['sc'] = rng.randint(0, len(parts))
        if late:
            self._add_late(rng, case)
        return case

    # -- requests posted by the consumer while it is handed a batch ------------------------------------------------
    def _add_late(self, rng, case, count=None):
        """A consumer that schedules further epochs on receipt of one: requests that `target` appends to `queue`
        during call j (flag `late`).  j is drawn among the calls in which an epoch is due (the completion calls of the
        requests made so far - so that requests chain), sometimes anywhere (nothing is posted when nothing is handed over);
        the new epoch lies ahead of the data, inside the look-back window of call j + 1, or is back-to-back with the
        one just delivered."""
        parts, N, fs = case['parts'], case['N'], case['fs']
        if len(parts) < 2 or case['kind'] == 'capture':
            return case
        B = buffer_samples(case)
        skip = case.get('skip', 0)
        bounds = bounds_of(parts)
        removed = {rm['r'] for rm in case['rems']}
        due = []                                    # (call, end sample) of the deliveries expected so far
        for i, r in enumerate(case['reqs']):
            s, n = conv(case, r)
            c = completion_call(parts, arrival(r), s, n) if arrival(r) < len(parts) else None
            if c is not None and i not in removed:
                due.append((c, s + n))
        taken = {(r['t0'], r.get('key')) for r in case['reqs']}
        nreq = len(case['reqs'])
        for k in range(count if count is not None else rng.choice([1, 1, 2, 3])):
            if due and rng.random() < 0.85:
                j, end = rng.choice(due)
            else:
                j, end = rng.randint(0, len(parts) - 1), None
            lo = oldest_start(parts, B, j + 1) if j + 1 < len(parts) else bounds[-1]
            style = rng.random()
            if end is not None and style < 0.3:
                target = end                                    # back-to-back with the epoch just handed over
            elif style < 0.5:
                target = bounds[j + 1]                          # starts with the next chunk
            elif style < 0.7:
                target = rng.randint(lo, max(lo, bounds[j + 1]))     # already in the look-back buffer
            else:
                target = rng.randint(bounds[j + 1], max(bounds[j + 1], N))
            req = {'mid': 100 + nreq + k, 'key': f'c{k}', 'late': True, 'j': j}
            if any('dur' in r for r in case['reqs']) or not case['epoch_size']:
                req['dur'] = next((r['dur'] for r in case['reqs'] if 'dur' in r), 5 / fs)
            req['t0'] = (skip + target + rng.choice([0, 0, 0.25, -0.25])) / fs + case['pre']
            s, n = conv(case, req)
            if s < lo or (s + n > N and rng.random() < 0.8) or (req['t0'], req['key']) in taken:
                continue
            taken.add((req['t0'], req['key']))
            case['reqs'].append(req)
            if j + 1 < len(parts):
                c = completion_call(parts, j + 1, s, n)
                if c is not None:
                    if rng.random() < 0.15:                     # ... and withdrawn again
                        # (in the very call that would take it in, or later)
                        rj = j + 1 if rng.random() < 0.4 else rng.randint(j + 1, len(parts) - 1)
                        case['rems'].append({'r': len(case['reqs']) - 1, 'j': rj})
                    else:
                        due.append((c, s + n))
        return case

    # -- hardening: other spellings of the same history, caller-side aliasing, several consumers ------------------
    def _decorate(self, rng, case):
        """Same history, told differently: other representations of the same numbers and arrays, other argument
        spellings, options at non-default values, a caller that overwrites what it got and what it had passed,
        removals naming nothing, a second extractor on the same dict and chunk objects."""
        fs, N = case['fs'], case['N']
        rep = {}
        if rng.random() < 0.4:
            rep['fs_as'] = rng.choice(['np64', 'int', 'npint'])
        if rng.random() < 0.3:
            rep['num_as'] = 'np64'
        if rng.random() < 0.3:
            rep['t0_req_as'] = 'np64'
        if rng.random() < 0.3:
            rep['t0_rem_as'] = 'np64'
        if rng.random() < 0.4:
            rep['args'] = rng.choice(['pos', 'min'])
        if rng.random() < 0.5:
            rep['dtype'] = rng.choice(['f4', 'i2', 'i4', 'i8', 'u2'])
            if rep['dtype'] == 'u2' and case['nd'] in ('2d', 'pd2'):
                rep['nch'] = 1                       # no negated second row in an unsigned type
        if rng.random() < 0.3:
            rep['layout'] = rng.choice(['strided', 'fortran'])
        if case['nd'] in ('2d', 'pd2') and 'nch' not in rep and rng.random() < 0.4:
            rep['nch'] = rng.choice([1, 3, 4])
        if rng.random() < 0.15:
            rep['no_cb'] = True
        if rng.random() < 0.3:
            rep['no_rq'] = True                      # only takes effect when nothing is ever removed
        if rng.random() < 0.3:
            rep['extra_info'] = True
        if rng.random() < 0.5:
            rep['md_extra'] = True
        for r in case['reqs']:
            if rng.random() < 0.1:
                r['nomd'] = True
        case['rep'] = rep
        case['kind'] = 'variant'
        if rng.random() < 0.35:
            case['clobber'] = True
        if rng.random() < 0.35:
            case['mut_info'] = True
        # removals naming no request: same t0 with another key, same key one sample later, nothing at all
        if rng.random() < 0.3:
            ghosts = []
            taken = {(r['t0'], r.get('key')) for r in case['reqs']}
            for g in range(rng.randint(1, 3)):
                if case['reqs'] and rng.random() < 0.8:
                    r = rng.choice(case['reqs'])
                    if rng.random() < 0.5:
                        cand = {'t0': r['t0'], 'key': f'other{g}'}
                    else:
                        cand = {'t0': r['t0'] + 1 / fs}
                        if 'key' in r:
                            cand['key'] = r['key']
                else:
                    cand = {'t0': rng.randint(0, N) / fs, 'key': f'nobody{g}'}
                if (cand['t0'], cand.get('key')) in taken:
                    continue
                taken.add((cand['t0'], cand.get('key')))
                cand['j'] = rng.randint(0, len(case['parts']) - 1)
                ghosts.append(cand)
            case['ghosts'] = ghosts
        # a second extractor differing in one or more parameters; every request stays inside its look-back window when
        # its buffer is not smaller and its prestim not larger (its epochs start no earlier)
        if rng.random() < 0.35:
            tw = {}
            what = rng.choice(['buffer', 'post', 'pre', 'size', 'all'])
            if what in ('buffer', 'all'):
                tw['buffer'] = case['buffer'] + rng.choice([1, 7, 50]) / fs
            if what in ('post', 'all'):
                tw['post'] = case['post'] + rng.choice([1, 2, 5]) / fs
            if what in ('pre', 'all') and case['pre'] > 0:
                tw['pre'] = rng.choice([0, case['pre'] / 2])
            if what in ('size', 'all') and case['epoch_size']:
                tw['epoch_size'] = case['epoch_size'] + rng.choice([1, 3, 10]) / fs
            if tw and all(conv(dict(case, **tw), r)[0] >= conv(case, r)[0] and conv(dict(case, **tw), r)[1] >= 0
                          for r in case['reqs']):
                case['twin'] = tw
        return case

    def _decorate_light(self, rng, case):
        kind = case['kind']
        if rng.random() < 0.5:
            self._decorate(rng, case)
            if case['rep'].get('dtype') != 'i8':
                case['rep'].pop('dtype', None)       # 2^31 and beyond needs float64 / int64 values
            case['kind'] = kind
        return case

    def _scale_case(self, rng, variant, quick):
        """Far beyond the usual sizes: 2^16..2^20 samples in chunks mixing one sample and 2^15+, about a thousand
        requests (variant 'many') or a few epochs of 2^15..2^16 samples (variant 'long')."""
        fs = rng.choice(FS_LIST)
        if variant == 'many':
            N = rng.randint(2 ** 16, 2 ** 17 if quick else 2 ** 19)
            sizes = [1, 1, 2, 7, 100, 5000, 2 ** 15, 2 ** 16]
            L = rng.choice([1, 5, 16])
            nreq = rng.randint(800, 1200)
        else:
            N = rng.randint(2 ** 18, 2 ** 20)
            sizes = [1, 3, 1000, 2 ** 16, 2 ** 18]
            L = rng.randint(2 ** 15, 2 ** 16)
            nreq = rng.randint(2, 6)
        parts, left = [], N
        while left > 0:
            n = min(left, rng.choice(sizes) if len(parts) < 300 else 2 ** 16)
            parts.append(n)
            left -= n
        rng.shuffle(parts)
        nd = rng.choice(['1d', '2d', 'pd1', 'pd2'])
        buffer = rng.choice([0, 100 / fs, (L + 10) / fs])
        case = self._mk('scale', fs, N, nd, parts, L / fs, 0, 0, buffer, [], [], rng.choice([None, len(parts) - 1]))
        oldest = oldest_all(parts, buffer_samples(case))
        reqs, rems, seen = [], [], set()
        prev = None
        for r in range(nreq):
            if prev is not None and rng.random() < 0.3:
                target = prev + rng.choice([L, L // 2, 1])          # back-to-back / overlapping
            else:
                target = rng.randint(0, N - L)
            req = {'mid': 100 + r, 'key': r % 7, 't0': target / fs}
            s, n = conv(case, req)
            if s < 0 or s + n > N or (req['t0'], req['key']) in seen:
                continue
            seen.add((req['t0'], req['key']))
            jmax = last_admissible_fast(oldest, s)
            req['j'] = jmax if rng.random() < 0.5 else rng.randint(0, jmax)
            prev = s
            reqs.append(req)
            if rng.random() < 0.1:
                rems.append({'r': len(reqs) - 1, 'j': rng.randint(req['j'], len(parts) - 1)})
        case['reqs'], case['rems'] = reqs, rems
        return case

    def _capture_case(self, rng):
        """capture_epoch on its own (the public single-epoch form): first sample given as int / float / NumPy scalar."""
        fs = 1000.0
        N = rng.randint(10, 200)
        parts = [p for p in self._partition(rng, N)]
        L = rng.choice([0, 1, 2, 5, 17, 40])
        s = rng.choice([0, rng.randint(0, N), rng.choice(bounds_of(parts)), max(0, rng.choice(bounds_of(parts)) - 1)])
        nd = rng.choice(['1d', '2d', 'pd1', 'pd2'])
        req = {'t0': s / fs, 'key': 0, 'mid': 100, 'j': 0}
        if L == 0:
            esz, req['dur'] = None, 0.0
        else:
            esz = L / fs
        if rng.random() < 0.2:
            req['nomd'] = True
        # the coroutine ends with the epoch: the history stops at the call that completes it
        c = completion_call(parts, 0, s, L)
        if c is not None:
            parts = parts[:c + 1]
        case = self._mk('capture', fs, sum(parts), nd, parts, esz, 0, 0, 0, [req], [], len(parts))
        case['rep'] = {'s_as': rng.choice(['int', 'float', 'np', 'npf']), 'args': rng.choice(['kw', 'pos']),
                       'fs_as': rng.choice(['float', 'int', 'np64']), 'md_extra': rng.random() < 0.5,
                       'dtype': rng.choice(['f8', 'f8', 'f4', 'i2'])}
        return case

    def _boundary_cases(self, rng, tier):
        fs = 1000.0
        N, s, L = 30, 11, 6
        deltas = range(-2, 3)
        step = 1
        count = 0
        for d0, d1 in itertools.product(deltas, deltas):
            cuts = sorted({s + d0, s + L + d1, 20, 25})
            cuts = [c for c in cuts if 0 < c < N]
            pts = [0] + cuts + [N]
            parts = [b - a for a, b in zip(pts, pts[1:])]
            for B in (0, 3, 100):
                jmax = last_admissible(parts, B, s)
                for j in range(0, jmax + 1):
                    remcalls = [None] + list(range(j, len(parts)))
                    for rj in remcalls:
                        count += 1
                        if count % step:
                            continue
                        nd = ['1d', '2d', 'pd1', 'pd2'][count % 4]
                        reqs = [{'t0': s / fs, 'key': 0, 'mid': 100, 'j': j}]
                        # a second, back-to-back request sharing chunks with the first
                        s2 = s + L
                        j2 = min(last_admissible(parts, B, s2), j + (count % 3))
                        reqs.append({'t0': s2 / fs, 'key': 1, 'mid': 101, 'j': j2})
                        rems = [] if rj is None else [{'r': 0, 'j': rj}]
                        sc = None if count % 2 else (count // 2) % (len(parts) + 1)
                        yield self._mk('boundary', fs, N, nd, parts, L / fs, 0, 0, B / fs, reqs, rems, sc)
        # the consumer posts a second request when it is handed the first epoch: chunk edges around the first epoch's
        # end (= the call of the hand-over), the second epoch back-to-back / on a later edge / inside the look-back /
        # reaching into the last chunk; source_complete None or set before each call around the hand-over
        count = 0
        for d1 in deltas:
            cuts = sorted({s, s + L + d1, 20, 25})
            pts = [0] + cuts + [N]
            parts = [b - a for a, b in zip(pts, pts[1:])]
            c0 = completion_call(parts, 0, s, L)
            for B in (0, 3, 100):
                lo = oldest_start(parts, B, c0 + 1)
                for s2 in sorted({s + L, s + L + d1, s + L + d1 + 1, 20, 22, 24, lo, s + 2}):
                    if s2 < lo or s2 + L > N:
                        continue
                    c2 = completion_call(parts, c0 + 1, s2, L)
                    for sc in (None, 0, c0, c0 + 1, c2, len(parts)):
                        count += 1
                        nd = ['1d', '2d', 'pd1', 'pd2'][count % 4]
                        reqs = [{'t0': s / fs, 'key': 0, 'mid': 100, 'j': 0},
                                {'t0': s2 / fs, 'key': 1, 'mid': 101, 'j': c0, 'late': True}]
                        rems = []
                        if count % 5 == 0:
                            rems = [{'r': 1, 'j': [c0 + 1, c2, len(parts) - 1][count % 3]}]
                        yield self._mk('boundary', fs, N, nd, parts, L / fs, 0, 0, B / fs, reqs, rems, sc)
                # ... a third one on receipt of the second, and one posted during the last call (it stays in the queue)
                reqs = [{'t0': s / fs, 'key': 0, 'mid': 100, 'j': 0},
                        {'t0': (s + L) / fs, 'key': 1, 'mid': 101, 'j': c0, 'late': True}]
                c2 = completion_call(parts, c0 + 1, s + L, L)
                reqs.append({'t0': (s + 2 * L) / fs, 'key': 2, 'mid': 102, 'j': c2, 'late': True})
                c3 = completion_call(parts, c2 + 1, s + 2 * L, L) if c2 + 1 < len(parts) else None
                if c3 is not None:
                    reqs.append({'t0': N / fs, 'key': 3, 'mid': 103, 'j': c3, 'late': True})
                for sc in (None, 0, len(parts) - 1):
                    count += 1
                    yield self._mk('boundary', fs, N, ['1d', '2d', 'pd1', 'pd2'][count % 4], parts, L / fs, 0, 0,
                                   B / fs, [dict(r) for r in reqs], [], sc)
        # prestim / poststim boundary: epoch [s - p, s + L + q)
        for p, q in itertools.product([0, 1, 2.5], [0, 1, 0.5]):
            for d0 in deltas:
                cuts = sorted({c for c in (round(s - p) + d0, s + L + round(q) + d0) if 0 < c < N})
                pts = [0] + cuts + [N]
                parts = [b - a for a, b in zip(pts, pts[1:])]
                reqs = [{'t0': s / fs, 'key': 7, 'mid': 107, 'j': 0}]
                yield self._mk('boundary', fs, N, 'pd2', parts, L / fs, p / fs, q / fs, 0, reqs, [], None)

    def _malformed_cases(self, rng, n):
        for it in range(n):
            fs = rng.choice(FS_LIST)
            N = rng.randint(20, 120)
            parts = self._partition(rng, N)
            parts = [p for p in parts if p > 0]
            nd = rng.choice(['1d', '2d', 'pd1', 'pd2'])
            L = rng.choice([2, 5, 9])
            B = rng.choice([0, 3, 10])
            case = self._mk('malformed', fs, N, nd, parts, L / fs, 0, 0, B / fs, [], [], None)
            what = it % 4
            if what == 0 and len(parts) >= 3:
                # late request: its first sample has been pruned -> "missed" branch
                j = rng.randint(2, len(parts) - 1)
                lo = oldest_start(parts, B, j)
                if lo == 0:
                    continue
                s = rng.randint(0, lo - 1)
                case['reqs'] = [{'t0': s / fs, 'key': 0, 'mid': 100, 'j': j}]
                if rng.random() < 0.5:      # a second late one in the same call
                    case['reqs'].append({'t0': rng.randint(0, lo - 1) / fs, 'key': 1, 'mid': 101, 'j': j})
                if rng.random() < 0.4 and not nd.startswith('pd'):
                    # together with a regular one (merge fails with ValueError; annotated input is left out
                    # because there the failure surfaces as an UnboundLocalError inside PipelineData.__getitem__)
                    s2 = rng.randint(lo, max(lo, N - L))
                    case['reqs'].append({'t0': s2 / fs, 'key': 2, 'mid': 102, 'j': j})
            elif what == 1:
                # duplicate (t0, key)
                s = rng.randint(0, max(0, N - L))
                j = rng.randint(0, last_admissible(parts, B, s))
                j2 = rng.randint(j, last_admissible(parts, B, s))
                case['reqs'] = [{'t0': s / fs, 'key': 5, 'mid': 100, 'j': j}, {'t0': s / fs, 'key': 5, 'mid': 101, 'j': j2}]
                if rng.random() < 0.5:      # ... and a removal naming that key (the skip list drops one entry per removal)
                    case['rems'] = [{'r': 0, 'j': rng.choice([j, j2])}]
                    if rng.random() < 0.3:
                        case['rems'].append({'r': 0, 'j': j2})
            elif what == 2 and len(parts) >= 2:
                # removal made visible before the request it names
                s = rng.randint(0, max(0, N - L))
                j = rng.randint(0, last_admissible(parts, B, s))
                if j == 0:
                    continue
                case['reqs'] = [{'t0': s / fs, 'key': 3, 'mid': 100, 'j': j}]
                case['rems'] = [{'r': 0, 'j': rng.randint(0, j - 1)}]
            else:
                # two epoch lengths in one extractor (epoch_size None, per-request duration)
                case['epoch_size'] = None
                reqs = []
                for r in range(rng.randint(2, 4)):
                    Lr = rng.choice([2, 5, 9])
                    s = rng.randint(0, max(0, N - Lr))
                    reqs.append({'t0': s / fs, 'key': r, 'mid': 100 + r, 'dur': Lr / fs,
                                 'j': rng.randint(0, last_admissible(parts, B, s))})
                case['reqs'] = reqs
            yield case

    def _exhaustive_cases(self):
        N, fs = 6, 1000.0
        for mask in range(2 ** (N - 1)):
            parts, run = [], 1
            for b in range(N - 1):
                if mask >> b & 1:
                    parts.append(run)
                    run = 1
                else:
                    run += 1
            parts.append(run)
            for L in range(0, 4):
                for s in range(0, N - L + 1):
                    for B in (0, 1, 2, 50):
                        jmax = last_admissible(parts, B, s)
                        for j in range(jmax + 1):
                            for rj in [None] + list(range(j, len(parts))):
                                reqs = [{'t0': s / fs, 'key': 0, 'mid': 100, 'j': j}]
                                if L == 0:
                                    esz, reqs[0]['dur'] = None, 0.0
                                else:
                                    esz = L / fs
                                rems = [] if rj is None else [{'r': 0, 'j': rj}]
                                yield self._mk('exhaustive', fs, N, '1d', parts, esz, 0, 0, B / fs, reqs, rems, None)

    def _exhaustive_late_cases(self):
        """Every composition of a 6-sample stream x a first request (s, L) made before call 0 x a second one (s2, L)
        posted by the consumer on receipt of the first x source_complete None / set from the start / set before the
        call after the hand-over x buffer 0 / large."""
        N, fs = 6, 1000.0
        for mask in range(2 ** (N - 1)):
            parts, run = [], 1
            for b in range(N - 1):
                if mask >> b & 1:
                    parts.append(run)
                    run = 1
                else:
                    run += 1
            parts.append(run)
            for L in range(1, 4):
                for s in range(0, N - L + 1):
                    c0 = completion_call(parts, 0, s, L)
                    for B in (0, 50):
                        lo = oldest_start(parts, B, c0 + 1) if c0 + 1 < len(parts) else N
                        for s2 in range(lo, N + 1):
                            if s2 == s or (s2 + L > N and s2 != N):
                                continue
                            for sc in (None, 0, c0 + 1):
                                reqs = [{'t0': s / fs, 'key': 0, 'mid': 100, 'j': 0},
                                        {'t0': s2 / fs, 'key': 1, 'mid': 101, 'j': c0, 'late': True}]
                                yield self._mk('exhaustive', fs, N, '1d', parts, L / fs, 0, 0, B / fs, reqs, [], sc)

    def cases(self, rng, tier):
        quick = tier == 'quick'
        yield from self._boundary_cases(rng, tier)
        for i in range(5000 if quick else 40000):
            yield self._random_case(rng, big=(i % 4 == 0), late=(i % 3 == 0))
        for i in range(2500 if quick else 20000):
            yield self._decorate(rng, self._random_case(rng, big=(i % 4 == 0), late=(i % 3 == 1)))
        # sample indices beyond 2^31: the stream is preceded by one leading chunk of `skip` samples
        for i in range(40 if quick else 400):
            skip = 2 ** rng.choice([31, 31, 32, 33, 40]) + rng.randint(-3, 10 ** 6)
            c = self._random_case(rng, big=False, skip=skip, late=(i % 3 == 0))
            c['kind'] = 'beyond-2^31'
            yield self._decorate_light(rng, c)
        for i in range(2 if quick else 12):
            yield self._scale_case(rng, 'many' if i % 2 == 0 else 'long', quick)
        for i in range(300 if quick else 3000):
            yield self._capture_case(rng)
        yield from self._malformed_cases(rng, 400 if quick else 3000)
        if not quick:
            yield from self._exhaustive_cases()
            yield from self._exhaustive_late_cases()

    # ------------------------------------------------------------------ ops
    def _schedule(self, case):
        """Per call: (requests made visible, removals made visible, source_complete set?)."""
        n = len(case['parts'])
        reqs = [[] for _ in range(n)]
        rems = [[] for _ in range(n)]
        for i, r in enumerate(case['reqs']):
            if not r.get('late'):
                reqs[r['j']].append(i)
        for rm in case['rems']:
            rems[rm['j']].append(rm['r'])
        sc = case['sc']
        complete = [(sc is None) or (j >= sc) for j in range(n)]
        return reqs, rems, complete

    @staticmethod
    def _late_schedule(case):
        """Per call: the requests that the consumer (`target`) appends to `queue` when it is handed the batch of
        that call - a consumer that schedules the next epoch on receipt of one.  They are posted iff the call
        delivers at least one epoch, stay in the queue over that call's done test and are taken in by the next call."""
        late = [[] for _ in case['parts']]
        for i, r in enumerate(case['reqs']):
            if r.get('late'):
                late[r['j']].append(i)
        return late

    @staticmethod
    def _ghost_schedule(case):
        """Per call: removals that name no request ever made."""
        ghosts = [[] for _ in case['parts']]
        for gi, g in enumerate(case.get('ghosts') or []):
            ghosts[g['j']].append(gi)
        return ghosts

    @staticmethod
    def configs(case):
        """The extractor(s) of a case: the main one and, with `twin`, a second one with other parameters that is
        handed the very same info dicts and chunk objects."""
        out = [case]
        if case.get('twin'):
            out.append(dict(case, **case['twin']))
        return out

    def model_lines(self, case):
        lines = []
        for cfg in self.configs(case):
            lines.extend(self._model_lines_one(cfg))
        return lines

    def _model_lines_one(self, case):
        ids = key_ids(case)
        keys = 1 if case['nd'].startswith('pd') else 0
        lines = [f'new {buffer_samples(case)} {keys}']
        reqs, rems, complete = self._schedule(case)
        late = self._late_schedule(case)
        ghosts = self._ghost_schedule(case)
        observable = not (case.get('rep') or {}).get('no_cb')       # without a callback nothing can be seen firing
        tlb = 0

        def fmt(i):
            r = case['reqs'][i]
            s, ln = conv(case, r)
            return f"{ids[(r['t0'], r.get('key'))]}:{s}:{ln}:{r['mid']}"
        for j, n in enumerate(case['parts']):
            rq = [fmt(i) for i in reqs[j]]
            rm = []
            for i in rems[j]:
                r = case['reqs'][i]
                rm.append(str(ids[(r['t0'], r.get('key'))]))
            for gi in ghosts[j]:
                g = case['ghosts'][gi]
                rm.append(str(ids[(g['t0'], g.get('key'))]))
            line = f"data {tlb}:{n} {','.join(rq) or '-'} {','.join(rm) or '-'} {1 if (complete[j] and observable) else 0}"
            if late[j]:
                # 5th field: posted by `target` iff this call hands it a batch (the driver decides)
                line += ' ' + ','.join(fmt(i) for i in late[j])
            lines.append(line)
            tlb += n
        return lines

    # -- the input stream ----------------------------------------------------
    @staticmethod
    def _stream(case):
        """Value = absolute sample index (channel i: negated when i is odd), in the dtype / memory layout of the case."""
        rep = case.get('rep') or {}
        N, nd, H = case['N'], case['nd'], case.get('skip', 0)
        dtype = {'f8': np.float64, 'f4': np.float32, 'i2': np.int16, 'i4': np.int32, 'i8': np.int64,
                 'u2': np.uint16}[rep.get('dtype', 'f8')]
        base = np.arange(H, H + N).astype(dtype)
        if nd in ('1d', 'pd1'):
            stream = base
        else:
            nch = rep.get('nch', 2)
            stream = np.vstack([base if c % 2 == 0 else -base for c in range(nch)])
        layout = rep.get('layout', 'c')
        if layout == 'strided':
            wide = np.zeros(stream.shape[:-1] + (2 * N + 1,), dtype=dtype)
            wide[..., 1::2][..., :N] = stream
            stream = wide[..., 1::2][..., :N]
        elif layout == 'fortran' and stream.ndim == 2:
            stream = np.asfortranarray(stream)
        return stream

    def _channels(self, case):
        if case['nd'] != 'pd2':
            return None
        nch = (case.get('rep') or {}).get('nch', 2)
        return ['a', 'b', 'c', 'd'][:nch]

    def _chunk(self, P, case, stream, lo, n):
        chunk = stream[..., lo:lo + n]
        if case['nd'].startswith('pd'):
            H = case.get('skip', 0)
            chunk = P.PipelineData(chunk, as_repr(case['fs'], (case.get('rep') or {}).get('fs_as')), s0=H + lo,
                                   metadata={'src': 1}, channel=self._channels(case))
        return chunk

    def _make_info(self, case, r, removal=False):
        rep = case.get('rep') or {}
        info = {'t0': as_repr(r['t0'], rep.get('t0_rem_as' if removal else 't0_req_as'))}
        if 'key' in r:
            info['key'] = r['key']
        if removal:
            return info
        if not r.get('nomd'):
            md = {'id': r['mid']}
            if rep.get('md_extra'):
                md[f"u{r['mid']}"] = r['mid']
                md['label'] = f"r{r['mid']}"
            info['metadata'] = md
        if 'dur' in r:
            info['duration'] = r['dur']
        if rep.get('extra_info'):
            info.setdefault('duration', 0.0123)        # ignored when epoch_size is given
            info['decrement'] = True
            info['note'] = 'x'
        return info

    def _make_extractor(self, P, case, q, rq, target, cb, sc):
        rep = case.get('rep') or {}
        fs = as_repr(case['fs'], rep.get('fs_as'))
        num = rep.get('num_as')
        esz, buf = as_repr(case['epoch_size'], num), as_repr(case['buffer'], num)
        pre, post = as_repr(case['pre'], num), as_repr(case['post'], num)
        if rep.get('no_cb'):
            cb = None
        if rep.get('no_rq') and not case['rems'] and not case.get('ghosts'):
            rq = None
        if rep.get('args') == 'pos':
            return P.extract_epochs(fs, q, esz, target, buf, cb, rq, pre, post, sc)
        if rep.get('args') == 'min':
            # only what differs from the defaults is passed
            kw = {}
            if case['buffer'] != 0:
                kw['buffer_size'] = buf
            if case['pre'] != 0:
                kw['prestim_time'] = pre
            if case['post'] != 0:
                kw['poststim_time'] = post
            if sc is not None:
                kw['source_complete'] = sc
            if rq is not None:
                kw['removed_queue'] = rq
            return P.extract_epochs(fs, q, esz, target, empty_queue_cb=cb, **kw)
        return P.extract_epochs(fs, q, esz, target, buffer_size=buf, empty_queue_cb=cb, removed_queue=rq,
                                prestim_time=pre, poststim_time=post, source_complete=sc)

    def impl_lines(self, case):
        from psiaudio import pipeline as P
        if case['kind'] == 'capture':
            return self._impl_capture(P, case)
        cfgs = self.configs(case)
        nd = case['nd']
        annotated = nd.startswith('pd')
        H = case.get('skip', 0)
        stream = self._stream(case)
        pristine = stream.copy()
        clobber = bool(case.get('clobber'))

        class Ex:
            pass
        exs = []
        for cfg in cfgs:
            e = Ex()
            e.cfg, e.q, e.rq, e.got, e.done = cfg, deque(), deque(), [], []
            e.sc = None if case['sc'] is None else Event()
            e.posted, e.late_infos = set(), {}

            def target(x, e=e):
                is_pd = isinstance(x, P.PipelineData)
                e.got.append((np.array(np.asarray(x)), is_pd, copy.deepcopy(x.metadata) if is_pd else None))
                # the consumer schedules further epochs when it is handed a batch: re-entrant append to `queue`
                if cur['j'] is not None:
                    for i in late[cur['j']]:
                        if i not in e.posted:
                            e.posted.add(i)
                            info = self._make_info(case, case['reqs'][i])
                            e.late_infos.setdefault(cur['j'], []).append(info)
                            e.q.append(info)
                if clobber:
                    # the consumer owns what it was handed: overwrite it in place
                    if np.asarray(x).flags.writeable:
                        np.asarray(x)[...] = 99
                    if is_pd:
                        for md in (x.metadata if isinstance(x.metadata, list) else [x.metadata]):
                            md.clear()
            # the callback notes how many batches had been handed over when it fired
            e.ex = self._make_extractor(P, cfg, e.q, e.rq, target, lambda e=e: e.done.append(len(e.got)), e.sc)
            e.out = ['ok']
            e.dead = False
            exs.append(e)

        flags = set()
        late = self._late_schedule(case)
        cur = {'j': None}
        if H:
            shape = stream.shape[:-1] + (H,)
            z = np.broadcast_to(np.zeros((), dtype=stream.dtype), shape)     # no memory behind it
            for e in exs:
                zc = z
                if annotated:
                    zc = P.PipelineData(z, case['fs'], s0=0, metadata={'src': 1}, channel=self._channels(case))
                n_got, n_done = len(e.got), len(e.done)
                e.ex.send(zc)
                if len(e.got) != n_got or len(e.done) != n_done:
                    flags.add('ACTIVITY-IN-LEADING-CHUNK')

        reqs, rems, complete = self._schedule(case)
        ghosts = self._ghost_schedule(case)
        ids = key_ids(case)
        tlb = 0
        for j, n in enumerate(case['parts']):
            infos = [self._make_info(case, case['reqs'][i]) for i in reqs[j]]
            rinfos = [self._make_info(case, case['reqs'][i], removal=True) for i in rems[j]]
            rinfos += [self._make_info(case, case['ghosts'][gi], removal=True) for gi in ghosts[j]]
            chunk = self._chunk(P, case, stream, tlb, n)
            cur['j'] = j
            for e in exs:
                e.q.extend(infos)                    # the same dict objects for every consumer
                e.rq.extend(rinfos)
                if e.sc is not None and complete[j]:
                    e.sc.set()
                n_got, n_done = len(e.got), len(e.done)
                try:
                    e.ex.send(chunk)
                except StopIteration:
                    e.out.append('dead')
                    continue
                except Exception as ex_:
                    e.out.append(f'err {type(ex_).__name__}')
                    continue
                items = []
                for snap in e.got[n_got:]:
                    items.extend(self._canon(snap, annotated, nd, ids, case))
                items.sort()
                e.out.append(f"ok {';'.join(items) or '-'} done={len(e.done) - n_done}")
                if any(at < len(e.got) for at in e.done[n_done:]):
                    flags.add('EPOCH-HANDED-OVER-AFTER-DONE-CALLBACK')
            if annotated and (chunk.metadata != {'src': 1} or chunk.channel != self._channels(case)):
                flags.add('CHUNK-ANNOTATION-MODIFIED')
            if case.get('mut_info'):
                # the caller re-uses / clears the dicts it had put into the queue
                for info in infos:
                    info.clear()
                    info['t0'] = -1.0
                    info['key'] = 'gone'
                for info in rinfos:
                    info.clear()
                for e in exs:                         # ... and the consumer those it had posted, once consumed
                    for info in e.late_infos.get(j - 1, []):
                        info.clear()
                        info['t0'] = -1.0
            tlb += n
        if not np.array_equal(stream, pristine):
            flags.add('INPUT-MODIFIED')
        out = []
        for e in exs:
            out.extend(e.out)
        if flags:
            out[0] = ','.join(sorted(flags))
        return out

    def _impl_capture(self, P, case):
        """capture_epoch used on its own: one epoch, chunks sent as (first sample, data)."""
        rep = case.get('rep') or {}
        nd = case['nd']
        annotated = nd.startswith('pd')
        stream = self._stream(case)
        ids = key_ids(case)
        r = case['reqs'][0]
        s, n = conv(case, r)
        got = []

        def target(x):
            is_pd = isinstance(x, P.PipelineData)
            a = np.array(np.asarray(x))[np.newaxis]
            if a.ndim == 2 and nd != '1d':
                a = a[:, np.newaxis, :]              # a single annotated 1-D epoch has no channel axis
            got.append((a, is_pd, [copy.deepcopy(x.metadata)] if is_pd else None))
        info = self._make_info(case, r)
        info_before = copy.deepcopy(info)
        s0 = {'int': s, 'float': float(s), 'np': np.int64(s), 'npf': np.float64(s)}[rep.get('s_as', 'int')]
        fs = as_repr(case['fs'], rep.get('fs_as'))
        if rep.get('args') == 'pos':
            co = P.capture_epoch(s0, n, info, target, fs, False)
        else:
            co = P.capture_epoch(s0, n, info, target, fs=fs)
        out = ['ok']
        tlb = 0
        for j, m in enumerate(case['parts']):
            chunk = self._chunk(P, case, stream, tlb, m)
            n_got = len(got)
            try:
                co.send((tlb, chunk))
            except StopIteration:
                pass
            except Exception as ex_:
                out.append(f'err {type(ex_).__name__}')
                tlb += m
                continue
            tlb += m
            items = []
            for snap in got[n_got:]:
                items.extend(self._canon(snap, annotated, nd, ids, case))
            items.sort()
            out.append(f"ok {';'.join(items) or '-'} done=0")
        if info != info_before:
            out[0] = 'INFO-MODIFIED'
        return out

    @staticmethod
    def _canon(snap, annotated, nd, ids, case):
        arr, is_pd, metadata = snap
        H = case.get('skip', 0)
        items = []
        want_ndim = 2 if (nd == '1d') else 3
        if arr.ndim != want_ndim and arr.shape[-1] != 0:
            return [f'BAD-SHAPE{arr.shape}']
        nomd = {r['mid'] for r in case['reqs'] if r.get('nomd')}
        by_key = {}
        for r in case['reqs']:
            by_key.setdefault((r['t0'], r.get('key')), r)
        md_extra = (case.get('rep') or {}).get('md_extra')
        for e in range(arr.shape[0]):
            ep = arr[e]
            md = metadata[e] if is_pd else None
            if ep.shape[-1] == 0:
                missed = is_pd and (not annotated or 't0' not in md)
                cells = 'M' if missed else 'E'
            else:
                rows = ep.reshape(-1, ep.shape[-1])
                r0 = rows[0].astype(np.float64)
                ok = np.all(r0 == np.round(r0))
                for c in range(1, rows.shape[0]):
                    ok = ok and np.array_equal(rows[c].astype(np.float64), r0 if c % 2 == 0 else -r0)
                want_rows = 1 if nd in ('1d', 'pd1') else (case.get('rep') or {}).get('nch', 2)
                if rows.shape[0] != want_rows:
                    ok = False
                cells = rle([int(v) - H for v in r0]) if ok else 'X'
            if annotated:
                if md is None:
                    items.append(f'NO-METADATA={cells}')
                elif cells == 'M':
                    items.append(f"t{md.get('id')}={cells}")
                else:
                    pair = (md.get('t0'), md.get('key'))
                    k = ids.get(pair)
                    mid = md.get('id')
                    req = by_key.get(pair)
                    if mid is None and req is not None and req.get('nomd'):
                        mid = req['mid']             # the request carried no metadata entry
                    item = f"k{k}t{mid}={cells}"
                    if md_extra and req is not None and not req.get('nomd'):
                        ukeys = sorted(x for x in md if isinstance(x, str) and x[:1] == 'u' and x[1:].isdigit())
                        if ukeys != [f"u{req['mid']}"] or md.get('label') != f"r{req['mid']}":
                            item += f'!METADATA-OF-OTHER-REQUEST{ukeys}'
                    items.append(item)
            else:
                items.append(cells)
        return items

    # ------------------------------------------------------------------ oracle
    @staticmethod
    def in_domain(case):
        """Is the history inside the property's quantifier?  Distinct (t0, key) pairs, one epoch length,
        every request visible within the look-back window, no removal made visible before its request."""
        reqs = case['reqs']
        if len({(r['t0'], r.get('key')) for r in reqs}) != len(reqs):
            return False
        B = buffer_samples(case)
        if B < 0:
            return False
        lens = set()
        for r in reqs:
            s, n = conv(case, r)
            lens.add(n)
            if s < 0 or n < 0 or not (0 <= r['j'] < len(case['parts'])):
                return False
            ja = arrival(r)
            if ja < len(case['parts']) and oldest_start(case['parts'], B, ja) > s:
                return False
        if len(lens) > 1:
            return False
        for rm in case['rems']:
            if rm['j'] < arrival(reqs[rm['r']]):
                return False
        return True

    def oracle(self, case, out):
        """The property, on the real code's outputs (valid histories only), for every extractor of the case."""
        if out and out[0].startswith('HARNESS-EXC'):
            return f'extractor raised: {out[0]}' if self.in_domain(case) else None
        n = 1 + len(case['parts'])
        for k, cfg in enumerate(self.configs(case)):
            f = self._oracle_one(cfg, out[k * n:(k + 1) * n], out[0])
            if f is not None:
                return f if k == 0 else f'second extractor on the same requests and chunks ({case["twin"]}): {f}'
        return None

    def _oracle_one(self, case, out, head):
        if not self.in_domain(case):
            return None
        if 'EPOCH-HANDED-OVER-AFTER-DONE-CALLBACK' in head:
            return 'empty_queue_cb fired before the epochs completed by the same call were handed to the target'
        if head != 'ok':
            return f'the caller\'s data did not come back unmodified: {head}'
        calls = out[1:]
        parts = case['parts']
        annotated = case['nd'].startswith('pd')
        ids = key_ids(case)
        for j, l in enumerate(calls):
            if not l.startswith('ok '):
                return f'call {j} raised/finished: {l}'
        # deliveries per call
        deliv = []
        fired = []
        for j, l in enumerate(calls):
            body, d = l[3:].rsplit(' done=', 1)
            fired.append(int(d))
            deliv.append([] if body == '-' else body.split(';'))
        reqs, rems, complete = self._schedule(case)
        first_rem = {}
        for j in range(len(parts)):
            for i in rems[j]:
                first_rem.setdefault(i, j)
        # a request of the consumer (`late`) was made iff the consumer was handed a batch in that call
        made = [not r.get('late') or bool(deliv[r['j']]) for r in case['reqs']]
        # expectation per request
        must, never, limbo = [], [], []
        for i, r in enumerate(case['reqs']):
            if not made[i]:
                continue
            s, n = conv(case, r)
            cells = 'E' if n == 0 else f'{s}+{n}'
            item = f"k{ids[(r['t0'], r.get('key'))]}t{r['mid']}={cells}" if annotated else cells
            ls = last_sample_call(parts, s, n)
            ja = arrival(r)
            c = completion_call(parts, ja, s, n)
            rj = first_rem.get(i)
            if ja >= len(parts):
                never.append((i, item, 'the consumer posted it during the last call: it is still in the queue'))
            elif ls is None:
                never.append((i, item, 'its samples never arrived'))
            elif rj is not None and rj <= ls:
                never.append((i, item, f'it was removed at call {rj}, its last sample arrived at call {ls}'))
            elif rj is not None and rj <= c:
                # removed between last sample and delivery (look-back intake): the text demands nothing - but when the
                # consumer posted it, it sat in the queue during the done test of that call
                if r.get('late'):
                    limbo.append((i, item))
            else:
                must.append((i, item, c))
        flat = [(j, it) for j, its in enumerate(deliv) for it in its]
        allitems = [it for _, it in flat]
        for i, item, why in never:
            if annotated and item in allitems:
                return f'request {i} ({item}) was delivered although {why}'
        if not annotated:
            # plain arrays carry no identity: compare multisets of (start, len)
            want = sorted(item for _, item, _ in must)
            have = sorted(allitems)
            optional = [it for _, it, _ in never if False]
            maybe = []
            for i, r in enumerate(case['reqs']):
                if not made[i] or arrival(r) >= len(parts):
                    continue
                s, n = conv(case, r)
                rj, ls = first_rem.get(i), last_sample_call(parts, s, n)
                c = completion_call(parts, arrival(r), s, n)
                if ls is not None and rj is not None and ls < rj <= c:
                    maybe.append('E' if n == 0 else f'{s}+{n}')
            rest = list(have)
            for w in want:
                if w in rest:
                    rest.remove(w)
                else:
                    return f'epoch {w} was requested (and not removed before its last sample) but delivered {have.count(w)} time(s), expected {want.count(w)}'
            for x in rest:
                if x in maybe:
                    maybe.remove(x)
                else:
                    return f'epoch {x} delivered but not expected (expected {want})'
        else:
            for i, item, c in must:
                cnt = allitems.count(item)
                if cnt != 1:
                    got = [it for it in allitems if it.startswith(item.split('=')[0] + '=')]
                    return f'request {i}: expected exactly one epoch {item}, got {cnt} (epochs with that key: {got})'
            expected_keys = {item for _, item, _ in must}
            tolerated = set()
            for i, r in enumerate(case['reqs']):
                if not made[i]:
                    continue
                s, n = conv(case, r)
                tolerated.add(f"k{ids[(r['t0'], r.get('key'))]}t{r['mid']}=" + ('E' if n == 0 else f'{s}+{n}'))
            for it in allitems:
                if it not in tolerated:
                    return f'delivered epoch {it} matches no request (content / metadata pairing)'
        # done callback
        if (case.get('rep') or {}).get('no_cb'):
            return None
        if sum(fired) > 1 or any(f > 1 for f in fired):
            return f'empty_queue_cb fired {sum(fired)} times'
        # pending after call j: requests visible by j, with samples in the stream or not, not yet delivered, not removed
        delivered_by = {}
        for j, its in enumerate(deliv):
            for it in its:
                delivered_by.setdefault(it, []).append(j)
        # (a request posted by the consumer during call j is pending from that call on: it sits in the queue)
        cond_calls, why_not = [], {}
        for j in range(len(parts)):
            pend = None
            for i, item, c in must:
                if case['reqs'][i]['j'] <= j and c > j:
                    where = 'in the queue' if arrival(case['reqs'][i]) > j else 'being captured'
                    pend = pend or f'request {i} ({item}) was still pending ({where}); its epoch was due at call {c}, after the callback'
            for i, item, why in never:
                r = case['reqs'][i]
                rj = first_rem.get(i)
                if r['j'] <= j and (rj is None or rj > j):
                    where = 'in the queue' if arrival(r) > j else 'being captured'
                    pend = pend or f'request {i} ({item}) was still pending ({where})'
            for i, item in limbo:
                if case['reqs'][i]['j'] == j:
                    pend = pend or f'request {i} ({item}) was still pending (in the queue)'
            if complete[j] and not pend:
                cond_calls.append(j)
            else:
                why_not[j] = pend or 'the source was not complete'
        for j, f in enumerate(fired):
            if f and j not in cond_calls:
                return f'empty_queue_cb fired at call {j} although {why_not[j]}'
        # nothing that had been requested by then is delivered after the callback
        for jf, f in enumerate(fired):
            if f:
                for i, item, c in must:
                    if case['reqs'][i]['j'] <= jf < c and any(item in its for its in deliv[jf + 1:]):
                        return f'epoch {item} of request {i} was delivered after empty_queue_cb had fired (call {jf})'
        if cond_calls and sum(fired) != 1:
            return f'empty_queue_cb never fired although nothing was pending and the source was complete after call {cond_calls[0]}'
        return None

    def nontrivial(self, case, out):
        return any(';' in l or ('+' in l) for l in out) or bool(case['rems'])

    # ------------------------------------------------------------------ search
    def neighbours(self, case, rng):
        for _ in range(30):
            c = dict(case)
            c['parts'] = self._partition(rng, case['N'])
            B = buffer_samples(c)
            reqs = []
            for r in case['reqs']:
                r = dict(r)
                s, n = conv(c, r)
                la = last_admissible(c['parts'], B, max(s, 0))
                if r.get('late'):
                    # posted during call j, taken in by call j + 1 (or during the last call: never taken in)
                    if la >= 1:
                        r['j'] = rng.randint(0, la - 1)
                    else:
                        r['j'] = len(c['parts']) - 1
                else:
                    r['j'] = rng.randint(0, la)
                reqs.append(r)
            c['reqs'] = reqs
            last = len(c['parts']) - 1
            c['rems'] = [{'r': rm['r'], 'j': rng.randint(min(arrival(reqs[rm['r']]), last), last)} for rm in case['rems']
                         if arrival(reqs[rm['r']]) <= last]
            if case.get('ghosts'):
                c['ghosts'] = [dict(g, j=rng.randint(0, len(c['parts']) - 1)) for g in case['ghosts']]
            if case['kind'] == 'capture':
                continue
            if c['sc'] is not None:
                c['sc'] = min(c['sc'], len(c['parts']))
            yield c

    def shrink_candidates(self, case):
        # drop a request (and its removals)
        for i in range(len(case['reqs'])):
            c = dict(case)
            c['reqs'] = case['reqs'][:i] + case['reqs'][i + 1:]
            c['rems'] = [{'r': rm['r'] - (rm['r'] > i), 'j': rm['j']} for rm in case['rems'] if rm['r'] != i]
            yield c
        for i in range(len(case['rems'])):
            c = dict(case)
            c['rems'] = case['rems'][:i] + case['rems'][i + 1:]
            yield c
        # merge two adjacent chunks when nothing is scheduled on the second
        parts = case['parts']
        used = {r['j'] for r in case['reqs']} | {rm['j'] for rm in case['rems']} | {g['j'] for g in case.get('ghosts') or []}
        used |= {arrival(r) for r in case['reqs']}
        for j in range(1, len(parts)):
            if j in used or (case['sc'] is not None and case['sc'] == j):
                continue
            c = dict(case)
            c['parts'] = parts[:j - 1] + [parts[j - 1] + parts[j]] + parts[j + 1:]
            c['reqs'] = [dict(r, j=r['j'] - (r['j'] > j)) for r in case['reqs']]
            c['rems'] = [dict(rm, j=rm['j'] - (rm['j'] > j)) for rm in case['rems']]
            if case.get('ghosts'):
                c['ghosts'] = [dict(g, j=g['j'] - (g['j'] > j)) for g in case['ghosts']]
            if c['sc'] is not None and c['sc'] > j:
                c['sc'] -= 1
            yield c
        if case['nd'] != '1d':
            yield dict(case, nd='1d')
        if case['sc'] is not None and not case.get('skip') and case['kind'] != 'capture':
            yield dict(case, sc=None)
        # drop the decorations one by one
        for k in ('twin', 'ghosts', 'clobber', 'mut_info'):
            if case.get(k):
                yield {kk: v for kk, v in case.items() if kk != k}
        for k in list(case.get('rep') or {}):
            if k == 'nch' and (case['rep'].get('dtype') == 'u2'):
                continue
            yield dict(case, rep={kk: v for kk, v in case['rep'].items() if kk != k})

    def describe(self, case):
        return (f"fs={case['fs']} N={case['N']} {case['nd']} parts={case['parts']} size={case['epoch_size']} "
                f"pre={case['pre']} post={case['post']} buffer={case['buffer']} reqs={case['reqs']} "
                f"rems={case['rems']} sc={case['sc']}")


SPEC = C05()
