"""C05 — epoch extraction returns exactly the requested samples, once, for any chunking.

Real code: psiaudio.pipeline.extract_epochs (+ capture_epoch).  Model: lean/PsiModel/Extract.lean.

A case is a whole history: a stream of N samples (value = absolute index, 2nd channel = its
negation) cut into chunks, requests made visible just before a chosen `send`, removals made
visible just before a chosen `send`, `source_complete` None or an Event set before a chosen
`send`.  The harness converts seconds to samples with the very expressions of
pipeline.py 815-817 (same operand order) and hands integers to the model.
"""
import itertools
from collections import deque
from threading import Event

import numpy as np

from .framework import Spec

FS_LIST = [1000.0, 25000.0, 44100.0, 48828.125, 97656.25, 195312.5]


# ---------------------------------------------------------------------------
# seconds -> samples, exactly as extract_epochs writes it
# ---------------------------------------------------------------------------
def conv(case, req):
    fs, pre, post = case['fs'], case['pre'], case['post']
    epoch_size = case['epoch_size']
    size = epoch_size if epoch_size else req['dur']
    total_epoch_size = size + post + pre
    epoch_samples = round(total_epoch_size * fs)
    t0 = round((req['t0'] - pre) * fs)
    return t0, epoch_samples


def buffer_samples(case):
    return round(case['buffer'] * case['fs'])


def key_ids(case):
    """(t0, key) -> small integer (index of the first request carrying that pair)."""
    ids = {}
    for i, r in enumerate(case['reqs']):
        ids.setdefault((r['t0'], r.get('key')), i)
    return ids


def oldest_start(parts, B, j):
    """Start of the oldest chunk in prior_samples during call j (prune rule of lines 852-858)."""
    bounds = np.concatenate([[0], np.cumsum(parts)]).tolist()
    if j == 0:
        return 0
    tlb = bounds[j]                     # samples acquired before call j
    for i in range(j):
        if not (bounds[i + 1] < tlb - B):
            return bounds[i]
    return bounds[j]


def last_admissible(parts, B, s):
    j = 0
    while j + 1 < len(parts) and oldest_start(parts, B, j + 1) <= s:
        j += 1
    return j


def completion_call(parts, j, s, n):
    """Index of the call in which a request (s, n) taken in at call j gets its last sample
    (None if the stream ends first)."""
    bounds = np.cumsum(parts).tolist()
    for c in range(j, len(parts)):
        if bounds[c] >= s + n:
            return c
    return None


def last_sample_call(parts, s, n):
    """Index of the call whose chunk brings sample s+n-1 (or touches s when n = 0)."""
    bounds = np.cumsum(parts).tolist()
    for c in range(len(parts)):
        if bounds[c] >= s + n:
            return c
    return None


def rle(vals):
    out = []
    for v in vals:
        if out and out[-1][0] + out[-1][1] == v:
            out[-1][1] += 1
        else:
            out.append([v, 1])
    return '/'.join(f'{a}+{n}' for a, n in out)


class C05(Spec):
    PROP = 'C05'
    MODEL = 'extract'
    PROOF_MODULES = ['PsiProofs.C05']
    DESIGN_REF = 'DESIGN.md §6 C05'
    TRUST = [
        'modelled, not verified: NumPy basic slicing / np.concatenate and PipelineData slicing/concat put the '
        'selected columns in order (the correspondence check compares the content of every delivered epoch)',
        'the harness evaluates round((t0 - prestim)*fs) and round((size + poststim + prestim)*fs) with the '
        "code's own expressions and feeds the integers to the model; Python round() itself is not modelled here (see C06)",
        'single-threaded use: queue / removed_queue / source_complete are only changed between two send() calls',
    ]
    ASSUMPTIONS = [
        'request keys (t0, key) are pairwise distinct; one epoch length per extractor; epoch length >= 0',
        'a removal notification is never made visible in an earlier call than the request it removes',
        'empty_queue_cb is given; buffer_size >= 0',
    ]
    RULE = ('random: stream of 30-3000 samples, random partition (parts 0..N), 0-10 requests each made visible at a '
            'chunk index drawn among all admissible ones (bias to the last admissible), overlapping / back-to-back / '
            'same-chunk, removals at every relative position, prestim/poststim on/off grid, buffer 0/small/large, '
            'source_complete None / Event set before a random call, 1-D / 2-D / annotated input. boundary: one or two '
            'requests with chunk edges at every offset -2..+2 around epoch start and end, every admissible arrival call '
            'and every removal call. malformed: late (missed) requests, duplicate keys, removal before its request, mixed '
            'epoch lengths. A case is non-trivial when at least one epoch is delivered or removed; distinct = distinct case dict.')
    exhaustive_note = {
        'quick': '',
        'thorough': 'every composition of a 6-sample stream x every request (s, len) inside it x every admissible arrival '
                    'call x every removal call (or none) x buffer 0/1/2/large',
    }
    PARALLEL = 16

    # ------------------------------------------------------------------ cases
    def _mk(self, kind, fs, N, nd, parts, epoch_size, pre, post, buffer, reqs, rems, sc):
        return {'kind': kind, 'fs': fs, 'N': N, 'nd': nd, 'parts': parts, 'epoch_size': epoch_size,
                'pre': pre, 'post': post, 'buffer': buffer, 'reqs': reqs, 'rems': rems, 'sc': sc}

    def _partition(self, rng, N):
        mode = rng.random()
        if mode < 0.15:
            parts = [N]
        elif mode < 0.5:
            parts = rng.chunks(N, max_parts=min(N, 12))
        elif mode < 0.8:
            parts, left = [], N
            while left > 0:
                n = min(left, rng.choice([1, 1, 2, 3, 5, 8, 13, 21, 50, 200]))
                parts.append(n)
                left -= n
        else:
            parts = rng.chunks(N, max_parts=min(N, 40))
        if rng.random() < 0.2:                     # a few empty chunks
            for _ in range(rng.randint(1, 3)):
                parts.insert(rng.randint(0, len(parts)), 0)
        return parts

    def _random_case(self, rng, big):
        fs = rng.choice(FS_LIST) if rng.random() < 0.8 else rng.uniform(8000, 400000)
        N = rng.randint(30, 3000 if big else 400)
        nd = rng.choice(['1d', '2d', 'pd1', 'pd2'])
        parts = self._partition(rng, N)
        L = rng.choice([0, 1, 2, 5, 10, 40, 100]) if rng.random() < 0.8 else rng.randint(1, max(1, N // 3))
        size_off = rng.choice([0, 0, 0.25, -0.25, 0.49])
        epoch_size = (L + size_off) / fs if L > 0 else 0.2 / fs
        pre = rng.choice([0, 0, 3 / fs, 1.5 / fs, 2.25 / fs, 7.3 / fs])
        post = rng.choice([0, 0, 2 / fs, 0.4 / fs])
        use_dur = rng.random() < 0.15
        bmode = rng.random()
        if bmode < 0.35:
            buffer = 0
        elif bmode < 0.75:
            buffer = rng.choice([1, 2, 5, 20, 50.5, 100]) / fs
        else:
            buffer = (N + 10) / fs
        case = self._mk('random', fs, N, nd, parts, None if use_dur else epoch_size, pre, post, buffer, [], [], None)
        B = buffer_samples(case)
        nreq = rng.choice([0, 1, 1, 2, 3, 4, 6, 10])
        reqs, rems = [], []
        anchor = None
        for r in range(nreq):
            style = rng.random()
            frac = rng.choice([0, 0, 0.25, -0.25, 0.5, 0.3])
            req = {'mid': 100 + r}
            if rng.random() < 0.85:
                req['key'] = r
            if use_dur:
                req['dur'] = epoch_size
            if anchor is not None and style < 0.25:        # back-to-back with a previous one
                target = anchor[0] + anchor[1]
            elif anchor is not None and style < 0.45:      # overlapping a previous one
                target = anchor[0] + rng.randint(0, max(0, anchor[1]))
            elif style < 0.55:                             # on a chunk boundary
                target = rng.choice(np.cumsum([0] + parts).tolist())
            else:
                target = rng.randint(0, N)
            req['t0'] = (target + frac) / fs + pre
            s, n = conv(case, req)
            if s < 0:
                continue
            if s + n > N and rng.random() < 0.85:
                continue
            if any(q['t0'] == req['t0'] and q.get('key') == req.get('key') for q in reqs):
                continue
            jmax = last_admissible(parts, B, s)
            req['j'] = jmax if rng.random() < 0.3 else rng.randint(0, jmax)
            anchor = (s, n)
            reqs.append(req)
        for ri, req in enumerate(reqs):
            if rng.random() < 0.35:
                s, n = conv(case, req)
                c = completion_call(parts, req['j'], s, n)
                hi = len(parts) - 1
                where = rng.random()
                if where < 0.2:
                    j = req['j']
                elif where < 0.45 and c is not None:
                    j = c
                elif where < 0.6 and c is not None:
                    j = min(hi, c + 1)
                else:
                    j = rng.randint(req['j'], hi)
                rems.append({'r': ri, 'j': j})
                if rng.random() < 0.15:
                    rems.append({'r': ri, 'j': rng.randint(j, hi)})
        case['reqs'], case['rems'] = reqs, rems
        if rng.random() < 0.5:
            case['sc'] = rng.randint(0, len(parts))
        return case

    def _boundary_cases(self, rng, tier):
        fs = 1000.0
        N, s, L = 30, 11, 6
        deltas = range(-2, 3)
        step = 1
        count = 0
        for d0, d1 in itertools.product(deltas, deltas):
            cuts = sorted({s + d0, s + L + d1, 20, 25})
            cuts = [c for c in cuts if 0 < c < N]
            pts = [0] + cuts + [N]
            parts = [b - a for a, b in zip(pts, pts[1:])]
            for B in (0, 3, 100):
                jmax = last_admissible(parts, B, s)
                for j in range(0, jmax + 1):
                    remcalls = [None] + list(range(j, len(parts)))
                    for rj in remcalls:
                        count += 1
                        if count % step:
                            continue
                        nd = ['1d', '2d', 'pd1', 'pd2'][count % 4]
                        reqs = [{'t0': s / fs, 'key': 0, 'mid': 100, 'j': j}]
                        # a second, back-to-back request sharing chunks with the first
                        s2 = s + L
                        j2 = min(last_admissible(parts, B, s2), j + (count % 3))
                        reqs.append({'t0': s2 / fs, 'key': 1, 'mid': 101, 'j': j2})
                        rems = [] if rj is None else [{'r': 0, 'j': rj}]
                        sc = None if count % 2 else (count // 2) % (len(parts) + 1)
                        yield self._mk('boundary', fs, N, nd, parts, L / fs, 0, 0, B / fs, reqs, rems, sc)
        # prestim / poststim boundary: epoch [s - p, s + L + q)
        for p, q in itertools.product([0, 1, 2.5], [0, 1, 0.5]):
            for d0 in deltas:
                cuts = sorted({c for c in (round(s - p) + d0, s + L + round(q) + d0) if 0 < c < N})
                pts = [0] + cuts + [N]
                parts = [b - a for a, b in zip(pts, pts[1:])]
                reqs = [{'t0': s / fs, 'key': 7, 'mid': 107, 'j': 0}]
                yield self._mk('boundary', fs, N, 'pd2', parts, L / fs, p / fs, q / fs, 0, reqs, [], None)

    def _malformed_cases(self, rng, n):
        for it in range(n):
            fs = rng.choice(FS_LIST)
            N = rng.randint(20, 120)
            parts = self._partition(rng, N)
            parts = [p for p in parts if p > 0]
            nd = rng.choice(['1d', '2d', 'pd1', 'pd2'])
            L = rng.choice([2, 5, 9])
            B = rng.choice([0, 3, 10])
            case = self._mk('malformed', fs, N, nd, parts, L / fs, 0, 0, B / fs, [], [], None)
            what = it % 4
            if what == 0 and len(parts) >= 3:
                # late request: its first sample has been pruned -> "missed" branch
                j = rng.randint(2, len(parts) - 1)
                lo = oldest_start(parts, B, j)
                if lo == 0:
                    continue
                s = rng.randint(0, lo - 1)
                case['reqs'] = [{'t0': s / fs, 'key': 0, 'mid': 100, 'j': j}]
                if rng.random() < 0.5:      # a second late one in the same call
                    case['reqs'].append({'t0': rng.randint(0, lo - 1) / fs, 'key': 1, 'mid': 101, 'j': j})
                if rng.random() < 0.4 and not nd.startswith('pd'):
                    # together with a regular one (merge fails with ValueError; annotated input is left out
                    # because there the failure surfaces as an UnboundLocalError inside PipelineData.__getitem__)
                    s2 = rng.randint(lo, max(lo, N - L))
                    case['reqs'].append({'t0': s2 / fs, 'key': 2, 'mid': 102, 'j': j})
            elif what == 1:
                # duplicate (t0, key)
                s = rng.randint(0, max(0, N - L))
                j = rng.randint(0, last_admissible(parts, B, s))
                j2 = rng.randint(j, last_admissible(parts, B, s))
                case['reqs'] = [{'t0': s / fs, 'key': 5, 'mid': 100, 'j': j}, {'t0': s / fs, 'key': 5, 'mid': 101, 'j': j2}]
                if rng.random() < 0.5:      # ... and a removal naming that key (the skip list drops one entry per removal)
                    case['rems'] = [{'r': 0, 'j': rng.choice([j, j2])}]
                    if rng.random() < 0.3:
                        case['rems'].append({'r': 0, 'j': j2})
            elif what == 2 and len(parts) >= 2:
                # removal made visible before the request it names
                s = rng.randint(0, max(0, N - L))
                j = rng.randint(0, last_admissible(parts, B, s))
                if j == 0:
                    continue
                case['reqs'] = [{'t0': s / fs, 'key': 3, 'mid': 100, 'j': j}]
                case['rems'] = [{'r': 0, 'j': rng.randint(0, j - 1)}]
            else:
                # two epoch lengths in one extractor (epoch_size None, per-request duration)
                case['epoch_size'] = None
                reqs = []
                for r in range(rng.randint(2, 4)):
                    Lr = rng.choice([2, 5, 9])
                    s = rng.randint(0, max(0, N - Lr))
                    reqs.append({'t0': s / fs, 'key': r, 'mid': 100 + r, 'dur': Lr / fs,
                                 'j': rng.randint(0, last_admissible(parts, B, s))})
                case['reqs'] = reqs
            yield case

    def _exhaustive_cases(self):
        N, fs = 6, 1000.0
        for mask in range(2 ** (N - 1)):
            parts, run = [], 1
            for b in range(N - 1):
                if mask >> b & 1:
                    parts.append(run)
                    run = 1
                else:
                    run += 1
            parts.append(run)
            for L in range(0, 4):
                for s in range(0, N - L + 1):
                    for B in (0, 1, 2, 50):
                        jmax = last_admissible(parts, B, s)
                        for j in range(jmax + 1):
                            for rj in [None] + list(range(j, len(parts))):
                                reqs = [{'t0': s / fs, 'key': 0, 'mid': 100, 'j': j}]
                                if L == 0:
                                    esz, reqs[0]['dur'] = None, 0.0
                                else:
                                    esz = L / fs
                                rems = [] if rj is None else [{'r': 0, 'j': rj}]
                                yield self._mk('exhaustive', fs, N, '1d', parts, esz, 0, 0, B / fs, reqs, rems, None)

    def cases(self, rng, tier):
        quick = tier == 'quick'
        yield from self._boundary_cases(rng, tier)
        for i in range(5000 if quick else 40000):
            yield self._random_case(rng, big=(i % 4 == 0))
        yield from self._malformed_cases(rng, 400 if quick else 3000)
        if not quick:
            yield from self._exhaustive_cases()

    # ------------------------------------------------------------------ ops
    def _schedule(self, case):
        """Per call: (requests made visible, removals made visible, source_complete set?)."""
        n = len(case['parts'])
        reqs = [[] for _ in range(n)]
        rems = [[] for _ in range(n)]
        for i, r in enumerate(case['reqs']):
            reqs[r['j']].append(i)
        for rm in case['rems']:
            rems[rm['j']].append(rm['r'])
        sc = case['sc']
        complete = [(sc is None) or (j >= sc) for j in range(n)]
        return reqs, rems, complete

    def model_lines(self, case):
        ids = key_ids(case)
        keys = 1 if case['nd'].startswith('pd') else 0
        lines = [f'new {buffer_samples(case)} {keys}']
        reqs, rems, complete = self._schedule(case)
        tlb = 0
        for j, n in enumerate(case['parts']):
            rq = []
            for i in reqs[j]:
                r = case['reqs'][i]
                s, ln = conv(case, r)
                rq.append(f"{ids[(r['t0'], r.get('key'))]}:{s}:{ln}:{r['mid']}")
            rm = []
            for i in rems[j]:
                r = case['reqs'][i]
                rm.append(str(ids[(r['t0'], r.get('key'))]))
            lines.append(f"data {tlb}:{n} {','.join(rq) or '-'} {','.join(rm) or '-'} {1 if complete[j] else 0}")
            tlb += n
        return lines

    def impl_lines(self, case):
        from psiaudio import pipeline as P
        ids = key_ids(case)
        fs, N, nd = case['fs'], case['N'], case['nd']
        base = np.arange(N, dtype=float)
        stream = base if nd in ('1d', 'pd1') else np.vstack([base, -base])
        annotated = nd.startswith('pd')
        q, rq, got, done = deque(), deque(), [], []
        sc = None if case['sc'] is None else Event()
        ex = P.extract_epochs(fs, q, case['epoch_size'], got.append, buffer_size=case['buffer'],
                              empty_queue_cb=lambda: done.append(1), removed_queue=rq,
                              prestim_time=case['pre'], poststim_time=case['post'], source_complete=sc)
        out = ['ok']
        reqs, rems, complete = self._schedule(case)
        tlb = 0
        for j, n in enumerate(case['parts']):
            for i in reqs[j]:
                r = case['reqs'][i]
                info = {'t0': r['t0'], 'metadata': {'id': r['mid']}}
                if 'key' in r:
                    info['key'] = r['key']
                if 'dur' in r:
                    info['duration'] = r['dur']
                q.append(info)
            for i in rems[j]:
                r = case['reqs'][i]
                info = {'t0': r['t0']}
                if 'key' in r:
                    info['key'] = r['key']
                rq.append(info)
            if sc is not None and complete[j]:
                sc.set()
            chunk = stream[..., tlb:tlb + n]
            if annotated:
                chunk = P.PipelineData(chunk, fs, s0=tlb, metadata={'src': 1},
                                       channel=None if nd == 'pd1' else ['a', 'b'])
            n_got, n_done = len(got), len(done)
            try:
                ex.send(chunk)
            except StopIteration:
                out.append('dead')
                tlb += n
                continue
            except Exception as e:
                out.append(f'err {type(e).__name__}')
                tlb += n
                continue
            tlb += n
            new = got[n_got:]
            items = []
            if len(new) > 1:
                items.append('MULTIPLE-TARGET-CALLS')
            for merged in new:
                items.extend(self._canon(P, merged, annotated, nd, ids))
            items.sort()
            out.append(f"ok {';'.join(items) or '-'} done={len(done) - n_done}")
        return out

    @staticmethod
    def _canon(P, merged, annotated, nd, ids):
        items = []
        is_pd = isinstance(merged, P.PipelineData)
        arr = np.asarray(merged)
        want_ndim = 2 if (nd == '1d') else 3
        if arr.ndim != want_ndim and arr.shape[-1] != 0:
            return [f'BAD-SHAPE{arr.shape}']
        for e in range(arr.shape[0]):
            ep = arr[e]
            md = merged.metadata[e] if is_pd else None
            if ep.shape[-1] == 0:
                missed = is_pd and (not annotated or 't0' not in md)
                cells = 'M' if missed else 'E'
            else:
                rows = ep.reshape(-1, ep.shape[-1])
                r0 = rows[0]
                ok = np.all(r0 == np.round(r0))
                if rows.shape[0] == 2:
                    ok = ok and np.array_equal(rows[1], -r0)
                elif rows.shape[0] != 1:
                    ok = False
                cells = rle([int(v) for v in r0]) if ok else 'X'
            if annotated:
                if md is None:
                    items.append(f'NO-METADATA={cells}')
                elif cells == 'M':
                    items.append(f"t{md.get('id')}={cells}")
                else:
                    k = ids.get((md.get('t0'), md.get('key')))
                    items.append(f"k{k}t{md.get('id')}={cells}")
            else:
                items.append(cells)
        return items

    # ------------------------------------------------------------------ oracle
    @staticmethod
    def in_domain(case):
        """Is the history inside the property's quantifier?  Distinct (t0, key) pairs, one epoch length,
        every request visible within the look-back window, no removal made visible before its request."""
        reqs = case['reqs']
        if len({(r['t0'], r.get('key')) for r in reqs}) != len(reqs):
            return False
        B = buffer_samples(case)
        if B < 0:
            return False
        lens = set()
        for r in reqs:
            s, n = conv(case, r)
            lens.add(n)
            if s < 0 or n < 0 or not (0 <= r['j'] < len(case['parts'])):
                return False
            if oldest_start(case['parts'], B, r['j']) > s:
                return False
        if len(lens) > 1:
            return False
        for rm in case['rems']:
            if rm['j'] < reqs[rm['r']]['j']:
                return False
        return True

    def oracle(self, case, out):
        """The property, on the real code's outputs (valid histories only)."""
        if not self.in_domain(case):
            return None
        if out and out[0].startswith('HARNESS-EXC'):
            return f'extractor raised: {out[0]}'
        calls = out[1:]
        parts = case['parts']
        annotated = case['nd'].startswith('pd')
        ids = key_ids(case)
        for j, l in enumerate(calls):
            if not l.startswith('ok '):
                return f'call {j} raised/finished: {l}'
        # deliveries per call
        deliv = []
        fired = []
        for j, l in enumerate(calls):
            body, d = l[3:].rsplit(' done=', 1)
            fired.append(int(d))
            deliv.append([] if body == '-' else body.split(';'))
        reqs, rems, complete = self._schedule(case)
        first_rem = {}
        for j in range(len(parts)):
            for i in rems[j]:
                first_rem.setdefault(i, j)
        # expectation per request
        must, never = [], []
        for i, r in enumerate(case['reqs']):
            s, n = conv(case, r)
            cells = 'E' if n == 0 else f'{s}+{n}'
            item = f"k{ids[(r['t0'], r.get('key'))]}t{r['mid']}={cells}" if annotated else cells
            ls = last_sample_call(parts, s, n)
            c = completion_call(parts, r['j'], s, n)
            rj = first_rem.get(i)
            if ls is None:
                never.append((i, item, 'its samples never arrived'))
            elif rj is not None and rj <= ls:
                never.append((i, item, f'it was removed at call {rj}, its last sample arrived at call {ls}'))
            elif rj is not None and rj <= c:
                pass        # removed between last sample and delivery (look-back intake): the text demands nothing
            else:
                must.append((i, item, c))
        flat = [(j, it) for j, its in enumerate(deliv) for it in its]
        allitems = [it for _, it in flat]
        for i, item, why in never:
            if annotated and item in allitems:
                return f'request {i} ({item}) was delivered although {why}'
        if not annotated:
            # plain arrays carry no identity: compare multisets of (start, len)
            want = sorted(item for _, item, _ in must)
            have = sorted(allitems)
            optional = [it for _, it, _ in never if False]
            maybe = []
            for i, r in enumerate(case['reqs']):
                s, n = conv(case, r)
                rj, ls = first_rem.get(i), last_sample_call(parts, s, n)
                c = completion_call(parts, r['j'], s, n)
                if ls is not None and rj is not None and ls < rj <= c:
                    maybe.append('E' if n == 0 else f'{s}+{n}')
            rest = list(have)
            for w in want:
                if w in rest:
                    rest.remove(w)
                else:
                    return f'epoch {w} was requested (and not removed before its last sample) but delivered {have.count(w)} time(s), expected {want.count(w)}'
            for x in rest:
                if x in maybe:
                    maybe.remove(x)
                else:
                    return f'epoch {x} delivered but not expected (expected {want})'
        else:
            for i, item, c in must:
                cnt = allitems.count(item)
                if cnt != 1:
                    got = [it for it in allitems if it.startswith(item.split('=')[0] + '=')]
                    return f'request {i}: expected exactly one epoch {item}, got {cnt} (epochs with that key: {got})'
            expected_keys = {item for _, item, _ in must}
            tolerated = set()
            for i, r in enumerate(case['reqs']):
                s, n = conv(case, r)
                tolerated.add(f"k{ids[(r['t0'], r.get('key'))]}t{r['mid']}=" + ('E' if n == 0 else f'{s}+{n}'))
            for it in allitems:
                if it not in tolerated:
                    return f'delivered epoch {it} matches no request (content / metadata pairing)'
        # done callback
        if sum(fired) > 1 or any(f > 1 for f in fired):
            return f'empty_queue_cb fired {sum(fired)} times'
        # pending after call j: requests visible by j, with samples in the stream or not, not yet delivered, not removed
        delivered_by = {}
        for j, its in enumerate(deliv):
            for it in its:
                delivered_by.setdefault(it, []).append(j)
        cond_calls = []
        for j in range(len(parts)):
            pend = False
            for i, item, c in must:
                if case['reqs'][i]['j'] <= j and c > j:
                    pend = True
            for i, item, why in never:
                r = case['reqs'][i]
                rj = first_rem.get(i)
                if r['j'] <= j and (rj is None or rj > j):
                    pend = True
            if complete[j] and not pend:
                cond_calls.append(j)
        for j, f in enumerate(fired):
            if f and j not in cond_calls:
                return f'empty_queue_cb fired at call {j} although a request was still pending or the source was not complete'
        if cond_calls and sum(fired) != 1:
            return f'empty_queue_cb never fired although nothing was pending and the source was complete after call {cond_calls[0]}'
        return None

    def nontrivial(self, case, out):
        return any(';' in l or ('+' in l) for l in out) or bool(case['rems'])

    # ------------------------------------------------------------------ search
    def neighbours(self, case, rng):
        for _ in range(30):
            c = dict(case)
            c['parts'] = self._partition(rng, case['N'])
            B = buffer_samples(c)
            reqs = []
            for r in case['reqs']:
                r = dict(r)
                s, n = conv(c, r)
                r['j'] = rng.randint(0, last_admissible(c['parts'], B, max(s, 0)))
                reqs.append(r)
            c['reqs'] = reqs
            c['rems'] = [{'r': rm['r'], 'j': rng.randint(reqs[rm['r']]['j'], len(c['parts']) - 1)} for rm in case['rems']]
            if c['sc'] is not None:
                c['sc'] = min(c['sc'], len(c['parts']))
            yield c

    def shrink_candidates(self, case):
        # drop a request (and its removals)
        for i in range(len(case['reqs'])):
            c = dict(case)
            c['reqs'] = case['reqs'][:i] + case['reqs'][i + 1:]
            c['rems'] = [{'r': rm['r'] - (rm['r'] > i), 'j': rm['j']} for rm in case['rems'] if rm['r'] != i]
            yield c
        for i in range(len(case['rems'])):
            c = dict(case)
            c['rems'] = case['rems'][:i] + case['rems'][i + 1:]
            yield c
        # merge two adjacent chunks when nothing is scheduled on the second
        parts = case['parts']
        used = {r['j'] for r in case['reqs']} | {rm['j'] for rm in case['rems']}
        for j in range(1, len(parts)):
            if j in used or (case['sc'] is not None and case['sc'] == j):
                continue
            c = dict(case)
            c['parts'] = parts[:j - 1] + [parts[j - 1] + parts[j]] + parts[j + 1:]
            c['reqs'] = [dict(r, j=r['j'] - (r['j'] > j)) for r in case['reqs']]
            c['rems'] = [dict(rm, j=rm['j'] - (rm['j'] > j)) for rm in case['rems']]
            if c['sc'] is not None and c['sc'] > j:
                c['sc'] -= 1
            yield c
        if case['nd'] != '1d':
            yield dict(case, nd='1d')
        if case['sc'] is not None:
            yield dict(case, sc=None)

    def describe(self, case):
        return (f"fs={case['fs']} N={case['N']} {case['nd']} parts={case['parts']} size={case['epoch_size']} "
                f"pre={case['pre']} post={case['post']} buffer={case['buffer']} reqs={case['reqs']} "
                f"rems={case['rems']} sc={case['sc']}")


SPEC = C05()
