"""C16 — spectral and level utilities satisfy their defining identities.

Model: `Float` instance of lean/PsiModel/DbField.lean (`csd`, `csdW`, `psd`, `phaseBin`, `csdToSignal`,
`toneConv`, `tonePower`, `tonePhase`, `rms`, `rmsRfft`, `db`, `dbi`, `dbtopa`, `patodb`, `spectrumToBand`,
`bandToSpectrum`) through `psidriver calib`, compared with psiaudio.util to a transcription tolerance
(1e-10 of the largest magnitude for spectra: naive DFT vs FFT; 1e-12 for scalar formulas).
The oracle states the property on the implementation's outputs (1e-9 relative on A, 1e-9 rad on p).
"""
import math

import numpy as np

from .calib_util import FloatSpec, f2b, fl, num, vals, cvals, err, quiet, RTOL

SPEC_TOL = 1e-10       # model vs implementation, spectra / waveforms (relative to the largest magnitude)
P_TOL = 1e-9           # property tolerance (relative on A, rad on p)
# model's cosine-sum window (lean CosWindow.window) vs scipy.signal.get_window, absolute.  Measured on the unchanged
# library: bit-identical (difference 0.0) for all four windows over every n in 2..299 and 600 random n up to 4096;
# 1e-14 allows a few ulps of a different libm cos per term and is 5 orders below the last digit of SciPy's coefficients.
WIN_TOL = 1e-14
# full main-lobe width (null to null) in bins of SciPy's periodic cosine-sum windows
LOBE = {None: 0, 'hann': 4, 'hamming': 4, 'blackman': 6, 'flattop': 10, 'nuttall': 8, 'blackmanharris': 8}
WINDOWS = [None, 'hann', 'hamming', 'flattop', 'blackman', 'nuttall', 'blackmanharris']


def get_window(name, n):
    from scipy import signal
    return signal.get_window(name, n)


def make_signal(c):
    if c['kind'] == 'tone':
        n, k, fs = c['n'], c['k'], c['fs']
        t = np.arange(n) / fs
        f = k * fs / n
        return c['A'] * np.sqrt(2) * np.cos(2 * np.pi * f * t + c['p'])
    rs = np.random.RandomState(c['seed'])
    s = rs.randn(c['n']) * c['A']
    if c.get('dc'):
        s = s + c['dc']
    return s


def averaged(c, s):
    """tone: `avg` repetitions of s; random: a fresh signal of avg*n samples; then `extra < avg` trailing
    samples (which psd trims)."""
    if c['kind'] == 'tone':
        ss = np.tile(s, c['avg'])
    else:
        ss = np.random.RandomState(c['seed'] ^ 0x2545).randn(c['avg'] * c['n']) * c['A']
    if c['extra']:
        ss = np.concatenate([ss, np.full(c['extra'], 0.123 * c['A'])])
    return ss


def bins_of(c):
    n = c['n']
    m = n // 2 + 1
    if n <= 256:
        return list(range(m)), f'all:{m}'
    ks = sorted({0, 1, m - 1, m - 2} | {min(m - 1, max(0, c.get('k', 5) + d)) for d in (-2, -1, 0, 1, 2)}
                | set(c.get('probe', [])))
    return ks, ','.join(str(k) for k in ks)


def psd_bins(c):
    """a handful of bins for the averaged spectrum (cost of the naive DFT in the model)"""
    n = c['n']
    m = n // 2 + 1
    if c['avg'] * n <= 512:
        return bins_of(c)
    ks = sorted({0, 1, m - 1} | {min(m - 1, max(0, c.get('k', 5) + d)) for d in (-1, 0, 1)})
    return ks, ','.join(str(k) for k in ks)


def wrap(x):
    return (x + math.pi) % (2 * math.pi) - math.pi


def whole_cycle_ok(c):
    """bin k is an analysis frequency where the property claims A and p are read"""
    n, k, W = c['n'], c['k'], LOBE[c['window']]
    if c['window'] is None:
        return 0 < k and 2 * k < n
    return W < k and k < n / 2 - W


class C16(FloatSpec):
    PROP = 'C16'
    PROOF_MODULES = ['PsiProofs.C16']
    DESIGN_REF = 'DESIGN.md §6 C16'
    PARALLEL = 16
    TRUST = [
        'proof is over the real / complex numbers: floating-point round-off is NOT bounded by a theorem; the Float '
        'instance of the same definitions is compared with psiaudio.util on every run (1e-10 of the largest magnitude)',
        'modelled, not verified: np.fft.rfft / irfft = the DFT sum and its real inverse (imaginary parts of the DC '
        'and Nyquist bins ignored); np.mean, np.abs, np.angle; scipy.signal.get_window(name, n) for hann / hamming / '
        'blackman / flattop is transcribed (periodic cosine sum, SciPy coefficient tables) and its values are compared '
        'with the real get_window on every windowed case (1e-14 absolute; measured difference 0)',
        'detrend (scipy.signal.detrend) is not modelled: the identities are stated for detrend=None; the default '
        "detrend='linear' is exercised by the oracle with the tolerance 1/k^2 it can reach on a whole-cycle tone",
        'np.unwrap in util.phase is not modelled (phase compared with unwrap=False)',
    ]
    ASSUMPTIONS = ['csd_to_signal inversion is claimed for even lengths only (the function has no length argument)',
                   'tone law with a window is claimed (oracle) for bins farther than the full main-lobe width '
                   '(hann/hamming 4, blackman 6, flattop 10, nuttall/blackmanharris 8 bins) from DC and Nyquist; the theorem '
                   'csd_window_tone covers the larger range M < k < n/2 - M (M = 1, 1, 2, 4, 3, 3)']
    RULE = ('whole-cycle tones: every length 8..40 x every bin (no window) plus seeded random lengths (even/odd) up to '
            '4096 x random bin, amplitude 1e-3..1e3, phase in (-3.1, 3.1), fs, window in {None, hann, hamming, flattop, '
            'blackman, nuttall, blackmanharris}, averages 1..8 with 0..avg-1 trailing samples; seeded Gaussian signals with the same grids and '
            'batch shapes; level helpers on random values and arrays. A case is non-trivial when the signal is not '
            'constant; distinct = distinct case hash.')
    exhaustive_note = {
        'quick': 'tones, no window: every length 8..40 x every bin 0..n/2',
        'thorough': 'tones, no window: every length 8..96 x every bin 0..n/2; hann: every length 24..64 x every bin',
    }

    # ---------------------------------------------------------------- generation
    def gen(self, rng, tier):
        quick = tier == 'quick'
        nmax_ex = 40 if quick else 96
        for n in range(8, nmax_ex + 1):
            for k in range(0, n // 2 + 1):
                yield self.tone_case(rng, n, k, None)
        if not quick:
            for n in range(24, 65):
                for k in range(0, n // 2 + 1):
                    yield self.tone_case(rng, n, k, 'hann')
        nr = 260 if quick else 5000
        for i in range(nr):
            big = rng.random() < (0.06 if quick else 0.1)
            n = rng.randint(257, 4096) if big else rng.randint(8, 256)
            if rng.random() < 0.15:
                n = rng.choice([8, 16, 64, 128, 256, 1024, 4096] if big or not quick else [8, 16, 64, 128, 256])
            w = rng.choice(WINDOWS)
            W = LOBE[w]
            r = rng.random()
            if r < 0.7 and n / 2 - W - 1 > W + 1:
                k = rng.randint(W + 1, math.ceil(n / 2 - W) - 1)
            else:
                k = rng.randint(0, n // 2)
            yield self.tone_case(rng, n, k, w)
        for i in range(nr // 2):
            n = rng.randint(2, 200) if rng.random() < 0.9 else rng.randint(201, 1024)
            avg = rng.randint(1, 8)
            yield {'kind': 'random', 'n': n, 'A': 10 ** rng.uniform(-3, 3), 'seed': rng.randint(0, 2 ** 31 - 1),
                   'dc': rng.choice([0.0, 0.0, rng.uniform(-2, 2)]), 'window': rng.choice(WINDOWS),
                   'avg': avg, 'extra': rng.randint(0, avg - 1), 'fs': float(rng.choice([1000, 44100, 97656.25])),
                   'batch': rng.choice([[], [2], [3, 2]])}
        for i in range(nr // 2):
            yield {'kind': 'level', 'x': 10 ** rng.uniform(-8, 4), 'r': rng.choice([1.0, 20e-6, 10 ** rng.uniform(-6, 2)]),
                   'd': rng.choice([float(rng.randint(-40, 140)), rng.uniform(-120, 160)]),
                   'nb': rng.choice([float(rng.randint(1, 100000)), rng.uniform(0.5, 5e4)]),
                   'arr': [10 ** rng.uniform(-6, 3) for _ in range(rng.randint(0, 5))],
                   'bad': rng.choice([None, None, None, 0.0, -1.0])}

    def tone_case(self, rng, n, k, w):
        avg = rng.randint(1, 8)
        return {'kind': 'tone', 'n': n, 'k': k, 'A': rng.choice([1.0, 10 ** rng.uniform(-3, 3)]),
                'p': rng.choice([0.0, 0.3, rng.uniform(-3.1, 3.1)]),
                'fs': float(rng.choice([1000, 25000, 44100, 97656.25, 100000, rng.uniform(100, 2e5)])),
                'window': w, 'avg': avg, 'extra': rng.randint(0, avg - 1)}

    # ---------------------------------------------------------------- model lines
    def model_lines(self, c):
        if c['kind'] == 'level':
            x, r, d, nb = f2b(c['x']), f2b(c['r']), f2b(c['d']), f2b(c['nb'])
            L = [f'dbf {x} {r}', f'dbf {x} {f2b(1.0)}', f'dbi {d} {r}', f'dbi {d} {f2b(1.0)}', f'dbtopa {d}',
                 f'patodb {x}', f's2b {d} {nb}', f'b2s {d} {nb}']
            L += [f'patodb {f2b(v)}' for v in c['arr']]
            if c['bad'] is not None:
                L += [f"dbf {f2b(c['bad'])} {f2b(1.0)}", f"patodb {f2b(c['bad'])}"]
            return L
        s = make_signal(c)
        n = c['n']
        w = c['window']
        ks, kspec = bins_of(c)
        # named windows are generated by the model itself (CosWindow.window, the object of theorem csd_window_tone) and
        # its values are compared with scipy.signal.get_window(name, n) below
        L = [f'sig {fl(s)}', 'win none' if w is None else f'cwin {w} {n}', f'csd {kspec}']
        L.append('rms')
        if c['kind'] == 'tone':
            f = c['k'] * c['fs'] / n
            L.append(f"csd {c['k']}")          # the tone's own bin (oracle target)
            # single-frequency estimator, through the window in force (toneConv / toneConvW of the model)
            L += [f"toneconv {f2b(c['fs'])} {f2b(f)}", f"tonepower {f2b(c['fs'])} {f2b(f)}"]
        if w is None and n <= 256:
            L.append(f'phase {self.phase_bins(c, s)}')
        if n % 2 == 0 and n <= 512:
            from psiaudio import util
            with quiet():
                spec = util.csd(s, window=w, detrend=None)
            L.append('spec ' + ','.join(f'{f2b(z.real)}:{f2b(z.imag)}' for z in spec))
            L.append('tosig')
            L.append('rmsrfft')
        if c['avg'] * n <= 4096:
            L.append(f'sig {fl(averaged(c, s))}')
            L.append(f"psd {c['avg']} {psd_bins(c)[1]}")
        return L

    def phase_bins(self, c, s):
        """bins whose phase is well conditioned and away from the ±pi cut"""
        from psiaudio import util
        with quiet():
            z = util.csd(s, detrend=None)
        m = np.abs(z)
        ok = [i for i in range(len(z)) if m[i] > 1e-3 * m.max() and abs(np.angle(z[i])) < 3.0 and m.max() > 0]
        return ','.join(str(i) for i in ok[:40]) or '-'

    # ---------------------------------------------------------------- implementation
    def impl_results(self, c):
        from psiaudio import util
        if c['kind'] == 'level':
            x, r, d, nb = c['x'], c['r'], c['d'], c['nb']
            R = [num(util.db(x, r)), num(util.db(x)), num(util.dbi(d, r)), num(util.dbi(d)), num(util.dbtopa(d)),
                 num(util.patodb(x)), num(util.spectrum_to_band_level(d, nb)), num(util.band_to_spectrum_level(d, nb))]
            if c['arr']:
                R += [num(v) for v in util.patodb(c['arr'])]       # sequence form, element by element
            if c['bad'] is not None:
                R += [num(util.db(c['bad'])), num(util.patodb(c['bad']))]
            return R
        s = make_signal(c)
        n, w, fs = c['n'], c['window'], c['fs']
        ks, _ = bins_of(c)
        z = util.csd(s, window=w, detrend=None)
        R = [('ok',), ('ok',) if w is None else vals(get_window(w, n), 0.0, WIN_TOL), cvals(z[ks], SPEC_TOL),
             num(util.rms(s), 1e-11)]
        if c['kind'] == 'tone':
            f = c['k'] * fs / n
            R.append(cvals([z[c['k']]], SPEC_TOL))
            R += [cvals([util.tone_conv(s, fs, f, window=w, detrend=None)], SPEC_TOL * max(1.0, n / 64)),
                  num(util.tone_power_conv(s, fs, f, window=w, detrend=None), SPEC_TOL * max(1.0, n / 64),
                      SPEC_TOL * c['A'] * max(1.0, n / 64))]
        if w is None and n <= 256:
            pb = self.phase_bins(c, s)
            idx = [int(v) for v in pb.split(',')] if pb != '-' else []
            ph = np.asarray(util.phase(s, fs, unwrap=False))
            R.append(vals(ph[idx], 0.0, 1e-8))
        if n % 2 == 0 and n <= 512:
            R.append(('ok',))
            R.append(vals(util.csd_to_signal(z), SPEC_TOL))
            R.append(num(util.rms_rfft(z), 1e-11))
        if c['avg'] * n <= 4096:
            ss = averaged(c, s)
            R.append(('ok',))
            R.append(vals(util.psd(ss, fs, window=w, waveform_averages=c['avg'], detrend=None)[psd_bins(c)[0]], SPEC_TOL))
        return R

    # ---------------------------------------------------------------- the property on the implementation
    def oracle(self, c, impl_out):
        with quiet():
            try:
                return self._oracle(c)
            except (ValueError, IndexError, ZeroDivisionError, TypeError) as e:
                return f'a spectrum helper raised {type(e).__name__}: {e} on a valid input ({self.describe(c)[:200]})'

    def _oracle(self, c):
        from psiaudio import util
        if c['kind'] == 'level':
            x, r, d, nb = c['x'], c['r'], c['d'], c['nb']
            t = 1e-9
            chk = [
                ('db(dbi(d, r), r)', float(util.db(util.dbi(d, r), r)), d, t),
                ('dbi(db(x, r), r)/x', float(util.dbi(util.db(x, r), r)) / x, 1.0, t),
                ('patodb(dbtopa(d))', float(util.patodb(util.dbtopa(d))), d, t),
                ('dbtopa(patodb(x))/x', float(util.dbtopa(util.patodb(x))) / x, 1.0, t),
                ('db(x) - 20 log10 x', float(util.db(x)), 20 * math.log10(x), t),
                ('patodb(x) - 20 log10(x/20e-6)', float(util.patodb(x)), 20 * math.log10(x / 20e-6), t),
                ('band level', float(util.spectrum_to_band_level(d, nb)), d + 10 * math.log10(nb), t),
                ('band -> spectrum -> band', float(util.spectrum_to_band_level(util.band_to_spectrum_level(d, nb), nb)), d, t),
            ]
            for name, got, want, tol in chk:
                if not abs(got - want) <= tol * max(1.0, abs(want)):
                    return f'{name} = {got!r}, expected {want!r} (x={x!r}, r={r!r}, d={d!r}, n={nb!r})'
            if c['arr']:
                a = np.asarray(util.patodb(c['arr']), dtype=float)
                b = np.array([float(util.patodb(v)) for v in c['arr']])
                if a.shape != b.shape or not np.allclose(a, b, rtol=1e-12, atol=0):
                    return f'patodb on a sequence differs from elementwise: {a!r} vs {b!r}'
            return None

        s = make_signal(c)
        n, w, fs, A = c['n'], c['window'], c['fs'], c['A']
        if w == 'hann':
            # the window of theorem `csd_hann_tone` (hannW) is SciPy's periodic hann
            hw = 0.5 - 0.5 * np.cos(2 * np.pi * np.arange(n) / n)
            if np.max(np.abs(get_window('hann', n) - hw)) > 1e-15:
                return f"get_window('hann', {n}) is not 1/2 - 1/2 cos(2 pi j/n)"
        z = util.csd(s, window=w, detrend=None)
        if z.shape != (n // 2 + 1,):
            return f'csd of {n} samples has shape {z.shape}'
        # Parseval with the doubly counted DC / Nyquist bins (any signal, no window)
        if w is None:
            tot = float(np.sum(np.abs(z) ** 2))
            ms = float(np.mean(s ** 2))
            extra = 0.5 * abs(z[0]) ** 2 + (0.5 * abs(z[-1]) ** 2 if n % 2 == 0 else 0.0)
            if not abs(tot - (ms + extra)) <= 1e-9 * max(ms, 1e-300):
                return (f'Parseval: sum|csd|^2 = {tot!r}, mean square = {ms!r}, double-counted DC/Nyquist part '
                        f'= {extra!r} (n={n})')
            if not abs(float(util.rms(s)) - math.sqrt(ms)) <= 1e-12 * math.sqrt(ms):
                return f'rms(s) = {util.rms(s)!r}, sqrt(mean square) = {math.sqrt(ms)!r}'
        # spectrum -> signal inverts signal -> spectrum (even lengths)
        if n % 2 == 0 and n >= 2:
            zz = util.csd(s, detrend=None)
            back = util.csd_to_signal(zz)
            if back.shape != s.shape or not np.max(np.abs(back - s)) <= 1e-9 * max(np.max(np.abs(s)), 1e-300):
                return f'csd_to_signal(csd(s)) differs from s by {np.max(np.abs(back - s))!r} (n={n})'
        if c['kind'] == 'random':
            # batch shapes: the last axis is time, leading axes are independent
            if c['batch']:
                rs = np.random.RandomState(c['seed'] ^ 0x5bd1)
                S = rs.randn(*c['batch'], n) * A
                Z = util.csd(S, window=w, detrend=None)
                P = util.psd(S, fs, window=w, detrend=None)
                flat = S.reshape(-1, n)
                for i, row in enumerate(flat):
                    zr = util.csd(row, window=w, detrend=None)
                    if not np.allclose(Z.reshape(-1, Z.shape[-1])[i], zr, rtol=1e-12, atol=1e-12 * A):
                        return f'csd on batch shape {c["batch"]} differs from row-wise csd (row {i})'
                    if not np.allclose(P.reshape(-1, P.shape[-1])[i], np.abs(zr), rtol=1e-12, atol=1e-12 * A):
                        return f'psd on batch shape {c["batch"]} differs from row-wise |csd| (row {i})'
            # averaging: psd = mean of the segments' magnitudes, trailing samples trimmed
            avg = c['avg']
            ss = averaged(c, s)
            P = util.psd(ss, fs, window=w, waveform_averages=avg, detrend=None)
            want = np.mean([np.abs(util.csd(ss[i * n:(i + 1) * n], window=w, detrend=None)) for i in range(avg)], axis=0)
            if P.shape != want.shape or not np.allclose(P, want, rtol=1e-12, atol=1e-12 * A):
                return (f'psd(waveform_averages={avg}) with {c["extra"]} trailing samples differs from the mean of '
                        f'the segment magnitudes (segment length {n})')
            return None

        # ---- whole-cycle tone ----
        k, p = c['k'], c['p']
        if not whole_cycle_ok(c):
            return None
        target = A * np.exp(1j * p)
        if abs(abs(z[k]) - A) > P_TOL * A or abs(wrap(np.angle(z[k]) - p)) > P_TOL:
            return (f'csd of a tone (A={A!r}, p={p!r}, n={n}, k={k}, window={w}) reads |c[k]| = {abs(z[k])!r}, '
                    f'angle = {np.angle(z[k])!r}')
        if w is None:
            others = np.delete(np.abs(z), k)
            if others.size and others.max() > P_TOL * A:
                return f'csd of a whole-cycle tone (n={n}, k={k}) leaks {others.max()!r} into another bin (A={A!r})'
        # any averaging count, trailing samples trimmed
        ss = averaged(c, s)
        P = util.psd(ss, fs, window=w, waveform_averages=c['avg'], detrend=None)
        if P.shape != z.shape or abs(P[k] - A) > P_TOL * A:
            return (f'psd(waveform_averages={c["avg"]}, {c["extra"]} trailing samples) of the tone reads '
                    f'{P[k] if P.shape == z.shape else P.shape!r} at bin {k}, A = {A!r} (n={n}, window={w})')
        # single-frequency estimator
        f = k * fs / n
        r = util.tone_conv(s, fs, f, window=w, detrend=None)
        tp = float(util.tone_power_conv(s, fs, f, window=w, detrend=None))
        if abs(tp - A) > P_TOL * A or abs(wrap(np.angle(r) - p)) > P_TOL:
            return (f'tone_conv on a whole-cycle tone (A={A!r}, p={p!r}, n={n}, k={k}, fs={fs!r}, window={w}) gives '
                    f'power {tp!r}, phase {np.angle(r)!r}')
        # the analysis frequency handed over as the caller's own array (0-d and 1-d), and re-used for the next call:
        # the estimate depends on the arguments' values only, and the arguments are still what the caller put there
        for farr in (np.array(f, dtype=np.double), np.array([f], dtype=np.double)):
            keep, s_keep = farr.copy(), s.copy()
            a1 = np.asarray(util.tone_power_conv(s, fs, farr, window=w, detrend=None), dtype=float).reshape(-1)[0]
            a2 = np.asarray(util.tone_power_conv(s, fs, farr, window=w, detrend=None), dtype=float).reshape(-1)[0]
            p2 = float(np.angle(np.asarray(util.tone_conv(s, fs, farr, window=w, detrend=None)).reshape(-1)[0]))
            if not np.array_equal(farr, keep) or not np.array_equal(s, s_keep):
                return (f'tone estimators modified their arguments: frequency array {keep.tolist()!r} -> '
                        f'{farr.tolist()!r} (n={n}, k={k}, fs={fs!r})')
            if abs(a1 - A) > P_TOL * A or abs(a2 - A) > P_TOL * A or abs(wrap(p2 - p)) > P_TOL:
                return (f'tone estimators with the frequency given as a {farr.ndim}-d array, called three times on the '
                        f'same arguments: powers {a1!r}, {a2!r}, phase {p2!r}; A={A!r}, p={p!r} (n={n}, k={k}, fs={fs!r})')
        # defaults (detrend='linear'): the least-squares line through whole cycles of a sinusoid is not zero.  Its
        # slope is at most 6*sqrt(2)*A / ((n^2-1) sin(pi k/n)), and a unit ramp reads 1 / (sqrt(2) sin(pi k/n)) at
        # bin k after the csd scaling, so the reading at bin k moves by at most  A * 6 / ((n^2-1) sin^2(pi k/n))
        # — the stated tolerance of this part of the check (x1.05).
        bias = 6.0 / ((n * n - 1) * math.sin(math.pi * k / n) ** 2)
        if bias < 0.2:
            tol = 1.05 * bias + 1e-9
            tp = float(util.tone_power_conv(s, fs, f, window=w))
            ph = float(util.tone_phase_conv(s, fs, f, window=w))
            cd = util.csd(s, window=w)[k]
            if w is None and (abs(tp - A) > tol * A or abs(wrap(ph - p)) > 1.2 * tol or abs(cd - target) > tol * A):
                return (f"defaults (detrend='linear'): tone_power_conv {tp!r}, tone_phase_conv {ph!r}, csd[k] "
                        f'{cd!r} for A={A!r}, p={p!r}, n={n}, k={k} (tolerance {tol!r} = bound on the detrend bias)')
        return None

    def nontrivial(self, c, out):
        return c['kind'] == 'level' or c.get('A', 0) != 0

    def neighbours(self, c, rng):
        if c['kind'] == 'tone':
            for dn in (-2, -1, 0, 1, 2):
                for dk in (-1, 0, 1):
                    n, k = c['n'] + dn, c['k'] + dk
                    if n >= 4 and 0 <= k <= n // 2:
                        d = dict(c)
                        d.update(n=n, k=k)
                        yield d
            for w in WINDOWS:
                d = dict(c)
                d['window'] = w
                yield d

    def shrink_candidates(self, c):
        if c['kind'] == 'tone':
            for upd in ({'avg': 1, 'extra': 0}, {'window': None}, {'A': 1.0}, {'p': 0.3}, {'fs': 1000.0},
                        {'n': c['n'] // 2, 'k': c['k'] // 2}, {'n': c['n'] - 1}, {'k': c['k'] - 1}):
                d = dict(c)
                d.update(upd)
                if d != c and d['n'] >= 4 and 0 <= d['k'] <= d['n'] // 2:
                    yield d
        elif c['kind'] == 'random':
            for upd in ({'avg': 1, 'extra': 0}, {'window': None}, {'batch': []}, {'dc': 0.0}, {'n': c['n'] // 2}):
                d = dict(c)
                d.update(upd)
                if d != c and d['n'] >= 2:
                    yield d


SPEC = C16()
