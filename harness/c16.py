"""C16 — spectral and level utilities satisfy their defining identities.

Model: `Float` instance of lean/PsiModel/DbField.lean (`csd`, `csdW`, `psd`, `phaseBin`, `csdToSignal`,
`toneConv`, `tonePower`, `tonePhase`, `rms`, `rmsRfft`, `db`, `dbi`, `dbtopa`, `patodb`, `spectrumToBand`,
`bandToSpectrum`) through `psidriver calib`, compared with psiaudio.util to a transcription tolerance
(1e-10 of the largest magnitude for spectra: naive DFT vs FFT; 1e-12 for scalar formulas).
The oracle states the property on the implementation's outputs (1e-9 relative on A, 1e-9 rad on p).
"""
import math

import numpy as np

from .calib_util import FloatSpec, f2b, fl, num, vals, cvals, err, quiet, RTOL

SPEC_TOL = 1e-10       # model vs implementation, spectra / waveforms (relative to the largest magnitude)
P_TOL = 1e-9           # property tolerance (relative on A, rad on p)
# model's cosine-sum window (lean CosWindow.window) vs scipy.signal.get_window, absolute.  Measured on the unchanged
# library: bit-identical (difference 0.0) for all four windows over every n in 2..299 and 600 random n up to 4096;
# 1e-14 allows a few ulps of a different libm cos per term and is 5 orders below the last digit of SciPy's coefficients.
WIN_TOL = 1e-14
# float32 samples.  NumPy >= 2 runs rfft, `s**2` / mean and scipy's detrend in single precision on float32 input.
# Measured on the unchanged library against the same sample values held as float64 (3 seeds x 4000 tones and Gaussian
# signals, n = 2..4096 and 65536, windows None / hann / flattop): csd / psd 5.9e-8 of the largest magnitude, rms
# 2.1e-7, detrend='linear' 1.2e-6; tone law read from float32 samples (2 seeds x 6000 whole-cycle tones, all seven
# windows): |c[k]| 6.6e-8 relative, phase 4.8e-8 rad, leakage 3.3e-8, Parseval 1.1e-7, round trip 5.6e-8.
# Stated tolerances: ~30 x the worst figure.  With a window or in tone_conv the library multiplies by a float64
# array first and the difference is exactly 0.
F32_TOL = 2e-6         # model vs implementation and float32-vs-float64 agreement, spectra (of the largest magnitude)
F32_RMS = 5e-6         # ... util.rms
F32_DETREND = 4e-5     # ... anything that runs scipy.signal.detrend on float32
P_TOL32 = 2e-6         # property tolerance on A (relative) and p (rad) when the samples are float32
INT_AMP = {'int16': 150, 'int32': 30000, 'int64': 10 ** 6}     # squares stay inside the dtype (util.rms computes s**2)
# full main-lobe width (null to null) in bins of SciPy's periodic cosine-sum windows
LOBE = {None: 0, 'hann': 4, 'hamming': 4, 'blackman': 6, 'flattop': 10, 'nuttall': 8, 'blackmanharris': 8}
# csd_to_signal(csd(S)) for a *batch* S (leading axes): see notes/C16.md "pending defect"; the demand is switched on
# once the integrator has decided (VERIF_PENDING=1 reproduces it)
import os
PENDING_BATCH_INVERSE = True    # repaired by fix 1c2f538, demanded since
WINDOWS = [None, 'hann', 'hamming', 'flattop', 'blackman', 'nuttall', 'blackmanharris']


def get_window(name, n):
    from scipy import signal
    return signal.get_window(name, n)


def make_signal(c):
    """the sample *values* (float64); `make_input` gives them in the caller's container"""
    dt = c.get('dtype')
    if c['kind'] == 'tone':
        n, k, fs = c['n'], c['k'], c['fs']
        t = np.arange(n) / fs
        f = k * fs / n
        s = c['A'] * np.sqrt(2) * np.cos(2 * np.pi * f * t + c['p'])
    elif dt in INT_AMP:
        a = min(INT_AMP[dt], max(1, int(c['A'])))
        return np.random.RandomState(c['seed']).randint(-a, a + 1, size=c['n']).astype(float)
    else:
        rs = np.random.RandomState(c['seed'])
        s = rs.randn(c['n']) * c['A']
        if c.get('dc'):
            s = s + c['dc']
    if dt == 'float32':
        s = s.astype(np.float32).astype(float)
    return s


def as_input(c, s):
    """the values `s` as the caller holds them: dtype float64 (default) / float32 / int16 / int32 / int64, and
    optionally a read-only array or a strided view"""
    dt = c.get('dtype')
    a = np.asarray(s).astype(dt) if dt else np.array(s, dtype=float)
    mem = c.get('mem')
    if mem == 'strided':
        big = np.zeros(a.shape[:-1] + (2 * a.shape[-1],), dtype=a.dtype)
        big[..., ::2] = a
        a = big[..., ::2]
    elif mem == 'readonly':
        a.setflags(write=False)
    return a


def tol_of(c, base=None):
    base = SPEC_TOL if base is None else base
    return max(base, F32_TOL) if c.get('dtype') == 'float32' else base


def fs_of(c):
    fs = c['fs']
    return int(fs) if c.get('fsrepr') == 'int' and float(fs).is_integer() else fs


def averaged(c, s):
    """tone: `avg` repetitions of s; random: a fresh signal of avg*n samples; then `extra < avg` trailing
    samples (which psd trims)."""
    if c['kind'] == 'tone':
        ss = np.tile(s, c['avg'])
    else:
        ss = np.random.RandomState(c['seed'] ^ 0x2545).randn(c['avg'] * c['n']) * c['A']
    if c['extra']:
        ss = np.concatenate([ss, np.full(c['extra'], 0.123 * c['A'])])
    if c.get('dtype') == 'float32':
        ss = ss.astype(np.float32).astype(float)
    elif c.get('dtype') in INT_AMP:
        ss = np.round(ss / max(np.max(np.abs(ss)), 1e-300) * min(INT_AMP[c['dtype']], max(1, int(c['A']))))
    return ss


def bins_of(c):
    n = c['n']
    m = n // 2 + 1
    if n <= 256:
        return list(range(m)), f'all:{m}'
    ks = sorted({0, 1, m - 1, m - 2} | {min(m - 1, max(0, c.get('k', 5) + d)) for d in (-2, -1, 0, 1, 2)}
                | set(c.get('probe', [])))
    return ks, ','.join(str(k) for k in ks)


def psd_bins(c):
    """a handful of bins for the averaged spectrum (cost of the naive DFT in the model)"""
    n = c['n']
    m = n // 2 + 1
    if c['avg'] * n <= 512:
        return bins_of(c)
    ks = sorted({0, 1, m - 1} | {min(m - 1, max(0, c.get('k', 5) + d)) for d in (-1, 0, 1)})
    return ks, ','.join(str(k) for k in ks)


def wrap(x):
    return (x + math.pi) % (2 * math.pi) - math.pi


def whole_cycle_ok(c):
    """bin k is an analysis frequency where the property claims A and p are read"""
    n, k, W = c['n'], c['k'], LOBE[c['window']]
    if c['window'] is None:
        return 0 < k and 2 * k < n
    return W < k and k < n / 2 - W


class C16(FloatSpec):
    PROP = 'C16'
    PROOF_MODULES = ['PsiProofs.C16']
    DESIGN_REF = 'DESIGN.md §6 C16'
    PARALLEL = 16
    TRUST = [
        'proof is over the real / complex numbers: floating-point round-off is NOT bounded by a theorem; the Float '
        'instance of the same definitions is compared with psiaudio.util on every run (1e-10 of the largest magnitude)',
        'modelled, not verified: np.fft.rfft / irfft = the DFT sum and its real inverse (imaginary parts of the DC '
        'and Nyquist bins ignored); np.mean, np.abs, np.angle; scipy.signal.get_window(name, n) for hann / hamming / '
        'blackman / flattop is transcribed (periodic cosine sum, SciPy coefficient tables) and its values are compared '
        'with the real get_window on every windowed case (1e-14 absolute; measured difference 0)',
        'detrend (scipy.signal.detrend) is not modelled: the identities are stated for detrend=None; the default '
        "detrend='linear' is exercised by the oracle with the tolerance 1/k^2 it can reach on a whole-cycle tone",
        'np.unwrap in util.phase is not modelled (phase compared with unwrap=False)',
    ]
    ASSUMPTIONS = ['csd_to_signal inversion is claimed for even lengths only (the function has no length argument)',
                   'tone law with a window is claimed (oracle) for bins farther than the full main-lobe width '
                   '(hann/hamming 4, blackman 6, flattop 10, nuttall/blackmanharris 8 bins) from DC and Nyquist; the theorem '
                   'csd_window_tone covers the larger range M < k < n/2 - M (M = 1, 1, 2, 4, 3, 3)']
    RULE = ('whole-cycle tones: every length 8..40 x every bin (no window) plus seeded random lengths (even/odd) up to '
            '4096 x random bin, amplitude 1e-3..1e3, phase in (-3.1, 3.1), fs, window in {None, hann, hamming, flattop, '
            'blackman, nuttall, blackmanharris}, averages 1..8 with 0..avg-1 trailing samples; seeded Gaussian signals with the same grids and '
            'batch shapes; level helpers on random values and arrays. A case is non-trivial when the signal is not '
            'constant; distinct = distinct case hash. Hardening: samples held as float32 / int16 / int32 / int64, read-only '
            'or strided; batch shapes (incl. size-1 axes) for csd, psd (averaged, trailing samples), tone_conv (scalar and '
            'array frequency), rms, rms_rfft; positional spelling; arguments compared with a copy after every call; '
            'level helpers on integers, arrays, lists, Series; signals of 2^16..2^17 (thorough 2^20) samples. Targeted pass: the '
            'same sample / spectrum array analysed twice, overwritten in place in between (assign, scale by 0.25).')
    exhaustive_note = {
        'quick': 'tones, no window: every length 8..40 x every bin 0..n/2',
        'thorough': 'tones, no window: every length 8..96 x every bin 0..n/2; hann: every length 24..64 x every bin',
    }

    # ---------------------------------------------------------------- generation
    def gen(self, rng, tier):
        quick = tier == 'quick'
        nmax_ex = 40 if quick else 96
        for n in range(8, nmax_ex + 1):
            for k in range(0, n // 2 + 1):
                yield self.tone_case(rng, n, k, None)
        if not quick:
            for n in range(24, 65):
                for k in range(0, n // 2 + 1):
                    yield self.tone_case(rng, n, k, 'hann')
        nr = 260 if quick else 5000
        for i in range(nr):
            big = rng.random() < (0.06 if quick else 0.1)
            n = rng.randint(257, 4096) if big else rng.randint(8, 256)
            if rng.random() < 0.15:
                n = rng.choice([8, 16, 64, 128, 256, 1024, 4096] if big or not quick else [8, 16, 64, 128, 256])
            w = rng.choice(WINDOWS)
            W = LOBE[w]
            r = rng.random()
            if r < 0.7 and n / 2 - W - 1 > W + 1:
                k = rng.randint(W + 1, math.ceil(n / 2 - W) - 1)
            else:
                k = rng.randint(0, n // 2)
            c = self.tone_case(rng, n, k, w)
            # how the caller holds the samples: float32 (wav data, acquisition hardware), read-only, strided
            c.update(dtype=rng.choice([None, None, 'float32']), mem=rng.choice([None, None, 'readonly', 'strided']),
                     fsrepr=rng.choice([None, 'int']))
            yield c
        # far beyond the usual sizes: 2^16 .. 2^17 samples (quick), 2^20 (thorough), even and odd
        for n in ([2 ** 16 + rng.choice([0, 1]), rng.randint(2 ** 16, 2 ** 17)] if quick else
                  [2 ** 20 - rng.choice([0, 1]), 2 ** 16 + 1, rng.randint(2 ** 16, 2 ** 18)]):   # (a 2^20 case costs ~40 s)
            w = rng.choice(WINDOWS)
            W = LOBE[w]
            c = self.tone_case(rng, n, rng.randint(W + 1, math.ceil(n / 2 - W) - 1), w)
            c.update(dtype=rng.choice([None, 'float32']), mem=rng.choice([None, 'readonly']))
            yield c
        for i in range(nr // 2):
            n = rng.randint(2, 200) if rng.random() < 0.9 else rng.randint(201, 1024)
            if i == 0:
                n = 2 ** 16 + rng.choice([0, 1, 3])
            avg = rng.randint(1, 8)
            yield {'kind': 'random', 'n': n, 'A': 10 ** rng.uniform(-3, 3), 'seed': rng.randint(0, 2 ** 31 - 1),
                   'dc': rng.choice([0.0, 0.0, rng.uniform(-2, 2)]), 'window': rng.choice(WINDOWS),
                   'avg': avg, 'extra': rng.randint(0, avg - 1), 'fs': float(rng.choice([1000, 44100, 97656.25])),
                   'batch': rng.choice([[], [2], [3, 2], [1], [1, 4]]),
                   'dtype': rng.choice([None, None, 'float32', 'int16', 'int32', 'int64']),
                   'mem': rng.choice([None, None, 'readonly', 'strided']), 'fsrepr': rng.choice([None, 'int'])}
        for i in range(nr // 2):
            yield {'kind': 'level', 'x': 10 ** rng.uniform(-8, 4), 'r': rng.choice([1.0, 20e-6, 10 ** rng.uniform(-6, 2)]),
                   'd': rng.choice([float(rng.randint(-40, 140)), rng.uniform(-120, 160)]),
                   'nb': rng.choice([float(rng.randint(1, 100000)), rng.uniform(0.5, 5e4)]),
                   'arr': [10 ** rng.uniform(-6, 3) for _ in range(rng.randint(0, 5))],
                   'bad': rng.choice([None, None, None, 0.0, -1.0]), 'xi': rng.choice([0, rng.randint(1, 2000)])}

    def tone_case(self, rng, n, k, w):
        avg = rng.randint(1, 8)
        return {'kind': 'tone', 'n': n, 'k': k, 'A': rng.choice([1.0, 10 ** rng.uniform(-3, 3)]),
                'p': rng.choice([0.0, 0.3, rng.uniform(-3.1, 3.1)]),
                'fs': float(rng.choice([1000, 25000, 44100, 97656.25, 100000, rng.uniform(100, 2e5)])),
                'window': w, 'avg': avg, 'extra': rng.randint(0, avg - 1)}

    # ---------------------------------------------------------------- model lines
    def model_lines(self, c):
        if c['kind'] == 'level':
            x, r, d, nb = f2b(c['x']), f2b(c['r']), f2b(c['d']), f2b(c['nb'])
            L = [f'dbf {x} {r}', f'dbf {x} {f2b(1.0)}', f'dbi {d} {r}', f'dbi {d} {f2b(1.0)}', f'dbtopa {d}',
                 f'patodb {x}', f's2b {d} {nb}', f'b2s {d} {nb}']
            L += [f'patodb {f2b(v)}' for v in c['arr']]
            if c['bad'] is not None:
                L += [f"dbf {f2b(c['bad'])} {f2b(1.0)}", f"patodb {f2b(c['bad'])}"]
            return L
        s = make_signal(c)
        n = c['n']
        w = c['window']
        ks, kspec = bins_of(c)
        # named windows are generated by the model itself (CosWindow.window, the object of theorem csd_window_tone) and
        # its values are compared with scipy.signal.get_window(name, n) below
        L = [f'sig {fl(s)}', 'win none' if w is None else f'cwin {w} {n}', f'csd {kspec}']
        L.append('rms')
        if c['kind'] == 'tone':
            f = c['k'] * c['fs'] / n
            L.append(f"csd {c['k']}")          # the tone's own bin (oracle target)
            # single-frequency estimator, through the window in force (toneConv / toneConvW of the model)
            L += [f"toneconv {f2b(c['fs'])} {f2b(f)}", f"tonepower {f2b(c['fs'])} {f2b(f)}"]
        if w is None and n <= 256:
            L.append(f'phase {self.phase_bins(c, s)}')
        if n % 2 == 0 and n <= 512:
            from psiaudio import util
            with quiet():
                spec = util.csd(s, window=w, detrend=None)
            L.append('spec ' + ','.join(f'{f2b(z.real)}:{f2b(z.imag)}' for z in spec))
            L.append('tosig')
            L.append('rmsrfft')
        if c['avg'] * n <= 4096:
            L.append(f'sig {fl(averaged(c, s))}')
            L.append(f"psd {c['avg']} {psd_bins(c)[1]}")
        return L

    def phase_bins(self, c, s):
        """bins whose phase is well conditioned and away from the ±pi cut"""
        from psiaudio import util
        with quiet():
            z = util.csd(s, detrend=None)
        m = np.abs(z)
        ok = [i for i in range(len(z)) if m[i] > 1e-3 * m.max() and abs(np.angle(z[i])) < 3.0 and m.max() > 0]
        return ','.join(str(i) for i in ok[:40]) or '-'

    # ---------------------------------------------------------------- implementation
    def impl_results(self, c):
        from psiaudio import util
        if c['kind'] == 'level':
            x, r, d, nb = c['x'], c['r'], c['d'], c['nb']
            R = [num(util.db(x, r)), num(util.db(x)), num(util.dbi(d, r)), num(util.dbi(d)), num(util.dbtopa(d)),
                 num(util.patodb(x)), num(util.spectrum_to_band_level(d, nb)), num(util.band_to_spectrum_level(d, nb))]
            if c['arr']:
                R += [num(v) for v in util.patodb(c['arr'])]       # sequence form, element by element
            if c['bad'] is not None:
                R += [num(util.db(c['bad'])), num(util.patodb(c['bad']))]
            return R
        sv = make_signal(c)
        s = as_input(c, sv)                 # the caller's own array (dtype, read-only, strided)
        n, w, fs = c['n'], c['window'], fs_of(c)
        T = tol_of(c)
        f32 = c.get('dtype') == 'float32'
        ks, _ = bins_of(c)
        z = util.csd(s, window=w, detrend=None)
        R = [('ok',), ('ok',) if w is None else vals(get_window(w, n), 0.0, WIN_TOL), cvals(z[ks], T),
             num(util.rms(s), F32_RMS if f32 else 1e-11)]
        if c['kind'] == 'tone':
            f = c['k'] * c['fs'] / n
            R.append(cvals([z[c['k']]], T))
            R += [cvals([util.tone_conv(s, fs, f, window=w, detrend=None)], T * max(1.0, n / 64)),
                  num(util.tone_power_conv(s, fs, f, window=w, detrend=None), T * max(1.0, n / 64),
                      T * c['A'] * max(1.0, n / 64))]
        if w is None and n <= 256:
            pb = self.phase_bins(c, sv)
            idx = [int(v) for v in pb.split(',')] if pb != '-' else []
            ph = np.asarray(util.phase(s, fs, unwrap=False))
            # bins down to 1e-3 of the largest magnitude: a float32 rfft error of F32_TOL x max is F32_TOL / 1e-3 rad there
            R.append(vals(ph[idx], 0.0, 1e3 * F32_TOL if f32 else 1e-8))
        if n % 2 == 0 and n <= 512:
            R.append(('ok',))
            R.append(vals(util.csd_to_signal(z), T))
            R.append(num(util.rms_rfft(z), F32_TOL if f32 else 1e-11))
        if c['avg'] * n <= 4096:
            ss = as_input(c, averaged(c, sv))
            R.append(('ok',))
            R.append(vals(util.psd(ss, fs, window=w, waveform_averages=c['avg'], detrend=None)[psd_bins(c)[0]], T))
        return R

    # ---------------------------------------------------------------- the property on the implementation
    def oracle(self, c, impl_out):
        with quiet():
            try:
                return self._oracle(c)
            except (ValueError, IndexError, ZeroDivisionError, TypeError) as e:
                return f'a spectrum helper raised {type(e).__name__}: {e} on a valid input ({self.describe(c)[:200]})'

    def _oracle(self, c):
        from psiaudio import util
        if c['kind'] == 'level':
            x, r, d, nb = c['x'], c['r'], c['d'], c['nb']
            t = 1e-9
            chk = [
                ('db(dbi(d, r), r)', float(util.db(util.dbi(d, r), r)), d, t),
                ('dbi(db(x, r), r)/x', float(util.dbi(util.db(x, r), r)) / x, 1.0, t),
                ('patodb(dbtopa(d))', float(util.patodb(util.dbtopa(d))), d, t),
                ('dbtopa(patodb(x))/x', float(util.dbtopa(util.patodb(x))) / x, 1.0, t),
                ('db(x) - 20 log10 x', float(util.db(x)), 20 * math.log10(x), t),
                ('patodb(x) - 20 log10(x/20e-6)', float(util.patodb(x)), 20 * math.log10(x / 20e-6), t),
                ('band level', float(util.spectrum_to_band_level(d, nb)), d + 10 * math.log10(nb), t),
                ('band -> spectrum -> band', float(util.spectrum_to_band_level(util.band_to_spectrum_level(d, nb), nb)), d, t),
            ]
            for name, got, want, tol in chk:
                if not abs(got - want) <= tol * max(1.0, abs(want)):
                    return f'{name} = {got!r}, expected {want!r} (x={x!r}, r={r!r}, d={d!r}, n={nb!r})'
            if c['arr']:
                a = np.asarray(util.patodb(c['arr']), dtype=float)
                b = np.array([float(util.patodb(v)) for v in c['arr']])
                if a.shape != b.shape or not np.allclose(a, b, rtol=1e-12, atol=0):
                    return f'patodb on a sequence differs from elementwise: {a!r} vs {b!r}'
                f = self._level_arrays(c)
                if f:
                    return f
            # whole numbers written as Python / NumPy integers are the same numbers
            xi = c.get('xi')
            if xi:
                for name, fn in (('db', util.db), ('dbi', util.dbi), ('dbtopa', util.dbtopa), ('patodb', util.patodb),
                                 ('spectrum_to_band_level(., 7)', lambda v: util.spectrum_to_band_level(v, 7)),
                                 ('band_to_spectrum_level(40, .)', lambda v: util.band_to_spectrum_level(40, v)),
                                 ('db(3, .)', lambda v: util.db(3, v)), ('dbi(3, .)', lambda v: util.dbi(3, v))):
                    want = float(fn(float(xi)))
                    for v in (int(xi), np.int64(xi), np.float64(xi), np.array(xi)):   # (NumPy takes log10 of an int16 in float32: not asked)
                        got = float(fn(v))
                        if not abs(got - want) <= 1e-12 * max(1.0, abs(want)):
                            return f'{name} of {v!r} ({type(v).__name__}) = {got!r}, of the float {float(xi)!r} = {want!r}'
            return None

        sv = make_signal(c)                 # the values
        s = as_input(c, sv)                 # what the caller hands over
        keep = np.array(s, copy=True)
        f = self._signal_laws(c, sv, s)
        if f is None and not (s.dtype == keep.dtype and np.array_equal(s, keep)):
            f = (f'a spectrum helper modified the caller\'s samples ({c.get("dtype") or "float64"}, n={c["n"]}, '
                 f'window={c["window"]})')
        if f is None:
            f = self._reuse_laws(c, sv)
        return f

    def _reuse_laws(self, c, sv):
        """hardening item 6 (histories): THE SAME ndarray analysed twice with the same options, its contents overwritten
        in place by the caller in between (`buf[:] = other`, `buf *= 0.25`) and nothing else analysed in between: the
        second reading is the reading of the new contents (that of a fresh array holding them), and what was returned
        for the first contents is left alone.  Signal buffers for csd / psd / phase / tone estimators / rms, spectrum
        buffers for csd_to_signal / rms_rfft."""
        from psiaudio import util
        n, w, fs, avg = c['n'], c['window'], fs_of(c), c['avg']
        if n < 2:
            return None
        dt = c.get('dtype')
        f32 = dt == 'float32'
        ST = F32_TOL if f32 else 1e-12
        cc = dict(c, mem=None if c.get('mem') == 'readonly' else c.get('mem'))       # (the caller writes into it)
        fq = (c['k'] if c['kind'] == 'tone' and c['k'] else max(1, n // 3)) * c['fs'] / n
        big = max(float(np.max(np.abs(sv))), 1e-300)
        other = sv[::-1] * 0.5 + 0.25 * big * np.cos(0.9 * np.arange(n))
        if dt in INT_AMP:
            other = np.round(other)
        elif f32:
            other = other.astype(np.float32).astype(float)
        DT = F32_DETREND if f32 else 1e-12
        readers = [
            ('csd(window, detrend=None)', lambda b: util.csd(b, window=w, detrend=None), ST),
            ("csd(window) [detrend='linear']", lambda b: util.csd(b, window=w), DT),
            ('psd(fs, window, detrend=None)', lambda b: util.psd(b, fs, window=w, detrend=None), ST),
            ('tone_conv(fs, f, window, detrend=None)', lambda b: util.tone_conv(b, fs, fq, window=w, detrend=None), ST),
            ('tone_power_conv(fs, f, window, detrend=None)',
             lambda b: util.tone_power_conv(b, fs, fq, window=w, detrend=None), ST),
            ('tone_power_conv(fs, f, window)', lambda b: util.tone_power_conv(b, fs, fq, window=w), DT),
            ('rms', lambda b: util.rms(b), F32_RMS if f32 else 1e-12),
        ]
        if n >= avg > 1:
            readers.append((f'psd(fs, window, waveform_averages={avg}, detrend=None)',
                            lambda b: util.psd(b, fs, window=w, waveform_averages=avg, detrend=None), ST))
        # angles: where the magnitude is well conditioned (a bin at 1e-3 of the largest one turns by ST / 1e-3)
        def well(b):
            m = np.abs(util.csd(np.array(b, dtype=float), window=w, detrend=None))
            return m > 1e-3 * max(float(m.max()), 1e-300)
        angle_readers = [
            ('phase(fs, window, unwrap=False)', lambda b: np.asarray(util.phase(b, fs, window=w, unwrap=False))),
        ]
        for how in ('assign', 'scale'):
            if how == 'scale' and dt in INT_AMP:
                continue                        # (an integer buffer cannot hold a quarter of its samples)
            for name, fn, tol in readers + [(a, b, None) for a, b in angle_readers]:
                buf = as_input(cc, sv)
                r1 = fn(buf)
                k1 = np.array(r1, copy=True)
                if how == 'assign':
                    buf[...] = other.astype(buf.dtype)
                else:
                    buf *= buf.dtype.type(0.25)
                r2 = fn(buf)                                                # the same object, new contents
                fresh = as_input(cc, np.array(buf, dtype=float))            # a new array holding the new contents
                want = fn(fresh)
                if not np.array_equal(np.asarray(r1), k1, equal_nan=True):
                    return (f'{name}: the result returned for the first contents of a buffer changed when the caller '
                            f'overwrote the buffer ({how}) and analysed it again (n={n}, window={w}, {dt or "float64"})')
                r2, want = np.asarray(r2), np.asarray(want)
                if tol is None:
                    sel = well(buf)
                    d = np.abs(wrap(np.where(sel, r2 - want, 0.0))) if r2.shape == want.shape else None
                    ok = d is not None and float(np.max(d, initial=0.0)) <= 1e3 * ST
                else:
                    scale = max(float(np.max(np.abs(want), initial=0.0)), 1e-300)
                    ok = r2.shape == want.shape and bool(np.all(np.abs(r2 - want) <= tol * scale))
                if not ok:
                    stale = r2.shape == k1.shape and np.allclose(r2, k1, rtol=1e-9, atol=0)
                    return (f'{name}: the same array analysed twice, overwritten in place ({how}) in between: the second '
                            f'reading differs from the reading of a fresh array with the new contents'
                            f'{" and equals the FIRST reading" if stale else ""} (n={n}, window={w}, {dt or "float64"}, '
                            f'mem={cc.get("mem")})')
        # spectrum buffers
        if n % 2 == 0:
            z1 = util.csd(sv, window=w, detrend=None)
            z2 = util.csd(other, window=w, detrend=None)
            for name, fn in (('csd_to_signal', util.csd_to_signal), ('rms_rfft', util.rms_rfft)):
                for how in ('assign', 'scale'):
                    zbuf = np.array(z1, copy=True)
                    r1 = fn(zbuf)
                    k1 = np.array(r1, copy=True)
                    if how == 'assign':
                        zbuf[...] = z2
                    else:
                        zbuf *= 0.25
                    r2 = np.asarray(fn(zbuf))
                    want = np.asarray(fn(np.array(zbuf, copy=True)))
                    scale = max(float(np.max(np.abs(want), initial=0.0)), 1e-300)
                    if not np.array_equal(np.asarray(r1), k1) or r2.shape != want.shape \
                            or not np.all(np.abs(r2 - want) <= 1e-12 * scale):
                        return (f'{name}: the same spectrum array converted twice, overwritten in place ({how}) in '
                                f'between: second result differs from that of a fresh array with the new contents, or '
                                f'the first result changed (n={n}, window={w})')
        return None

    def _signal_laws(self, c, sv, s):
        from psiaudio import util
        n, w, fs, A = c['n'], c['window'], fs_of(c), c['A']
        f32 = c.get('dtype') == 'float32'
        PT = P_TOL32 if f32 else P_TOL          # property tolerance (see the float32 measurement at the top)
        ST = F32_TOL if f32 else 1e-12          # "the same thing computed twice" tolerance
        if w == 'hann':
            # the window of theorem `csd_hann_tone` (hannW) is SciPy's periodic hann
            hw = 0.5 - 0.5 * np.cos(2 * np.pi * np.arange(n) / n)
            if np.max(np.abs(get_window('hann', n) - hw)) > 1e-15:
                return f"get_window('hann', {n}) is not 1/2 - 1/2 cos(2 pi j/n)"
        z = util.csd(s, window=w, detrend=None)
        if z.shape != (n // 2 + 1,):
            return f'csd of {n} samples has shape {z.shape}'
        big = float(np.max(np.abs(sv))) if n else 0.0
        # the same values in another container (integer / float32 dtype, read-only, strided) read the same
        if c.get('dtype') or c.get('mem'):
            zv = util.csd(sv, window=w, detrend=None)
            if not np.allclose(z, zv, rtol=0, atol=ST * max(float(np.max(np.abs(zv))), 1e-300)):
                return (f'csd of the same samples held as {c.get("dtype") or "float64"}/{c.get("mem") or "plain"} differs '
                        f'from csd of the float64 values by {np.max(np.abs(z - zv))!r} (n={n}, window={w})')
            r1, r2 = float(util.rms(s)), float(util.rms(sv))
            if not abs(r1 - r2) <= (F32_RMS if f32 else 1e-12) * r2:
                return f'rms of the same samples held as {c.get("dtype")} is {r1!r}, as float64 {r2!r} (n={n})'
            d1, d2 = util.csd(s, window=w), util.csd(sv, window=w)
            if not np.allclose(d1, d2, rtol=0, atol=(F32_DETREND if f32 else 1e-12) * max(big, 1e-300)):
                return (f"csd (detrend='linear') of the samples held as {c.get('dtype') or 'float64'} differs from the float64 "
                        f'reading by {np.max(np.abs(d1 - d2))!r} (n={n}, window={w})')
        # spelling of the arguments: positional = keyword; a window of ones = no window
        zp = util.csd(s, w, None)
        if not np.array_equal(zp, z):
            return f'csd(s, {w!r}, None) differs from csd(s, window={w!r}, detrend=None) (n={n})'
        if w is None:
            zb = util.csd(s, window='boxcar', detrend=None)
            if not np.allclose(zb, z, rtol=0, atol=ST * max(big, 1e-300)):
                return f"csd with window='boxcar' (all ones) differs from csd without a window (n={n})"
        # Parseval with the doubly counted DC / Nyquist bins (any signal, no window)
        if w is None:
            tot = float(np.sum(np.abs(z) ** 2))
            ms = float(np.mean(sv ** 2))
            extra = 0.5 * abs(z[0]) ** 2 + (0.5 * abs(z[-1]) ** 2 if n % 2 == 0 else 0.0)
            if not abs(tot - (ms + extra)) <= max(1e-9, 3 * PT if f32 else 0) * max(ms, 1e-300):
                return (f'Parseval: sum|csd|^2 = {tot!r}, mean square = {ms!r}, double-counted DC/Nyquist part '
                        f'= {extra!r} (n={n})')
            if not abs(float(util.rms(s)) - math.sqrt(ms)) <= (F32_RMS if f32 else 1e-12) * math.sqrt(ms):
                return f'rms(s) = {util.rms(s)!r}, sqrt(mean square) = {math.sqrt(ms)!r}'
        # spectrum -> signal inverts signal -> spectrum (even lengths)
        if n % 2 == 0 and n >= 2:
            zz = util.csd(s, detrend=None)
            zkeep = zz.copy()
            back = util.csd_to_signal(zz)
            if not np.array_equal(zz, zkeep):
                return f'csd_to_signal modified the spectrum it was given (n={n})'
            if back.shape != sv.shape or not np.max(np.abs(back - sv)) <= max(1e-9, PT if f32 else 0) * max(big, 1e-300):
                return f'csd_to_signal(csd(s)) differs from s by {np.max(np.abs(back - sv))!r} (n={n})'
        if c['kind'] == 'random':
            return self._random_laws(c, sv, s, z)

        # ---- whole-cycle tone ----
        k, p = c['k'], c['p']
        if not whole_cycle_ok(c):
            return None
        target = A * np.exp(1j * p)
        if abs(abs(z[k]) - A) > PT * A or abs(wrap(np.angle(z[k]) - p)) > PT:
            return (f'csd of a tone (A={A!r}, p={p!r}, n={n}, k={k}, window={w}, {c.get("dtype") or "float64"}) reads '
                    f'|c[k]| = {abs(z[k])!r}, angle = {np.angle(z[k])!r}')
        if w is None:
            others = np.delete(np.abs(z), k)
            if others.size and others.max() > PT * A:
                return f'csd of a whole-cycle tone (n={n}, k={k}) leaks {others.max()!r} into another bin (A={A!r})'
        # any averaging count, trailing samples trimmed
        ss = as_input(c, averaged(c, sv))
        sskeep = np.array(ss, copy=True)
        P = util.psd(ss, fs, window=w, waveform_averages=c['avg'], detrend=None)
        if P.shape != z.shape or abs(P[k] - A) > PT * A:
            return (f'psd(waveform_averages={c["avg"]}, {c["extra"]} trailing samples) of the tone reads '
                    f'{P[k] if P.shape == z.shape else P.shape!r} at bin {k}, A = {A!r} (n={n}, window={w})')
        Pp = util.psd(ss, fs, w, c['avg'], detrend=None)
        if not np.array_equal(P, Pp) or not np.array_equal(ss, sskeep):
            return (f'psd: positional window / waveform_averages differ from the keyword spelling, or the samples were '
                    f'modified (n={n}, avg={c["avg"]}, window={w})')
        # single-frequency estimator
        f = k * c['fs'] / n
        r = util.tone_conv(s, fs, f, window=w, detrend=None)
        tp = float(util.tone_power_conv(s, fs, f, window=w, detrend=None))
        if abs(tp - A) > PT * A or abs(wrap(np.angle(r) - p)) > PT:
            return (f'tone_conv on a whole-cycle tone (A={A!r}, p={p!r}, n={n}, k={k}, fs={fs!r}, window={w}) gives '
                    f'power {tp!r}, phase {np.angle(r)!r}')
        if util.tone_conv(s, fs, f, w, None) != r:
            return f'tone_conv(s, fs, f, {w!r}, None) differs from the keyword spelling (n={n}, k={k})'
        # the analysis frequency handed over as the caller's own array (0-d and 1-d), and re-used for the next call:
        # the estimate depends on the arguments' values only, and the arguments are still what the caller put there
        for farr in (np.array(f, dtype=np.double), np.array([f], dtype=np.double), [f], np.array([f, f / 2, f])):
            keep = np.array(farr, copy=True)
            a1 = np.asarray(util.tone_power_conv(s, fs, farr, window=w, detrend=None), dtype=float).reshape(-1)
            a2 = np.asarray(util.tone_power_conv(s, fs, farr, window=w, detrend=None), dtype=float).reshape(-1)
            p2 = np.angle(np.asarray(util.tone_conv(s, fs, farr, window=w, detrend=None)).reshape(-1))
            if not np.array_equal(np.asarray(farr), keep):
                return (f'tone estimators modified their arguments: frequency array {keep.tolist()!r} -> '
                        f'{np.asarray(farr).tolist()!r} (n={n}, k={k}, fs={fs!r})')
            if a1.shape != (keep.size,) or not np.array_equal(a1, a2):
                return f'tone_power_conv with {keep.size} frequencies returned shape {a1.shape} / differs between two calls'
            for j in (0, -1):
                if abs(a1[j] - A) > PT * A or abs(wrap(float(p2[j]) - p)) > PT:
                    return (f'tone estimators with the frequency given as {type(farr).__name__} {keep.tolist()!r}, called '
                            f'repeatedly on the same arguments: power {a1[j]!r}, phase {float(p2[j])!r}; A={A!r}, p={p!r} '
                            f'(n={n}, k={k}, fs={fs!r})')
        # defaults (detrend='linear'): the least-squares line through whole cycles of a sinusoid is not zero.  Its
        # slope is at most 6*sqrt(2)*A / ((n^2-1) sin(pi k/n)), and a unit ramp reads 1 / (sqrt(2) sin(pi k/n)) at
        # bin k after the csd scaling, so the reading at bin k moves by at most  A * 6 / ((n^2-1) sin^2(pi k/n))
        # — the stated tolerance of this part of the check (x1.05).
        bias = 6.0 / ((n * n - 1) * math.sin(math.pi * k / n) ** 2)
        if bias < 0.2:
            tol = 1.05 * bias + (F32_DETREND if f32 else 1e-9)
            tp = float(util.tone_power_conv(s, fs, f, window=w))
            ph = float(util.tone_phase_conv(s, fs, f, window=w))
            cd = util.csd(s, window=w)[k]
            if w is None and (abs(tp - A) > tol * A or abs(wrap(ph - p)) > 1.2 * tol or abs(cd - target) > tol * A):
                return (f"defaults (detrend='linear'): tone_power_conv {tp!r}, tone_phase_conv {ph!r}, csd[k] "
                        f'{cd!r} for A={A!r}, p={p!r}, n={n}, k={k} (tolerance {tol!r} = bound on the detrend bias)')
        return None

    def _random_laws(self, c, sv, s, z):
        from psiaudio import util
        n, w, fs, A = c['n'], c['window'], fs_of(c), c['A']
        f32 = c.get('dtype') == 'float32'
        ST = F32_TOL if f32 else 1e-12
        big = max(float(np.max(np.abs(sv))), 1e-300)
        # batch shapes: the last axis is time, leading axes are independent
        if c['batch']:
            rs = np.random.RandomState(c['seed'] ^ 0x5bd1)
            if c.get('dtype') in INT_AMP:
                a = min(INT_AMP[c['dtype']], max(1, int(A)))
                Sv = rs.randint(-a, a + 1, size=tuple(c['batch']) + (n,)).astype(float)
            else:
                Sv = rs.randn(*c['batch'], n) * A
                if f32:
                    Sv = Sv.astype(np.float32).astype(float)
            S = as_input(c, Sv)
            Skeep = np.array(S, copy=True)
            bigS = max(float(np.max(np.abs(Sv))), 1e-300)
            Z = util.csd(S, window=w, detrend=None)
            P = util.psd(S, fs, window=w, detrend=None)
            fq = (n // 3) * c['fs'] / n
            farr = np.array([fq, c['fs'] / n])
            T1 = util.tone_conv(S, fs, fq, window=w, detrend=None)
            TF = util.tone_conv(S, fs, farr, window=w, detrend=None)
            RM = util.rms(S)
            RR = util.rms_rfft(Z)
            if Z.shape != tuple(c['batch']) + (n // 2 + 1,) or P.shape != Z.shape or np.shape(T1) != tuple(c['batch']) \
                    or np.shape(TF) != (2,) + tuple(c['batch']) or np.shape(RM) != tuple(c['batch']) \
                    or np.shape(RR) != tuple(c['batch']):
                return (f'batch shape {c["batch"]} x {n} samples: csd {Z.shape}, psd {P.shape}, tone_conv {np.shape(T1)}, '
                        f'tone_conv with 2 frequencies {np.shape(TF)}, rms {np.shape(RM)}, rms_rfft {np.shape(RR)}')
            flat, flatv = S.reshape(-1, n), Sv.reshape(-1, n)
            for i, row in enumerate(flat):
                zr = util.csd(row, window=w, detrend=None)
                if not np.allclose(Z.reshape(-1, Z.shape[-1])[i], zr, rtol=1e-12, atol=ST * bigS):
                    return f'csd on batch shape {c["batch"]} differs from row-wise csd (row {i})'
                if not np.allclose(P.reshape(-1, P.shape[-1])[i], np.abs(zr), rtol=1e-12, atol=ST * bigS):
                    return f'psd on batch shape {c["batch"]} differs from row-wise |csd| (row {i})'
                t1 = util.tone_conv(row, fs, fq, window=w, detrend=None)
                if not abs(np.ravel(T1)[i] - t1) <= 1e-12 * bigS:
                    return f'tone_conv on batch shape {c["batch"]} differs from the row-wise estimate (row {i})'
                for j in (0, 1):
                    tj = util.tone_conv(row, fs, farr[j], window=w, detrend=None)
                    if not abs(TF.reshape(2, -1)[j, i] - tj) <= 1e-12 * bigS:
                        return (f'tone_conv with a frequency array on batch shape {c["batch"]}: entry [{j}] of row {i} '
                                f'differs from the single-frequency estimate')
                if not abs(np.ravel(RM)[i] - util.rms(row)) <= (F32_RMS if f32 else 1e-12) * bigS:
                    return f'rms on batch shape {c["batch"]} differs from the row-wise rms (row {i})'
                if not abs(np.ravel(RR)[i] - math.sqrt(float(np.sum(np.abs(zr) ** 2)))) <= max(ST, 1e-12) * bigS:
                    return f'rms_rfft on batch shape {c["batch"]} differs from sqrt(sum |csd|^2) of the row (row {i})'
            # averaging on a batch, trailing samples trimmed: row by row the single-signal reading
            avg = c['avg']
            if n >= avg:
                Pa = util.psd(S, fs, window=w, waveform_averages=avg, detrend=None)
                for i, row in enumerate(flat):
                    pr = util.psd(row, fs, window=w, waveform_averages=avg, detrend=None)
                    if Pa.shape[:-1] != tuple(c['batch']) or not np.allclose(Pa.reshape(-1, Pa.shape[-1])[i], pr, rtol=1e-12,
                                                                              atol=ST * bigS):
                        return (f'psd(waveform_averages={avg}) on batch shape {c["batch"]} x {n} differs from the row-wise '
                                f'reading (row {i})')
            if PENDING_BATCH_INVERSE and n % 2 == 0:
                back = util.csd_to_signal(util.csd(S, detrend=None))
                if back.shape != Sv.shape or not np.max(np.abs(back - Sv)) <= max(1e-9, ST) * bigS:
                    return (f'csd_to_signal(csd(S)) on batch shape {c["batch"]} x {n} differs from S by '
                            f'{np.max(np.abs(back - Sv)) if back.shape == Sv.shape else back.shape!r}')
            if not np.array_equal(S, Skeep):
                return f'a spectrum helper modified the caller\'s batch of samples (shape {S.shape}, {S.dtype})'
        # averaging: psd = mean of the segments' magnitudes, trailing samples trimmed
        avg = c['avg']
        ssv = averaged(c, sv)
        ss = as_input(c, ssv)
        P = util.psd(ss, fs, window=w, waveform_averages=avg, detrend=None)
        want = np.mean([np.abs(util.csd(ssv[i * n:(i + 1) * n], window=w, detrend=None)) for i in range(avg)], axis=0)
        if P.shape != want.shape or not np.allclose(P, want, rtol=1e-12, atol=ST * max(float(np.max(np.abs(ssv))), 1e-300)):
            return (f'psd(waveform_averages={avg}) with {c["extra"]} trailing samples differs from the mean of '
                    f'the segment magnitudes (segment length {n})')
        return None

    def _level_arrays(self, c):
        """array forms (ndarray, list, tuple, integer array, 2-D, read-only, Series) = the scalar form element by
        element; the caller's container is left alone; a Series comes back as a Series on the same index"""
        import pandas as pd
        from psiaudio import util
        arr, r = [float(v) for v in c['arr']], c['r']
        dbs = [20 * math.log10(v) for v in arr]
        fns = (('db', lambda a: util.db(a, r), arr, [float(util.db(v, r)) for v in arr]),
               ('patodb', util.patodb, arr, [float(util.patodb(v)) for v in arr]),
               ('dbi', lambda a: util.dbi(a, r), dbs, [float(util.dbi(v, r)) for v in dbs]),
               ('dbtopa', util.dbtopa, dbs, [float(util.dbtopa(v)) for v in dbs]),
               ('spectrum_to_band_level', lambda a: util.spectrum_to_band_level(a, c['nb']), dbs,
                [float(util.spectrum_to_band_level(v, c['nb'])) for v in dbs]),
               ('band_to_spectrum_level', lambda a: util.band_to_spectrum_level(a, c['nb']), dbs,
                [float(util.band_to_spectrum_level(v, c['nb'])) for v in dbs]))
        for name, fn, xs, want in fns:
            ro = np.array(xs)
            ro.setflags(write=False)
            forms = [np.array(xs), list(xs), tuple(xs), ro, pd.Series(xs, index=[f'r{i}' for i in range(len(xs))])]
            if len(xs) % 2 == 0:
                forms.append(np.array(xs).reshape(2, -1))
            if name in ('db', 'patodb'):
                forms.append(np.array(xs, dtype=np.float32))
            for a in forms:
                if name.endswith('level') and isinstance(a, (list, tuple)):
                    continue                # documented for a float level
                keep = np.array(a, dtype=float, copy=True)
                got = fn(a)
                if not np.array_equal(np.asarray(a, dtype=float), keep):
                    return f'{name} modified the {type(a).__name__} it was given'
                if isinstance(a, pd.Series) and not (isinstance(got, pd.Series) and got.index.equals(a.index)):
                    return f'{name} of a Series did not come back as a Series on the same index: {got!r}'
                g = np.asarray(got, dtype=float)
                tol = 1e-12
                # float32 values: the reference dB value is a float64 0-d array, so NumPy computes in float64
                wantv = np.array([float(fn(float(np.float32(v)))) for v in xs]) if getattr(a, 'dtype', None) == np.float32 \
                    else np.array(want)
                if g.shape != np.shape(a) or not np.allclose(g.ravel(), wantv, rtol=tol, atol=tol):
                    return (f'{name} on a {type(a).__name__}{np.shape(a)} = {g.tolist()!r}, element by element '
                            f'{list(wantv)!r}')
        return None

    def nontrivial(self, c, out):
        return c['kind'] == 'level' or c.get('A', 0) != 0

    def neighbours(self, c, rng):
        if c['kind'] == 'tone':
            for dn in (-2, -1, 0, 1, 2):
                for dk in (-1, 0, 1):
                    n, k = c['n'] + dn, c['k'] + dk
                    if n >= 4 and 0 <= k <= n // 2:
                        d = dict(c)
                        d.update(n=n, k=k)
                        yield d
            for w in WINDOWS:
                d = dict(c)
                d['window'] = w
                yield d

    def shrink_candidates(self, c):
        if c['kind'] == 'tone':
            for upd in ({'avg': 1, 'extra': 0}, {'window': None}, {'A': 1.0}, {'p': 0.3}, {'fs': 1000.0},
                        {'n': c['n'] // 2, 'k': c['k'] // 2}, {'n': c['n'] - 1}, {'k': c['k'] - 1}):
                d = dict(c)
                d.update(upd)
                if d != c and d['n'] >= 4 and 0 <= d['k'] <= d['n'] // 2:
                    yield d
        elif c['kind'] == 'random':
            for upd in ({'avg': 1, 'extra': 0}, {'window': None}, {'batch': []}, {'dc': 0.0}, {'n': c['n'] // 2}):
                d = dict(c)
                d.update(upd)
                if d != c and d['n'] >= 2:
                    yield d


SPEC = C16()
