"""Shared op language, implementation adapter and helpers for C02 / C03 / C04 (psiaudio/queue.py).

A case is
  {'kind': str, 'policy': fifo|interleaved|random|blockedrandom|grouped|blockedfifo,
   'keep': 0|1, 'gsize': int, 'seed': int, 'fs': float, 't0': float,
   'stims': [{'src': arr|fixed|cos2, 'len': L, 'frac': f, 'trials': T, 'delays': [d, ...]}],
   'ops': [['pop', n] | ['pause', m|None] | ['resume', m|None]]}
Optional fields (absent = the plain spelling), all about HOW the caller says the same thing:
  case:  ctor kw|pos|setfs|registry, fsrep int|np, t0rep skip|int|np, build extend|mixed|extend-bcast|pos,
         clone 0|1 (use q.clone() of the loaded queue), shadow same|diff (a second queue fed with the same source
         objects and driven between the ops), meddle 0|1 (the caller scribbles over everything it passed in or got
         back), nrep np64|np32|kw|posdec|mix (pop_buffer argument), trep np|kw (pause/resume argument), enc (array
         value encoding base for long waveforms), share scratch (the caller builds its stimuli in ONE scratch object per
         kind - an ndarray re-filled in place, a FixedWaveform whose array is re-bound, an enveloped tone whose carrier
         frequency is stepped - and appends that same object again and again: the queue must hold a snapshot per append),
         reent [[K, 'p'|'pt'], ...] (the 'added' consumer calls q.pause() / q.pause(info['t0']) from inside the K-th
         notification, i.e. while pop_buffer is being served; C04)
  stim:  trep np64|np32|float (trial count), dform none|int|np|gen|list|tuple|ndarray (delays argument),
         meta 0|1 (metadata dict), dtype f4|i4|i8|i2|strided, xdur / declare (explicit duration=), late 0|1,
         same_as j (the very same source object as stimulus j < i, unchanged, appended again under its own key)
  ops:   ['append', i] (stimulus i, marked late, is appended at that point), ['popnd', n] = pop_buffer(n, decrement=False)
Positions m are sample positions relative to the queue start; the adapter passes
t = t0 + m/fs.  Delays are in sample units (possibly fractional); the adapter passes d/fs and the
model gets int(round((d/fs)*fs)) — the code's own expression.
"""
import copy
import itertools
import json
import math
import signal

import numpy as np

ENC = 4096          # arrays hold (key+1)*ENC + j + 1: value -> (key, j) readable


# --------------------------------------------------------------------------
# building the real objects
# --------------------------------------------------------------------------

_DTYPES = {'f4': np.float32, 'i4': np.int32, 'i8': np.int64, 'i2': np.int16}


def make_source(st, key, fs, enc=ENC):
    """Returns (source object, len in samples, dur on the grid, reference waveform)."""
    from psiaudio import stim
    L = st['len']
    if st['src'] in ('arr', 'fixed'):
        w = np.arange(1, L + 1, dtype=np.float64) + (key + 1) * enc
        a = w
        dt = st.get('dtype')
        if dt in _DTYPES:
            a = w.astype(_DTYPES[dt])          # the same values in another dtype (all exactly representable)
        elif dt == 'strided':
            base = np.zeros(2 * L + 1)
            base[1::2] = w
            a = base[1::2]                     # a non-contiguous view
        if st['src'] == 'arr':
            return a, L, dur_grid(L / fs, fs), w
        g = stim.FixedWaveform(fs, a)
        return g, int(g.n_samples()), dur_grid(g.get_duration(), fs), w
    if st['src'] == 'cos2':
        from psiaudio.calibration import FlatCalibration
        cal = FlatCalibration.as_attenuation()
        tone = stim.ToneFactory(fs=fs, level=0, frequency=fs / (7.3 + key), calibration=cal)
        rise = min(2, L // 2) / fs
        g = stim.Cos2EnvelopeFactory(fs=fs, start_time=0, rise_time=rise,
                                     duration=(L + st.get('frac', 0)) / fs, input_factory=tone)
        r = copy.deepcopy(g)
        r.reset()
        n = int(r.n_samples())
        ref = r.next(n)
        return g, n, dur_grid(g.get_duration(), fs), ref
    raise ValueError(st['src'])


def dur_grid(duration, fs):
    """Number of samples a trial of that duration occupies on the grid: round(duration*fs), the count a generator
    emits for it (GateFactory: int(round(duration*fs))) and what the queue compares a pause position with."""
    return int(round(duration * fs))


def exact_dur(st):
    """Number of samples the stimulus emits per trial (independent of any float of the library): the array length,
    or round(len + frac) for the enveloped generator whose duration is (len + frac)/fs (frac is never a tie)."""
    from fractions import Fraction
    if st['src'] == 'cos2':
        return int(round(Fraction(st['len']) + Fraction(str(st.get('frac', 0))))) + st.get('xdur', 0)
    return st['len'] + st.get('xdur', 0)


def delay_samples(d, fs):
    return int(round((d / fs) * fs))


_CLS = {'fifo': 'FIFOSignalQueue', 'interleaved': 'InterleavedFIFOSignalQueue', 'random': 'RandomSignalQueue',
        'blockedrandom': 'BlockedRandomSignalQueue', 'grouped': 'GroupedFIFOSignalQueue',
        'blockedfifo': 'BlockedFIFOSignalQueue'}
_REG = {'fifo': 'first-in, first-out', 'interleaved': 'interleaved first-in, first-out',
        'blockedfifo': 'blocked first-in, first-out', 'grouped': 'grouped first-in, first-out',
        'random': 'random', 'blockedrandom': 'blocked random'}


def fs_value(case):
    """The sampling rate in the representation the caller uses (the same number)."""
    fs = case['fs']
    r = case.get('fsrep')
    if r == 'int' and float(fs).is_integer():
        return int(fs)
    if r == 'np':
        return np.float64(fs)
    return fs


def make_queue(case, variant=None):
    """Build the queue through the constructor spelling named by case['ctor'].
    variant='diff': the same class with every option changed (for the bystander queue)."""
    from psiaudio import queue as Q
    fs = fs_value(case)
    p = case['policy']
    ctor = case.get('ctor')
    keep = bool(case.get('keep', 1))
    gsize = case.get('gsize', 0)
    seed = case.get('seed', 0)
    if variant == 'diff':
        keep, gsize, seed = (not keep), gsize + 1, seed + 1
    cls = Q.queues[_REG[p]] if ctor == 'registry' else getattr(Q, _CLS[p])
    kw = {} if ctor == 'setfs' else {'fs': fs}
    pos = ctor == 'pos'
    if p in ('fifo', 'random'):
        q = cls(fs) if pos else cls(**kw)
    elif p == 'interleaved':
        q = cls(keep, **kw) if pos else cls(keep_complete_waveforms=keep, **kw)
    elif p == 'blockedrandom':
        if not keep or ctor == 'registry':
            kw['keep_complete_waveforms'] = keep      # accepted (inherited option), has no effect on this class
        q = cls(seed, **kw) if pos else cls(seed=seed, **kw)
    elif p == 'grouped':
        q = cls(gsize, **kw) if pos else cls(group_size=gsize, **kw)
    elif p == 'blockedfifo':
        q = cls(**kw)
    else:
        raise ValueError(p)
    if ctor == 'setfs':
        q.set_fs(fs)
    return q


# --------------------------------------------------------------------------
# running a case on the real code
# --------------------------------------------------------------------------

class HangError(BaseException):
    """The implementation did not return within the per-operation time limit."""


def _on_alarm(signum, frame):
    raise HangError()


OP_TIME_LIMIT = 20.0     # CPU seconds (ITIMER_VIRTUAL) per operation; a pop of a few thousand samples takes milliseconds,
                         # cancelling ten thousand trials about a second. CPU time, not wall time: a loaded machine must
                         # not turn a slow operation into a HANG verdict (it did, once, in a thorough run under load 40)


def guarded(fn, limit=None):
    """Run fn() under the per-operation watchdog. Returns 'ok', 'err HANG' or 'err <Class>'."""
    status = 'ok'
    old_handler = signal.signal(signal.SIGVTALRM, _on_alarm)
    signal.setitimer(signal.ITIMER_VIRTUAL, limit or OP_TIME_LIMIT)
    try:
        fn()
    except HangError:
        status = 'err HANG'
    except Exception as e:   # noqa: the class name is the observation
        status = f'err {type(e).__name__}'
    finally:
        signal.setitimer(signal.ITIMER_VIRTUAL, 0)
        signal.signal(signal.SIGVTALRM, old_handler)
    return status


class Trace:
    """Raw observations of one run (for the oracles) + canonical lines (for the diff)."""

    def __init__(self):
        self.lines = []
        self.steps = []        # per op: dict(status, out, c0, add, rm, ts, empty, rem, ct, cr)
        self.draws = []
        self.perms = []
        self.extra_perms = []
        self.lens = []
        self.durs = []
        self.refs = []
        self.zero_at = []
        self.delays = []       # per key: list of delays in samples (cycle)
        self.added = []        # (key, k, dur, ongrid, payload_ok)
        self.added2 = []       # what a second 'added' consumer saw: (key, k)
        self.removed = []      # uids in notification order
        self.n_empty = 0       # number of 'empty' notifications so far
        self.reent = []        # re-entrant calls made from inside an 'added' notification (case['reent'])
        self.recording = True  # False while a bystander queue is being driven


def _decode(out, c0, tr, case, live):
    """Map real samples back to cells. Encoded arrays are read off the value; a Cos2Envelope sample is
    looked up bit-exactly in the reference waveforms of the cos2 stimuli (preferring the continuation
    of the previous cell, then the position implied by a notified live trial `live` = [(key, k)])."""
    stims = case['stims']
    enc = case.get('enc', ENC)
    out = np.asarray(out)
    alias = [_alias(stims, i) for i in range(len(stims))]
    has_alias = any(a != i for i, a in enumerate(alias))
    if has_alias:
        stims = [eff_stim(stims, i) for i in range(len(stims))]
    if len(out) > 20000 and not has_alias and not any(st['src'] == 'cos2' for st in stims):
        return _decode_fast(out, tr, stims, enc)

    def owner(p, kk):
        # two stimuli queued from the very same object carry the same values: the sample belongs to the one whose
        # notified trial covers the position
        if has_alias:
            for key, k in live:
                if alias[key] == kk and k <= p < k + tr.lens[key]:
                    return key
        return kk
    cells = []
    cos = [i for i, st in enumerate(stims) if st['src'] == 'cos2']
    prev = None
    for i, v in enumerate(out):
        v = float(v)
        if v == 0.0:
            cells.append(('Z',))
            prev = None
            continue
        kk = int(v // enc) - 1
        jj = int(v % enc) - 1
        if v == int(v) and 0 <= kk < len(stims) and stims[kk]['src'] in ('arr', 'fixed') \
                and 0 <= jj < tr.lens[kk]:
            cells.append(('W', owner(c0 + i, kk), jj))
            prev = None
            continue
        p = c0 + i
        hit = None
        if prev is not None and prev[2] + 1 < tr.lens[prev[1]] and tr.refs[prev[1]][prev[2] + 1] == v:
            hit = ('W', prev[1], prev[2] + 1)
        if hit is None:
            for key, k in live:
                if key in cos and k <= p < k + tr.lens[key] and tr.refs[key][p - k] == v:
                    hit = ('W', key, p - k)
                    break
        if hit is None:
            for key in cos:
                js = np.flatnonzero(np.asarray(tr.refs[key]) == v)
                if len(js):
                    hit = ('W', key, int(js[0]))
                    break
        cells.append(hit or ('X',))
        prev = hit
    return cells


_Z = ('Z',)
_X = ('X',)


def _decode_fast(out, tr, stims, enc):
    """Vectorised decoding of a long buffer of encoded array values (same result as the loop above)."""
    v = out.astype(np.float64)
    kk = (v // enc).astype(np.int64) - 1
    jj = (v % enc).astype(np.int64) - 1
    lens = np.array(tr.lens + [0], dtype=np.int64)
    okk = (kk >= 0) & (kk < len(stims))
    good = (v != 0) & (v == np.floor(v)) & okk & (jj >= 0) & (jj < lens[np.where(okk, kk, len(stims))])
    zero = v == 0
    cells = [None] * len(v)
    for i in range(len(v)):
        cells[i] = _Z if zero[i] else (('W', int(kk[i]), int(jj[i])) if good[i] else _X)
    return cells


def rle(cells):
    segs = []
    for c in cells:
        if c[0] == 'Z':
            if segs and segs[-1][0] == 'Z':
                segs[-1][1] += 1
            else:
                segs.append(['Z', 1])
        elif c[0] == 'X':
            if segs and segs[-1][0] == 'X':
                segs[-1][1] += 1
            else:
                segs.append(['X', 1])
        else:
            if segs and segs[-1][0] == 'W' and segs[-1][1] == c[1] and segs[-1][2] + segs[-1][3] == c[2]:
                segs[-1][3] += 1
            else:
                segs.append(['W', c[1], c[2], 1])
    if not segs:
        return '-'
    return ','.join(f'{s[0]}{s[1]}' if s[0] in 'ZX' else f'W{s[1]}:{s[2]}+{s[3]}' for s in segs)


def _lst(l):
    return ','.join(str(x) for x in l) if len(l) else '-'


_CACHE = {}


def run_case(case):
    key = json.dumps(case, sort_keys=True)
    tr = _CACHE.get(key)
    if tr is None:
        tr = _run_case(case)
        if len(_CACHE) > 4000:
            _CACHE.clear()
        _CACHE[key] = tr
    return tr


def _run_case(case):
    fs, t0 = case['fs'], case['t0']
    tr = Trace()
    real_randint = np.random.randint
    real_RS = np.random.RandomState
    state = np.random.get_state()

    def rec_randint(*a, **k):
        r = real_randint(*a, **k)
        if tr.recording:
            tr.draws.append(int(r))
        return r

    recorders = []

    class RecRS(real_RS):
        def __init__(self, *a, **k):
            super().__init__(*a, **k)
            recorders.append(self)

        def shuffle(self, x):
            super().shuffle(x)
            if tr.recording:
                tr.perms.append([int(v) for v in x])

    def rewire(q):
        """copy.deepcopy turns the recording subclass back into a plain RandomState: put a recorder with the
        same state in its place (whatever the attribute is called) so the clone's shuffles are seen too."""
        for name, v in list(vars(q).items()):
            if isinstance(v, real_RS) and not isinstance(v, RecRS):
                r = RecRS()
                r.set_state(v.get_state())
                setattr(q, name, r)
                recorders[:] = [r]

    np.random.seed(case.get('seed', 0) & 0x7FFFFFFF)
    np.random.randint = rec_randint
    np.random.RandomState = RecRS
    try:
        q = make_queue(case)
    finally:
        np.random.RandomState = real_RS
    try:
        _drive(case, q, tr, fs, t0, rewire)
        # continue the queue's own shuffle stream a little, so a model that needs one more
        # block than the code used still reads genuine draws
        if recorders:
            n = len(tr.perms)
            for _ in range(4):
                a = np.arange(len(case['stims']))
                recorders[0].shuffle(a)
            tr.extra_perms = tr.perms[n:]
            tr.perms = tr.perms[:n]
    finally:
        np.random.randint = real_randint
        np.random.set_state(state)
    return tr


def _trials_value(st):
    T = st['trials']
    r = st.get('trep')
    return {'np64': np.int64, 'np32': np.int32, 'float': float}.get(r, int)(T)


def _n_presentations_bound(case):
    return sum(s['trials'] for s in case['stims']) + 5


def _delays_value(st, fs, bound):
    """The delays argument in the spelling named by st['dform'] (always the same sequence of delays)."""
    ds = [d / fs for d in st['delays']]
    f = st.get('dform')
    if f == 'none' and st['delays'] == [0]:
        return None
    if f == 'int' and len(ds) == 1 and float(ds[0]).is_integer():
        return int(ds[0])
    if f == 'np' and len(ds) == 1:
        return np.float64(ds[0])
    if f == 'gen':
        def forever():
            while True:
                for d in ds:
                    yield d
        return forever()
    if f in ('list', 'tuple', 'ndarray'):
        # a finite sequence: one entry per trial that can possibly be set up
        seq = [ds[i % len(ds)] for i in range(bound)]
        return seq if f == 'list' else tuple(seq) if f == 'tuple' else np.array(seq)
    return ds[0] if len(ds) == 1 else itertools.cycle(ds)


def _meta_value(st, i):
    return {'stim': i, 'tag': f'm{i}', 'levels': [i, i + 1]} if st.get('meta') else None


def _alias(stims, i):
    """The stimulus whose values stimulus i carries (same_as chains resolved)."""
    seen = 0
    while stims[i].get('same_as') is not None and seen < len(stims):
        i, seen = stims[i]['same_as'], seen + 1
    return i


_OWN_FIELDS = ('trials', 'delays', 'late', 'trep', 'dform', 'meta', 'declare', 'xdur', 'same_as')


def eff_stim(stims, i):
    """Stimulus i with the source fields (src, len, frac, dtype) of the stimulus whose object it re-uses."""
    a = _alias(stims, i)
    if a == i:
        return stims[i]
    st = {k: v for k, v in stims[a].items() if k not in _OWN_FIELDS}
    st.update({k: v for k, v in stims[i].items() if k in _OWN_FIELDS})
    return st


def _present(case, srcs, i, pool):
    """The object the caller hands to append() for stimulus i.  Plain cases: the stimulus' own object.  case['share']:
    one scratch object per kind, re-filled / re-parametrised with stimulus i's content just before the call (what a
    caller does that synthesises its stimuli into a work buffer, or steps the level / frequency attribute of one
    factory in a loop).  st['same_as']: the unchanged object of an earlier stimulus."""
    src = srcs[i][0]
    st = case['stims'][i]
    if st.get('same_as') is not None:
        return srcs[_alias(case['stims'], i)][0]
    if not case.get('share'):
        return src
    if isinstance(src, np.ndarray):
        if not src.flags.c_contiguous:
            return src
        k = ('arr', src.shape, src.dtype.str)
        if k not in pool:
            pool[k] = np.empty_like(src)
        pool[k][...] = src                      # the scratch array, re-filled in place
        return pool[k]
    wf = getattr(src, 'waveform', None)
    if isinstance(wf, np.ndarray):              # one FixedWaveform factory, its array re-bound before each append
        if 'fixed' not in pool:
            pool['fixed'] = copy.copy(src)
        pool['fixed'].waveform = wf
        pool['fixed'].reset()
        return pool['fixed']
    inner = getattr(src, 'input_factory', None)
    if inner is not None and hasattr(inner, 'frequency'):
        # one enveloped-tone factory per envelope shape; the carrier frequency attribute is stepped
        k = ('cos2', int(src.n_samples()), repr(src.duration), repr(src.rise_time))
        if k not in pool:
            pool[k] = copy.deepcopy(src)
        pool[k].input_factory.frequency = inner.frequency
        return pool[k]
    return src


def _load(case, q, fs, srcs, bound, keys=None, upto=None, pool=None):
    """append / extend the stimuli that are present from the start; returns their keys."""
    out = []
    pending = []
    pool = {} if pool is None else pool
    build = case.get('build')      # how the caller fills the queue: append() each, extend() all, or a mixture
    if case.get('share') and build != 'pos':
        build = None               # a scratch object is re-filled between append() calls (extend() takes all at once)
    for i, st in enumerate(case['stims']):
        if st.get('late'):
            continue
        src, declared = _present(case, srcs, i, pool), srcs[i][1]
        T, delays, meta = _trials_value(st), _delays_value(st, fs, bound), _meta_value(st, i)
        if build in ('extend', 'extend-bcast') or (build == 'mixed' and i > 0):
            pending.append((src, T, delays, declared, meta))
        elif build == 'pos':
            out.append(q.append(src, T, delays, declared, meta))
        else:
            kw = {}
            if meta is not None:
                kw['metadata'] = meta
            out.append(q.append(src, T, delays=delays, duration=declared, **kw))
    if pending:
        cols = [list(c) for c in zip(*pending)]
        if build == 'extend-bcast':
            # scalar arguments are broadcast by extend(); sequences in other container types
            early = [st for st in case['stims'] if not st.get('late')]
            if len({st['trials'] for st in early}) == 1:
                cols[1] = cols[1][0]
            else:
                cols[1] = np.array([int(t) for t in cols[1]])
            if all(len(st['delays']) == 1 and st.get('dform') is None for st in early) \
                    and len({st['delays'][0] for st in early}) == 1:
                cols[2] = cols[2][0]
            else:
                cols[2] = tuple(cols[2])
            if all(d is None for d in cols[3]):
                cols[3] = None
            else:
                cols[3] = tuple(cols[3])
            if all(m is None for m in cols[4]):
                cols[4] = None
            out.extend(q.extend(tuple(cols[0]), cols[1], cols[2], cols[3], cols[4]))
        else:
            out.extend(q.extend(cols[0], cols[1], delays=cols[2], duration=cols[3], metadata=cols[4]))
    return out


def _append_one(case, q, fs, srcs, i, bound, pool=None):
    st = case['stims'][i]
    src, declared = _present(case, srcs, i, {} if pool is None else pool), srcs[i][1]
    return q.append(src, _trials_value(st), delays=_delays_value(st, fs, bound), duration=declared,
                    metadata=_meta_value(st, i))


def _scribble_sources(case, srcs, only=None):
    """The caller re-uses its own arrays after having queued them."""
    for i, ((src, _), st) in enumerate(zip(srcs, case['stims'])):
        if (st.get('late') and only is None) or (only is not None and i != only):
            continue
        a = src if isinstance(src, np.ndarray) else getattr(src, 'waveform', None)
        if isinstance(a, np.ndarray) and a.flags.writeable:
            a[...] = 3


def _drive(case, q, tr, fs, t0, rewire=lambda q: None):
    t0rep = case.get('t0rep')
    if t0rep == 'skip' and t0 == 0:
        pass
    elif t0rep == 'int' and float(t0).is_integer():
        q.set_t0(int(t0))
    elif t0rep == 'np':
        q.set_t0(np.float64(t0))
    else:
        q.set_t0(t0)
    keys = []
    infos = []
    reent = {int(e[0]): e[1] for e in (case.get('reent') or [])}
    metas = [_meta_value(st, i) for i, st in enumerate(case['stims'])]
    declared_s = {}

    def on_added(info):
        k = int(round((info['t0'] - t0) * fs))
        ongrid = (info['t0'] == t0 + k / fs)
        key = keys.index(info['key'])
        infos.append(info)
        ok = info['metadata'] == metas[key]
        tr.added.append((key, k, dur_grid(info['duration'], fs), ongrid, bool(ok)))
        how = reent.get(len(tr.added) - 1)
        if how:
            # the consumer of the notification holds the queue right now, while pop_buffer is being served
            ev = {'K': len(tr.added) - 1, 'how': how, 'pos': k, 'key': key, 'status': 'raised', 'rm': [],
                  'rem0': [int(q.remaining_trials(x)) for x in keys], 'ts0': int(round(q.get_ts() * fs))}
            tr.reent.append(ev)
            nrm = len(tr.removed)
            try:
                if how == 'pt':
                    q.pause(info['t0'])
                else:
                    q.pause()
                ev['status'] = 'ok'
            finally:
                ev['rm'] = tr.removed[nrm:]
                ev['rem1'] = [int(q.remaining_trials(x)) for x in keys]
                ev['ts1'] = int(round(q.get_ts() * fs))

    def on_added2(info):
        tr.added2.append((keys.index(info['key']), int(round((info['t0'] - t0) * fs))))

    def on_removed(info):
        uid = next((i for i, a in enumerate(infos) if a is info), -1)
        tr.removed.append(uid)

    def on_empty(info):
        tr.n_empty += 1

    bound = _n_presentations_bound(case)
    srcs = []
    for i in range(len(case['stims'])):
        st = eff_stim(case['stims'], i)
        src, n, dur, ref = make_source(st, _alias(case['stims'], i), fs, case.get('enc', ENC))
        tr.lens.append(n)
        tr.durs.append(dur)
        tr.refs.append(ref)
        tr.zero_at.append([int(j) for j in np.flatnonzero(np.asarray(ref) == 0)])
        tr.delays.append([delay_samples(d, fs) for d in st['delays']])
        if st.get('xdur'):
            # the caller declares a duration different from the waveform's (append(..., duration=...))
            dur = dur + st['xdur']
            tr.durs[-1] = dur
        declared = dur / fs if (st.get('xdur') or st.get('declare')) else None
        srcs.append((src, declared))
    pool = {}                  # the caller's scratch objects (case['share'])
    keys.extend(_load(case, q, fs, srcs, bound, pool=pool))
    for i, st in enumerate(case['stims']):
        if not st.get('late'):
            tr.lines.append(f'ok {i}')

    shadow = None
    if case.get('shadow'):
        # a bystander queue fed with the very same source objects, driven between the operations
        tr.recording = False
        shadow = make_queue(case, variant='diff' if case['shadow'] == 'diff' else None)
        st0 = t0 + (1.5 if case['shadow'] == 'diff' else 0)
        shadow.set_t0(st0)
        _load(case, shadow, fs, srcs, bound, pool=pool)
        tr.recording = True
    if case.get('clone'):
        # the caller works with a clone of the loaded queue; the original is used too
        original, q = q, q.clone()
        rewire(q)
        tr.recording = False
        g = np.random.get_state()
        if guarded(lambda: original.pop_buffer(23)) == 'err HANG':
            original = None
        np.random.set_state(g)       # the bystander's draws are not part of this case's random stream
        tr.recording = True
        if shadow is None:
            shadow, st0 = original, t0
    if case.get('meddle'):
        _scribble_sources(case, srcs)

    q.connect(on_added, 'added')
    q.connect(on_added2)                       # second consumer, default event
    q.connect(on_removed, event='removed')
    q.connect(on_empty, 'empty')
    nrep = case.get('nrep')
    trep = case.get('trep')

    def time_arg(m):
        t = t0 + m / fs
        return np.float64(t) if trep == 'np' else t

    dead = False
    held = None
    for j, op in enumerate(case['ops']):
        if dead:
            tr.lines.append('dead')
            tr.steps.append({'op': op, 'status': 'dead'})
            continue
        if op[0] == 'append':
            keys.append(_append_one(case, q, fs, srcs, op[1], bound, pool))
            if case.get('meddle'):
                _scribble_sources(case, srcs, only=op[1])
            tr.lines.append(f'ok {op[1]}')
            tr.steps.append({'op': op, 'status': 'ok', 'cells': [], 'add': [], 'rm': [], 'n_out': 0,
                             'ts': int(round(q.get_ts() * fs)), 'ts_exact': True, 'aux': True})
            continue
        if shadow is not None:
            tr.recording = False
            g = np.random.get_state()

            def bystander():
                shadow.pop_buffer((7 * j + 3) % 11 + 1)
                if j % 5 == 3:
                    shadow.pause(st0 + (int(round(shadow.get_ts() * fs)) // 2) / fs)
                    shadow.resume()
            if guarded(bystander) == 'err HANG':      # the bystander's own fate is not the subject of this case
                shadow = None
            np.random.set_state(g)
            tr.recording = True
        na, nr, ne, nre = len(tr.added), len(tr.removed), tr.n_empty, len(tr.reent)
        c0 = int(round(q.get_ts() * fs))
        out = np.zeros(0)
        status = 'ok'
        old_handler = signal.signal(signal.SIGVTALRM, _on_alarm)
        signal.setitimer(signal.ITIMER_VIRTUAL, OP_TIME_LIMIT)
        try:
            if op[0] in ('pop', 'popnd'):
                n = op[1]
                r = nrep if nrep != 'mix' else [None, 'np64', 'kw', 'np32', 'posdec'][j % 5]
                if r == 'np64':
                    n = np.int64(n)
                elif r == 'np32':
                    n = np.int32(n)
                if op[0] == 'popnd':
                    out = q.pop_buffer(n, False) if r == 'posdec' else q.pop_buffer(n, decrement=False)
                elif r == 'kw':
                    out = q.pop_buffer(samples=n)
                elif r == 'posdec':
                    out = q.pop_buffer(n, True)
                else:
                    out = q.pop_buffer(n)
            elif op[0] == 'pause':
                if op[1] is None:
                    q.pause(None) if trep == 'kw' else q.pause()
                else:
                    q.pause(t=time_arg(op[1])) if trep == 'kw' else q.pause(time_arg(op[1]))
            elif op[0] == 'resume':
                if op[1] is None:
                    q.resume(t=None) if trep == 'kw' else q.resume()
                else:
                    q.resume(t=time_arg(op[1])) if trep == 'kw' else q.resume(time_arg(op[1]))
            else:
                raise RuntimeError(f'bad op {op}')
        except RuntimeError:
            raise
        except HangError:
            status = 'err HANG'
        except Exception as e:   # noqa: the class name is the observation
            status = f'err {type(e).__name__}'
        finally:
            signal.setitimer(signal.ITIMER_VIRTUAL, 0)
            signal.signal(signal.SIGVTALRM, old_handler)
        if status == 'err HANG':
            dead = True
            tr.lines.append(status)
            tr.steps.append({'op': op, 'status': status, 're': tr.reent[nre:]})
            continue
        if status != 'ok' and op[0] in ('pop', 'popnd') and op[1] > 0:
            dead = True
            tr.lines.append(status)
            tr.steps.append({'op': op, 'status': status, 're': tr.reent[nre:]})
            continue
        removed_set = set(tr.removed)
        live = [(a[0], a[1]) for u, a in reversed(list(enumerate(tr.added)))
                if u not in removed_set or u >= na]
        cells = _decode(out, c0, tr, case, live)
        if case.get('meddle'):
            # the caller owns what it was handed: overwrite the buffer, and the dicts get_info() returned
            out = np.asarray(out)
            if out.flags.writeable:
                out[...] = 5
            for k in keys:
                d = q.get_info(k)
                d['trials'] = -7
                d['requested_trials'] = 99
                d['duration'] = 0
                d['delays'] = None
        # a buffer handed out earlier belongs to the caller: a later request must not change it
        aliased = held is not None and not np.array_equal(held[0], held[1])
        if len(out):
            held = (out, np.array(out, copy=True))
        tsf = q.get_ts()
        ts = int(round(tsf * fs))
        step = {
            'op': op, 'status': status, 'cells': cells, 'c0': c0, 'n_out': len(out),
            'add': tr.added[na:], 'rm': tr.removed[nr:], 'ts': ts, 'ts_exact': tsf == ts / fs,
            'empty': bool(q.is_empty()), 'rem': [int(q.remaining_trials(k)) for k in keys],
            'ct': int(q.count_trials()), 'cr': int(q.count_requested_trials()),
            'n_empty': tr.n_empty - ne, 'aliased': bool(aliased),
            'reqs': [int(q.get_info(k)['requested_trials']) for k in keys],
            'raw_nonzero_outside': None, 're': tr.reent[nre:],
        }
        tr.steps.append(step)
        adds = ','.join(f"{a[0]}@{a[1]}{'' if a[3] else '!offgrid'}{'' if a[4] else '!payload'}+{a[2]}"
                        for a in step['add']) or '-'
        was_empty = any(s.get('empty') for s in tr.steps[:-1])
        note = ''
        if step['n_empty'] and not step['empty']:
            note = '!notified'
        elif step['empty'] and not was_empty and not step['n_empty'] and not any(
                s.get('n_empty') for s in tr.steps[:-1]):
            note = '!nonotify'
        want_req = [int(case['stims'][i]['trials']) for i in range(len(keys))]
        rq = '' if step['reqs'] == want_req else '!req'
        tr.lines.append(
            f"{status} out={rle(cells)}{'!aliased' if aliased else ''} add={adds} rm={_lst(step['rm'])} "
            f"ts={ts}{'' if step['ts_exact'] else '!inexact'} empty={int(step['empty'])}{note} "
            f"rem={_lst(step['rem'])} ct={step['ct']} cr={step['cr']}{rq}"
            + ''.join(f" re={e['K']}@{e['pos']}:{e['how']}" for e in step['re']))


# --------------------------------------------------------------------------
# model lines
# --------------------------------------------------------------------------

def model_lines(case, use_tick=False):
    draws, perms = '-', '-'
    if case['policy'] in ('random', 'blockedrandom'):
        tr = run_case(case)
        draws = _lst(tr.draws)
        pl = tr.perms + tr.extra_perms
        perms = ','.join(':'.join(str(v) for v in p) for p in pl) if pl else '-'
    fs = case['fs']
    lines = [f"new {case['policy']} {int(case.get('keep', 1))} {int(case.get('gsize', 0))} {draws} {perms}"]

    def append_line(i):
        st = eff_stim(case['stims'], i)
        _, n, dur, ref = make_source(st, i, fs, case.get('enc', ENC))
        zs = [int(j) for j in np.flatnonzero(np.asarray(ref) == 0)]
        kind = 'arr' if st['src'] == 'arr' else 'gen'
        dur = dur + st.get('xdur', 0)
        return (f"append {kind} {n} {st['trials']} {_lst([delay_samples(d, fs) for d in st['delays']])} "
                f"{dur} {_lst(zs)}")

    for i, st in enumerate(case['stims']):
        if not st.get('late'):
            lines.append(append_line(i))
    for op in case['ops']:
        if op[0] == 'pop':
            lines.append(f"{'tick' if use_tick and op[1] > 0 else 'pop'} {op[1]}")
        elif op[0] == 'popnd':
            lines.append(f"popnd {op[1]}")
        elif op[0] == 'append':
            lines.append(append_line(op[1]))
        else:
            lines.append(f"{op[0]} {'none' if op[1] is None else op[1]}")
    return lines


def impl_lines(case):
    tr = run_case(case)
    return ['ok'] + list(tr.lines)


# --------------------------------------------------------------------------
# re-entrant pause (case['reent']): the equivalent history without re-entrancy
# --------------------------------------------------------------------------

def reentrant_split(case):
    """The re-entrant history R = case told without re-entrancy, as far as that is possible.

    q.pause(info['t0']) called from inside the 'added' notification of a trial that starts at sample p, during
    pop_buffer(n) entered at clock c, is - on the unchanged library, bit for bit in output, notifications, counters and
    clock - the history  pop(p - c); pop(1); pause(p); pop(n - (p - c))  with the one sample of the second request dropped:
    the trial is set up and notified, then cancelled at its own onset ('removed', counter restored, its delay dropped,
    clock back at p), the rest of the request is silence.  (NOT pop(p - c); pause(p); pop(n - (p - c)): there the trial is
    never set up, so its added/removed pair is missing and neither its delay nor its random draw is consumed.)
    A re-entrant q.pause() without a time holds the notified trial (it plays after resume, late against its notified t0);
    no history of plain calls produces that notification, so the split stops before such a request.

    Returns (S, groups, complete): S = the split case (ops up to the first request that cannot be expressed), groups =
    per op of R covered by S the list of indices of S's ops standing for it, complete = every op of R is covered."""
    tr = run_case(case)
    ops, groups = [], []
    complete = True
    for j, (op, st) in enumerate(zip(case['ops'], tr.steps)):
        evs = st.get('re') or []
        if st.get('status') != 'ok' and evs:
            complete = False
            break
        if not evs:
            groups.append([len(ops)])
            ops.append(op)
            continue
        ev = evs[0]
        if len(evs) > 1 or ev['how'] != 'pt' or ev['status'] != 'ok' or op[0] != 'pop':
            complete = False
            break
        a = ev['pos'] - st['c0']
        g = []
        for o in ([['pop', a]] if a > 0 else []) + [['pop', 1], ['pause', ev['pos']], ['pop', op[1] - a]]:
            g.append(len(ops))
            ops.append(o)
        groups.append(g)
    S = {k: v for k, v in case.items() if k != 'reent'}
    S['ops'] = ops
    return S, groups, complete


def reentrant_lines(case):
    """(model lines, impl lines) of a case with re-entrant pauses: both are those of the split history S (model = Lean
    driver on S, impl = real queue on S); the real queue's run of the re-entrant history itself is compared with the
    merged run of S here, a difference is flagged on the impl line (`!reentrant-differs`)."""
    S, groups, complete = reentrant_split(case)
    ml = model_lines(S)
    il = impl_lines(S)
    R, T = run_case(case), run_case(S)
    off = len(il) - len(S['ops'])              # header lines ('ok' + one per early stimulus)
    fields = ('status', 'cells', 'add', 'rm', 'ts', 'ts_exact', 'empty', 'rem', 'ct', 'cr', 'reqs')
    for j, g in enumerate(groups):
        r = R.steps[j]
        parts = [T.steps[i] for i in g]
        if any(p_.get('status') != 'ok' for p_ in parts) or r.get('status') != 'ok':
            same = len(g) == 1 and {k: r.get(k) for k in fields} == {k: parts[0].get(k) for k in fields}
        elif len(g) == 1:
            same = all(r.get(k) == parts[0].get(k) for k in fields)
        else:
            outer = [p_ for p_ in parts if p_['op'][0] == 'pop']
            drop = outer[-2]                   # the one-sample request that sets the trial up
            merged_cells = [c for p_ in outer if p_ is not drop for c in p_['cells']]
            merged_add = [a for p_ in parts for a in p_['add']]
            merged_rm = [u for p_ in parts for u in p_['rm']]
            last = parts[-1]
            same = (r['cells'] == merged_cells and list(r['add']) == merged_add and list(r['rm']) == merged_rm
                    and len(drop['cells']) == 1
                    and all(r.get(k) == last.get(k) for k in ('ts', 'ts_exact', 'empty', 'rem', 'ct', 'cr', 'reqs'))
                    and r['n_empty'] == sum(p_['n_empty'] for p_ in parts))
        if not same:
            il[off + g[-1]] += ' !reentrant-differs'
    return ml, il


# --------------------------------------------------------------------------
# helpers for the oracles
# --------------------------------------------------------------------------

def flat_cells(tr):
    out = []
    for s in tr.steps:
        out.extend(s.get('cells', []))
    return out


def total_pop(case):
    return sum(op[1] for op in case['ops'] if op[0] in ('pop', 'popnd') and op[1] > 0)


FS_LIST = [1000.0, 25000.0, 44100.0, 48828.125, 97656.25, 100000.0, 195312.5]
POLICIES = ['fifo', 'interleaved', 'interleaved-nokeep', 'random', 'blockedrandom', 'grouped', 'blockedfifo']


def policy_fields(name, rng, nstim):
    d = {'policy': name, 'keep': 1, 'gsize': 0, 'seed': rng.randint(0, 1000)}
    b = rng.choice([None, None, None, 'extend', 'mixed'])
    if b:
        d['build'] = b
    if name == 'interleaved-nokeep':
        d.update(policy='interleaved', keep=0)
    if name == 'blockedrandom' and rng.random() < 0.3:
        d['keep'] = 0          # the inherited keep_complete_waveforms option at its non-default value
    if name == 'grouped':
        d['gsize'] = rng.choice([rng.randint(1, nstim + 1)] * 4 + [nstim + 5, 1000])
    return d


def spell(rng, c, finite_delays=False, p=0.6):
    """Choose at random HOW the caller says what the case says (constructor route, argument types, containers,
    keyword/positional, metadata, explicit durations, clone, a bystander queue, a meddling caller).
    The case stays the same case: the model lines do not change (except the declared duration).
    finite_delays: finite delay sequences are legal (no pause re-presents trials, every request decrements)."""
    if rng.random() > p:
        return c
    if rng.random() < 0.5:
        c['ctor'] = rng.choice(['pos', 'setfs', 'registry'])
    if rng.random() < 0.3:
        c['fsrep'] = rng.choice(['int', 'np'])
    if rng.random() < 0.3:
        c['t0rep'] = rng.choice(['skip', 'int', 'np'])
    b = rng.choice([None, 'extend', 'mixed', 'extend-bcast', 'extend-bcast', 'pos'])
    c.pop('build', None)
    if b:
        c['build'] = b
    bcast_delay = b == 'extend-bcast' and rng.random() < 0.5
    if rng.random() < 0.4:
        c['nrep'] = rng.choice(['np64', 'np32', 'kw', 'posdec', 'mix', 'mix'])
    if rng.random() < 0.3:
        c['trep'] = rng.choice(['np', 'kw'])
    if rng.random() < 0.15:
        c['clone'] = 1
    if rng.random() < 0.2:
        c['shadow'] = rng.choice(['same', 'diff'])
    if rng.random() < 0.3:
        c['meddle'] = 1
    if rng.random() < 0.15:
        c['share'] = 'scratch'     # one scratch object per kind of source, re-filled before each append()
    same_trials = rng.random() < 0.3
    for i, st in enumerate(c['stims']):
        if same_trials:
            st['trials'] = c['stims'][0]['trials']
        if rng.random() < 0.3:
            st['trep'] = rng.choice(['np64', 'np32', 'float'])
        if bcast_delay:
            st['delays'] = list(c['stims'][0]['delays'][:1])      # one scalar delay for all: extend() broadcasts it
        elif rng.random() < 0.4:
            forms = ['none', 'int', 'np', 'gen']
            if finite_delays:
                forms += ['list', 'tuple', 'ndarray']
            st['dform'] = rng.choice(forms)
            if st['dform'] in ('none', 'int') and rng.random() < 0.7:
                st['delays'] = [0]
        if rng.random() < 0.4:
            st['meta'] = 1
        if st['src'] in ('arr', 'fixed') and rng.random() < 0.4:
            st['dtype'] = rng.choice(['f4', 'i4', 'i8', 'strided'] + (['i2'] if i < 7 and 'enc' not in c else []))
        if rng.random() < 0.2 and not st.get('xdur'):
            st['declare'] = 1
        if c.get('clone') and st.get('dform') == 'gen':
            del st['dform']        # Python cannot deep-copy a running generator: not a legal argument for clone()
    return c


CASE_SPELLINGS = ('ctor', 'fsrep', 't0rep', 'build', 'clone', 'shadow', 'meddle', 'nrep', 'trep', 'share')
STIM_SPELLINGS = ('trep', 'dform', 'meta', 'dtype', 'declare', 'xdur', 'same_as')


def drop_stim(c, i):
    """The case without stimulus i (late appends of it dropped, later ones renumbered)."""
    if any(st.get('same_as') is not None for st in c['stims']):
        stims = []
        for j, st in enumerate(c['stims']):
            a = st.get('same_as')
            if a is not None:
                st = {k: v for k, v in st.items() if k != 'same_as'}
                if a != i and j != i:
                    st['same_as'] = a - (a > i)
            stims.append(st)
        c = dict(c, stims=stims)
    ops = []
    for op in c['ops']:
        if op[0] == 'append':
            if op[1] == i:
                continue
            op = ['append', op[1] - 1] if op[1] > i else op
        ops.append(op)
    return dict(c, stims=c['stims'][:i] + c['stims'][i + 1:], ops=ops)


def unspell_candidates(c):
    """Shrinking: the same case with one spelling choice back at its plain form."""
    for f in CASE_SPELLINGS:
        if c.get(f):
            yield {k: v for k, v in c.items() if k != f}
    for i, st in enumerate(c['stims']):
        for f in STIM_SPELLINGS:
            if st.get(f):
                s2 = {k: v for k, v in st.items() if k != f}
                yield dict(c, stims=c['stims'][:i] + [s2] + c['stims'][i + 1:])


def shared_stims(rng, n, max_len=9, max_trials=3):
    """Stimuli a caller would build in one scratch object: groups of equal shape (arrays of one length and dtype,
    enveloped tones of one duration), FixedWaveform factories of any length; sometimes the unchanged object of an
    earlier stimulus appended once more (same_as)."""
    out = []
    L = rng.randint(1, max_len)
    frac = rng.choice([0, 0, 0.25, -0.4])
    dt = rng.choice([None, None, 'f4', 'i4'])
    for i in range(n):
        src = rng.choice(['arr', 'arr', 'fixed', 'cos2'])
        nd = rng.choice([1, 1, 2])
        st = {'src': src, 'len': L if src != 'fixed' or rng.random() < 0.5 else rng.randint(1, max_len),
              'trials': rng.randint(1, max_trials),
              'delays': [rng.choice([0, 0, 0.5, 1, 2, 3.6]) for _ in range(nd)]}
        if src == 'cos2':
            st['frac'] = frac
        elif dt:
            st['dtype'] = dt
        if i and rng.random() < 0.2:
            j = rng.randrange(i)
            st = dict(out[j], trials=st['trials'], delays=st['delays'], same_as=_alias(out, j))
        out.append(st)
    return out


def waveform_failure(tr, N):
    """What each notified trial put on the output: the waveform queued under ITS key, at the notified sample (as far as
    the N samples fetched reach).  For histories without pauses."""
    cells = flat_cells(tr)
    for (key, k, *_rest) in tr.added:
        for i in range(tr.lens[key]):
            if k + i >= min(N, len(cells)):
                break
            want = ('Z',) if i in tr.zero_at[key] else ('W', key, i)
            if k + i < 0 or cells[k + i] != want:
                return (f'trial of stimulus {key} notified at sample {k}: output[{k + i}] is {cells[k + i]}, sample {i} of the '
                        f'waveform queued under that key expected')
    return None


def policy_name(case):
    if case['policy'] == 'interleaved' and not case.get('keep', 1):
        return 'interleaved-nokeep'
    return case['policy']


def exact_policy(case):
    return policy_name(case) in ('fifo', 'random', 'interleaved-nokeep')


def rand_stims(rng, n, max_len=12, max_trials=3, srcs=('arr', 'arr', 'fixed', 'cos2')):
    out = []
    for _ in range(n):
        src = rng.choice(srcs)
        nd = rng.choice([1, 1, 1, 2, 3])
        delays = [rng.choice([0, 0, 0.4, 0.5, 1, 2, 2.5, 3, 3.6, 4.5, 7]) for _ in range(nd)]   # incl. exact .5 ties
        st = {'src': src, 'len': rng.randint(1, max_len), 'trials': rng.randint(1, max_trials),
              'delays': delays}
        if src == 'cos2':
            st['frac'] = rng.choice([0, 0, 0.25, -0.4])
        out.append(st)
    return out
