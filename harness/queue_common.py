"""Shared op language, implementation adapter and helpers for C02 / C03 / C04 (psiaudio/queue.py).

A case is
  {'kind': str, 'policy': fifo|interleaved|random|blockedrandom|grouped|blockedfifo,
   'keep': 0|1, 'gsize': int, 'seed': int, 'fs': float, 't0': float,
   'stims': [{'src': arr|fixed|cos2, 'len': L, 'frac': f, 'trials': T, 'delays': [d, ...]}],
   'ops': [['pop', n] | ['pause', m|None] | ['resume', m|None]]}
Positions m are sample positions relative to the queue start; the adapter passes
t = t0 + m/fs.  Delays are in sample units (possibly fractional); the adapter passes d/fs and the
model gets int(round((d/fs)*fs)) — the code's own expression.
"""
import copy
import itertools
import json
import math
import signal

import numpy as np

ENC = 4096          # arrays hold (key+1)*ENC + j + 1: value -> (key, j) readable


# --------------------------------------------------------------------------
# building the real objects
# --------------------------------------------------------------------------

def make_source(st, key, fs):
    """Returns (source object, len in samples, dur on the grid, reference waveform)."""
    from psiaudio import stim
    L = st['len']
    if st['src'] in ('arr', 'fixed'):
        w = np.arange(1, L + 1, dtype=np.float64) + (key + 1) * ENC
        if st['src'] == 'arr':
            return w, L, dur_grid(L / fs, fs), w
        g = stim.FixedWaveform(fs, w)
        return g, int(g.n_samples()), dur_grid(g.get_duration(), fs), w
    if st['src'] == 'cos2':
        from psiaudio.calibration import FlatCalibration
        cal = FlatCalibration.as_attenuation()
        tone = stim.ToneFactory(fs=fs, level=0, frequency=fs / (7.3 + key), calibration=cal)
        rise = min(2, L // 2) / fs
        g = stim.Cos2EnvelopeFactory(fs=fs, start_time=0, rise_time=rise,
                                     duration=(L + st.get('frac', 0)) / fs, input_factory=tone)
        r = copy.deepcopy(g)
        r.reset()
        n = int(r.n_samples())
        ref = r.next(n)
        return g, n, dur_grid(g.get_duration(), fs), ref
    raise ValueError(st['src'])


def dur_grid(duration, fs):
    """Number of samples a trial of that duration occupies on the grid: round(duration*fs), the count a generator
    emits for it (GateFactory: int(round(duration*fs))) and what the queue compares a pause position with."""
    return int(round(duration * fs))


def exact_dur(st):
    """Number of samples the stimulus emits per trial (independent of any float of the library): the array length,
    or round(len + frac) for the enveloped generator whose duration is (len + frac)/fs (frac is never a tie)."""
    from fractions import Fraction
    if st['src'] == 'cos2':
        return int(round(Fraction(st['len']) + Fraction(str(st.get('frac', 0))))) + st.get('xdur', 0)
    return st['len'] + st.get('xdur', 0)


def delay_samples(d, fs):
    return int(round((d / fs) * fs))


def make_queue(case):
    from psiaudio import queue as Q
    fs = case['fs']
    p = case['policy']
    if p == 'fifo':
        return Q.FIFOSignalQueue(fs=fs)
    if p == 'interleaved':
        return Q.InterleavedFIFOSignalQueue(fs=fs, keep_complete_waveforms=bool(case.get('keep', 1)))
    if p == 'random':
        return Q.RandomSignalQueue(fs=fs)
    if p == 'blockedrandom':
        return Q.BlockedRandomSignalQueue(seed=case.get('seed', 0), fs=fs)
    if p == 'grouped':
        return Q.GroupedFIFOSignalQueue(group_size=case['gsize'], fs=fs)
    if p == 'blockedfifo':
        return Q.BlockedFIFOSignalQueue(fs=fs)
    raise ValueError(p)


# --------------------------------------------------------------------------
# running a case on the real code
# --------------------------------------------------------------------------

class HangError(BaseException):
    """The implementation did not return within the per-operation time limit."""


def _on_alarm(signum, frame):
    raise HangError()


OP_TIME_LIMIT = 3.0      # seconds per operation; a pop of a few thousand samples takes milliseconds


class Trace:
    """Raw observations of one run (for the oracles) + canonical lines (for the diff)."""

    def __init__(self):
        self.lines = []
        self.steps = []        # per op: dict(status, out, c0, add, rm, ts, empty, rem, ct, cr)
        self.draws = []
        self.perms = []
        self.extra_perms = []
        self.lens = []
        self.durs = []
        self.refs = []
        self.zero_at = []
        self.delays = []       # per key: list of delays in samples (cycle)
        self.added = []        # (key, k, dur, ongrid)
        self.removed = []      # uids in notification order


def _decode(out, c0, tr, case, live):
    """Map real samples back to cells. Encoded arrays are read off the value; a Cos2Envelope sample is
    looked up bit-exactly in the reference waveforms of the cos2 stimuli (preferring the continuation
    of the previous cell, then the position implied by a notified live trial `live` = [(key, k)])."""
    cells = []
    stims = case['stims']
    cos = [i for i, st in enumerate(stims) if st['src'] == 'cos2']
    prev = None
    for i, v in enumerate(out):
        v = float(v)
        if v == 0.0:
            cells.append(('Z',))
            prev = None
            continue
        kk = int(v // ENC) - 1
        jj = int(v % ENC) - 1
        if v == int(v) and 0 <= kk < len(stims) and stims[kk]['src'] in ('arr', 'fixed') \
                and 0 <= jj < tr.lens[kk]:
            cells.append(('W', kk, jj))
            prev = None
            continue
        p = c0 + i
        hit = None
        if prev is not None and prev[2] + 1 < tr.lens[prev[1]] and tr.refs[prev[1]][prev[2] + 1] == v:
            hit = ('W', prev[1], prev[2] + 1)
        if hit is None:
            for key, k in live:
                if key in cos and k <= p < k + tr.lens[key] and tr.refs[key][p - k] == v:
                    hit = ('W', key, p - k)
                    break
        if hit is None:
            for key in cos:
                js = np.flatnonzero(np.asarray(tr.refs[key]) == v)
                if len(js):
                    hit = ('W', key, int(js[0]))
                    break
        cells.append(hit or ('X',))
        prev = hit
    return cells


def rle(cells):
    segs = []
    for c in cells:
        if c[0] == 'Z':
            if segs and segs[-1][0] == 'Z':
                segs[-1][1] += 1
            else:
                segs.append(['Z', 1])
        elif c[0] == 'X':
            if segs and segs[-1][0] == 'X':
                segs[-1][1] += 1
            else:
                segs.append(['X', 1])
        else:
            if segs and segs[-1][0] == 'W' and segs[-1][1] == c[1] and segs[-1][2] + segs[-1][3] == c[2]:
                segs[-1][3] += 1
            else:
                segs.append(['W', c[1], c[2], 1])
    if not segs:
        return '-'
    return ','.join(f'{s[0]}{s[1]}' if s[0] in 'ZX' else f'W{s[1]}:{s[2]}+{s[3]}' for s in segs)


def _lst(l):
    return ','.join(str(x) for x in l) if len(l) else '-'


_CACHE = {}


def run_case(case):
    key = json.dumps(case, sort_keys=True)
    tr = _CACHE.get(key)
    if tr is None:
        tr = _run_case(case)
        if len(_CACHE) > 4000:
            _CACHE.clear()
        _CACHE[key] = tr
    return tr


def _run_case(case):
    fs, t0 = case['fs'], case['t0']
    tr = Trace()
    real_randint = np.random.randint
    real_RS = np.random.RandomState
    state = np.random.get_state()

    def rec_randint(*a, **k):
        r = real_randint(*a, **k)
        tr.draws.append(int(r))
        return r

    recorders = []

    class RecRS(real_RS):
        def __init__(self, *a, **k):
            super().__init__(*a, **k)
            recorders.append(self)

        def shuffle(self, x):
            super().shuffle(x)
            tr.perms.append([int(v) for v in x])

    np.random.seed(case.get('seed', 0) & 0x7FFFFFFF)
    np.random.randint = rec_randint
    np.random.RandomState = RecRS
    try:
        q = make_queue(case)
    finally:
        np.random.RandomState = real_RS
    try:
        _drive(case, q, tr, fs, t0)
        # continue the queue's own shuffle stream a little, so a model that needs one more
        # block than the code used still reads genuine draws
        if recorders:
            n = len(tr.perms)
            for _ in range(4):
                a = np.arange(len(case['stims']))
                recorders[0].shuffle(a)
            tr.extra_perms = tr.perms[n:]
            tr.perms = tr.perms[:n]
    finally:
        np.random.randint = real_randint
        np.random.set_state(state)
    return tr


def _drive(case, q, tr, fs, t0):
    q.set_t0(t0)
    keys = []
    infos = []

    def on_added(info):
        k = int(round((info['t0'] - t0) * fs))
        ongrid = (info['t0'] == t0 + k / fs)
        key = keys.index(info['key'])
        infos.append(info)
        tr.added.append((key, k, dur_grid(info['duration'], fs), ongrid))

    def on_removed(info):
        uid = next((i for i, a in enumerate(infos) if a is info), -1)
        tr.removed.append(uid)

    q.connect(on_added, 'added')
    q.connect(on_removed, 'removed')
    pending = []
    for i, st in enumerate(case['stims']):
        src, n, dur, ref = make_source(st, i, fs)
        tr.lens.append(n)
        tr.durs.append(dur)
        tr.refs.append(ref)
        tr.zero_at.append([int(j) for j in np.flatnonzero(np.asarray(ref) == 0)])
        ds = st['delays']
        tr.delays.append([delay_samples(d, fs) for d in ds])
        delays = ds[0] / fs if len(ds) == 1 else itertools.cycle([d / fs for d in ds])
        if st.get('xdur'):
            # the caller declares a duration longer than the waveform (append(..., duration=...))
            dur = dur + st['xdur']
            tr.durs[-1] = dur
        declared = dur / fs if st.get('xdur') else None
        build = case.get('build')      # how the caller fills the queue: append() each, extend() all, or a mixture
        if build == 'extend' or (build == 'mixed' and i > 0):
            pending.append((src, st['trials'], delays, declared))
        else:
            keys.append(q.append(src, st['trials'], delays=delays, duration=declared))
        tr.lines.append(f'ok {i}')
    if pending:
        keys.extend(q.extend([p[0] for p in pending], [p[1] for p in pending], delays=[p[2] for p in pending],
                             duration=[p[3] for p in pending]))

    dead = False
    for op in case['ops']:
        if dead:
            tr.lines.append('dead')
            tr.steps.append({'op': op, 'status': 'dead'})
            continue
        na, nr = len(tr.added), len(tr.removed)
        c0 = int(round(q.get_ts() * fs))
        out = np.zeros(0)
        status = 'ok'
        old_handler = signal.signal(signal.SIGALRM, _on_alarm)
        signal.setitimer(signal.ITIMER_REAL, OP_TIME_LIMIT)
        try:
            if op[0] == 'pop':
                out = q.pop_buffer(op[1])
            elif op[0] == 'pause':
                q.pause(None if op[1] is None else t0 + op[1] / fs)
            elif op[0] == 'resume':
                q.resume(None if op[1] is None else t0 + op[1] / fs)
            else:
                raise RuntimeError(f'bad op {op}')
        except RuntimeError:
            raise
        except HangError:
            status = 'err HANG'
        except Exception as e:   # noqa: the class name is the observation
            status = f'err {type(e).__name__}'
        finally:
            signal.setitimer(signal.ITIMER_REAL, 0)
            signal.signal(signal.SIGALRM, old_handler)
        if status == 'err HANG':
            dead = True
            tr.lines.append(status)
            tr.steps.append({'op': op, 'status': status})
            continue
        if status != 'ok' and op[0] == 'pop' and op[1] > 0:
            dead = True
            tr.lines.append(status)
            tr.steps.append({'op': op, 'status': status})
            continue
        removed_set = set(tr.removed)
        live = [(a[0], a[1]) for u, a in reversed(list(enumerate(tr.added)))
                if u not in removed_set or u >= na]
        cells = _decode(out, c0, tr, case, live)
        tsf = q.get_ts()
        ts = int(round(tsf * fs))
        step = {
            'op': op, 'status': status, 'cells': cells, 'c0': c0, 'n_out': len(out),
            'add': tr.added[na:], 'rm': tr.removed[nr:], 'ts': ts, 'ts_exact': tsf == ts / fs,
            'empty': bool(q.is_empty()), 'rem': [int(q.remaining_trials(k)) for k in keys],
            'ct': int(q.count_trials()), 'cr': int(q.count_requested_trials()),
            'raw_nonzero_outside': None,
        }
        tr.steps.append(step)
        adds = ','.join(f"{a[0]}@{a[1]}{'' if a[3] else '!offgrid'}+{a[2]}" for a in step['add']) or '-'
        tr.lines.append(
            f"{status} out={rle(cells)} add={adds} rm={_lst(step['rm'])} "
            f"ts={ts}{'' if step['ts_exact'] else '!inexact'} empty={int(step['empty'])} "
            f"rem={_lst(step['rem'])} ct={step['ct']} cr={step['cr']}")


# --------------------------------------------------------------------------
# model lines
# --------------------------------------------------------------------------

def model_lines(case, use_tick=False):
    draws, perms = '-', '-'
    if case['policy'] in ('random', 'blockedrandom'):
        tr = run_case(case)
        draws = _lst(tr.draws)
        pl = tr.perms + tr.extra_perms
        perms = ','.join(':'.join(str(v) for v in p) for p in pl) if pl else '-'
    fs = case['fs']
    lines = [f"new {case['policy']} {int(case.get('keep', 1))} {int(case.get('gsize', 0))} {draws} {perms}"]
    for i, st in enumerate(case['stims']):
        _, n, dur, ref = make_source(st, i, fs)
        zs = [int(j) for j in np.flatnonzero(np.asarray(ref) == 0)]
        kind = 'arr' if st['src'] == 'arr' else 'gen'
        dur = dur + st.get('xdur', 0)
        lines.append(f"append {kind} {n} {st['trials']} {_lst([delay_samples(d, fs) for d in st['delays']])} "
                     f"{dur} {_lst(zs)}")
    for op in case['ops']:
        if op[0] == 'pop':
            lines.append(f"{'tick' if use_tick and op[1] > 0 else 'pop'} {op[1]}")
        else:
            lines.append(f"{op[0]} {'none' if op[1] is None else op[1]}")
    return lines


def impl_lines(case):
    tr = run_case(case)
    return ['ok'] + list(tr.lines)


# --------------------------------------------------------------------------
# helpers for the oracles
# --------------------------------------------------------------------------

def flat_cells(tr):
    out = []
    for s in tr.steps:
        out.extend(s.get('cells', []))
    return out


def total_pop(case):
    return sum(op[1] for op in case['ops'] if op[0] == 'pop' and op[1] > 0)


FS_LIST = [1000.0, 25000.0, 44100.0, 48828.125, 97656.25, 100000.0, 195312.5]
POLICIES = ['fifo', 'interleaved', 'interleaved-nokeep', 'random', 'blockedrandom', 'grouped', 'blockedfifo']


def policy_fields(name, rng, nstim):
    d = {'policy': name, 'keep': 1, 'gsize': 0, 'seed': rng.randint(0, 1000)}
    b = rng.choice([None, None, None, 'extend', 'mixed'])
    if b:
        d['build'] = b
    if name == 'interleaved-nokeep':
        d.update(policy='interleaved', keep=0)
    if name == 'grouped':
        d['gsize'] = rng.randint(1, nstim + 1)
    return d


def policy_name(case):
    if case['policy'] == 'interleaved' and not case.get('keep', 1):
        return 'interleaved-nokeep'
    return case['policy']


def exact_policy(case):
    return policy_name(case) in ('fifo', 'random', 'interleaved-nokeep')


def rand_stims(rng, n, max_len=12, max_trials=3, srcs=('arr', 'arr', 'fixed', 'cos2')):
    out = []
    for _ in range(n):
        src = rng.choice(srcs)
        nd = rng.choice([1, 1, 1, 2, 3])
        delays = [rng.choice([0, 0, 0.4, 0.5, 1, 2, 2.5, 3, 3.6, 4.5, 7]) for _ in range(nd)]   # incl. exact .5 ties
        st = {'src': src, 'len': rng.randint(1, max_len), 'trials': rng.randint(1, max_trials),
              'delays': delays}
        if src == 'cos2':
            st['frac'] = rng.choice([0, 0, 0.25, -0.4])
        out.append(st)
    return out
