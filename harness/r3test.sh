#!/bin/sh
# r3test.sh <ID> [extra check ids]: confirm + test the round-3 seed of a property; one summary line
id=$1; shift
c=$(/verif/harness/confirm_seed.sh /verif/seeded_incoming/r3_$id 1 2>&1 | grep -v imports | awk -F: '{print $2}' | cut -c1-22 | tr '\n' '|')
t=$(/verif/harness/seedtest_wt.sh /verif/seeded_incoming/r3_$id/patch_1.diff $id "$@" 2>&1 | cut -c1-60 | tr '\n' ';')
echo "r3 $id confirm[$c] test[$t]"
