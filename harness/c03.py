"""C03 — each stimulus gets its requested trials in the policy order, then silence."""
import itertools

from . import queue_common as QC
from .framework import Spec


def drain(case):
    st = case['stims']
    per = max(s['len'] for s in st) + max(max(s['delays']) for s in st) + 2
    return int(per * (len(st) * max(s['trials'] for s in st) + 2)) + 10


def first_satisfied(seq, req, members=None):
    """Length of the shortest prefix of seq in which every member key occurs >= req times."""
    members = range(len(req)) if members is None else members
    cnt = {k: 0 for k in members}
    need = sum(1 for k in members if req[k] > 0)
    if need == 0:
        return 0
    for i, k in enumerate(seq):
        if k in cnt:
            cnt[k] += 1
            if cnt[k] == req[k]:
                need -= 1
                if need == 0:
                    return i + 1
    return None


class C03(Spec):
    PROP = 'C03'
    MODEL = 'queue'
    PROOF_MODULES = ['PsiProofs.C03', 'PsiProofs.C03Pause', 'PsiProofs.C04', 'PsiProofs.C04Append']
    DESIGN_REF = 'DESIGN.md §6 C03'
    TRUST = [
        'modelled, not verified: list.remove/insert/slicing semantics; np.random.randint and RandomState.shuffle are '
        'oracles: the harness records the real draws from outside and feeds them to the model, theorems hold for every oracle',
        'the model follows queue.py with notes/C03_fix_1.diff (and the C04 fix diffs) applied',
    ]
    ASSUMPTIONS = ['trial counts >= 1, every stimulus has at least one sample, delays >= 0']
    RULE = ('queues of 1-7 stimuli with unequal trial counts on every policy and option (keep_complete_waveforms, '
            'seed, group_size 1..n+1 incl. non-divisors, n+5 and 1000; keep_complete_waveforms=False also on the blocked-random '
            'class), drained in random chunkings and popped again afterwards; half of the random cases re-spelled by the '
            'caller (see C02: constructor routes, extend() broadcasting, argument types, metadata, explicit durations, '
            'clone, bystander queue, meddling caller, one scratch source object re-filled before each append); a shared-source '
            'stream (all stimuli built in one scratch ndarray / one FixedWaveform / one enveloped-tone factory whose carrier '
            'frequency is stepped, and one unchanged object appended under two keys: each key must play its own waveform); a scale stream (2000-3001 trials of one stimulus, 40 stimuli); '
            'thorough adds every (policy/option, <=4 stimuli, trials<=3) combination. Non-trivial = >= 2 stimuli with '
            'unequal trial counts or a partial last group.')
    exhaustive_note = {
        'quick': 'every policy/option (group sizes 1..n+1, n+5) x <= 3 stimuli x trials in {1,2} (lengths/delays fixed)',
        'thorough': 'every policy/option (group sizes 1..n+1, n+5) x <= 4 stimuli x trials in {1,2,3} (lengths/delays fixed)',
    }
    SEARCH_SECONDS = {'quick': 20, 'thorough': 240}

    def configs(self, n):
        for name in ('fifo', 'interleaved', 'interleaved-nokeep', 'random', 'blockedrandom', 'blockedfifo'):
            d = {'policy': name, 'keep': 1, 'gsize': 0, 'seed': 5}
            if name == 'interleaved-nokeep':
                d.update(policy='interleaved', keep=0)
            yield d
        yield {'policy': 'blockedrandom', 'keep': 0, 'gsize': 0, 'seed': 11}     # inherited option, non-default
        for g in list(range(1, n + 2)) + [n + 5]:
            yield {'policy': 'grouped', 'keep': 1, 'gsize': g, 'seed': 0}

    def cases(self, rng, tier):
        nmax, tmax = (3, 2) if tier == 'quick' else (4, 3)
        for n in range(1, nmax + 1):
            for trials in itertools.product(range(1, tmax + 1), repeat=n):
                for cfg in self.configs(n):
                    c = {'kind': 'exhaustive', 'fs': 1000.0, 't0': 0}
                    c.update(cfg)
                    c['stims'] = [{'src': 'arr', 'len': 2 + (i % 2), 'trials': t, 'delays': [i % 3]}
                                  for i, t in enumerate(trials)]
                    N = drain(c)
                    c['ops'] = [['pop', N // 3], ['pop', N - N // 3], ['pop', 5]]
                    yield c
        nrand = 150 if tier == 'quick' else 4000
        for _ in range(nrand):
            nst = rng.randint(1, 7)
            c = {'kind': 'random', 'fs': rng.choice(QC.FS_LIST), 't0': rng.choice([0, 0.5])}
            c.update(QC.policy_fields(rng.choice(QC.POLICIES), rng, nst))
            c['stims'] = QC.rand_stims(rng, nst, max_len=7, max_trials=rng.choice([2, 4, 6]))
            N = drain(c)
            c['ops'] = [['pop', n] for n in rng.chunks(N, max_parts=rng.choice([1, 3, 10]))] + [['pop', 6], ['pop', 1]]
            if _ % 2:
                # the same queue said differently: constructor routes, extend() broadcasting, argument types,
                # metadata, explicit durations, a clone, a bystander queue on the same sources, a meddling caller
                for st in c['stims']:
                    if rng.random() < 0.2:
                        st['xdur'] = rng.choice([-1, 1, 3, 25])
                QC.spell(rng, c, finite_delays=True, p=1.0)
                c['ops'] = [['pop', n] for n in rng.chunks(drain(c), max_parts=rng.choice([1, 3, 10]))] \
                    + [['pop', 6], ['pop', 1]]
            yield c
        # the caller builds all its stimuli in one scratch object (an array re-filled in place, one factory whose
        # array / carrier frequency is stepped) and appends that object again and again, or appends one unchanged
        # object under two keys: every key must present the waveform the object held when IT was appended
        for it in range(40 if tier == 'quick' else 800):
            nst = rng.randint(2, 6)
            c = {'kind': 'shared-source', 'fs': rng.choice(QC.FS_LIST), 't0': rng.choice([0, 0.5]), 'share': 'scratch'}
            c.update(QC.policy_fields(rng.choice(QC.POLICIES), rng, nst))
            c.pop('build', None)
            c['stims'] = QC.shared_stims(rng, nst, max_len=7, max_trials=3)
            if it % 5 == 4:
                del c['share']         # only the twice-appended unchanged object
                if not any(st.get('same_as') is not None for st in c['stims']):
                    c['stims'][-1] = dict(c['stims'][0], trials=rng.randint(1, 3), same_as=0)
            if it % 3 == 1:
                c['build'] = 'pos'
            if it % 4 == 3:
                c['meddle'] = 1
            c['ops'] = [['pop', n] for n in rng.chunks(drain(c), max_parts=rng.choice([1, 3, 10]))] + [['pop', 6], ['pop', 1]]
            yield c
        # scale: thousands of trials of one stimulus next to single trials of others; many stimuli
        for it in range(3 if tier == 'quick' else 14):
            nst = rng.choice([2, 3, 40])
            c = {'kind': 'scale', 'fs': rng.choice(QC.FS_LIST), 't0': 0}
            c.update(QC.policy_fields(QC.POLICIES[it % len(QC.POLICIES)] if tier != 'quick' else
                                      rng.choice(QC.POLICIES), rng, nst))
            c['stims'] = [{'src': 'arr', 'len': rng.randint(1, 2), 'trials': 1, 'delays': [rng.choice([0, 1])]}
                          for _ in range(nst)]
            if nst <= 3:
                c['stims'][rng.randrange(nst)]['trials'] = rng.choice([2000, 3001])
            else:
                c['enc'] = 64
                for st in c['stims']:
                    st['trials'] = rng.randint(1, 3)
            N = drain(c)
            c['ops'] = [['pop', N // 2], ['pop', N - N // 2], ['pop', 5]]
            yield c

    def model_lines(self, c):
        return QC.model_lines(c)

    def impl_lines(self, c):
        return QC.impl_lines(c)

    def nontrivial(self, c, out):
        t = [s['trials'] for s in c['stims']]
        return len(set(t)) > 1 or (c['policy'] == 'grouped' and len(t) % max(c['gsize'], 1) != 0)

    # ---- the property -------------------------------------------------------
    def oracle(self, c, out):
        if any(l.startswith('HARNESS-EXC') for l in out):
            return out[0]
        tr = QC.run_case(c)
        for s in tr.steps:
            if s['status'] != 'ok':
                return f"{s['op']} raised: {s['status']}"
        req = [s['trials'] for s in c['stims']]
        n = len(req)
        seq = [a[0] for a in tr.added]
        cnt = [seq.count(k) for k in range(n)]
        name = QC.policy_name(c)
        # "presents every stimulus": what a notified trial plays is the waveform queued under its key
        f = QC.waveform_failure(tr, QC.total_pop(c))
        if f:
            return f
        # the queue must have run dry within the drain
        empties = [i for i, s in enumerate(tr.steps) if s['empty']]
        if not empties:
            if QC.total_pop(c) >= drain(c):
                return f'queue did not report empty after {QC.total_pop(c)} samples (counts {cnt}, requested {req})'
            return None      # not drained: nothing to say yet
        if name in ('fifo', 'random', 'interleaved-nokeep'):
            if cnt != req:
                return f'{name}: presented {cnt}, requested {req}'
        else:
            if any(a < b for a, b in zip(cnt, req)):
                return f'{name}: presented {cnt}, fewer than requested {req}'
        if name == 'fifo':
            want = [k for k in range(n) for _ in range(req[k])]
            if seq != want:
                return f'fifo order {seq[:20]}, insertion order is {want[:20]}'
        elif name == 'interleaved-nokeep':
            left, want, i = list(req), [], -1
            while any(v > 0 for v in left):
                i = (i + 1) % n
                if left[i] > 0:
                    want.append(i)
                    left[i] -= 1
            if seq != want:
                return f'interleaved (completed dropped) order {seq[:20]}, round-robin is {want[:20]}'
        elif name in ('interleaved', 'blockedfifo'):
            if seq != [j % n for j in range(len(seq))]:
                return f'{name} order {seq[:20]} is not strict round-robin'
            if len(seq) != first_satisfied(seq, req):
                return f'{name} presented {len(seq)} trials, all were satisfied after {first_satisfied(seq, req)}'
        elif name == 'blockedrandom':
            for b in range(0, len(seq), n):
                blk = seq[b:b + n]
                if len(set(blk)) != len(blk):
                    return f'blocked random: block {b // n} = {blk} repeats a stimulus'
                if len(blk) == n and sorted(blk) != list(range(n)):
                    return f'blocked random: block {b // n} = {blk} is not a permutation'
            if len(seq) != first_satisfied(seq, req):
                return f'blocked random presented {len(seq)} trials, all were satisfied after {first_satisfied(seq, req)}'
            again = QC._run_case(c)
            if [a[0] for a in again.added] != seq:
                return 'blocked random: a second queue with the same seed produced another order'
        elif name == 'grouped':
            g = c['gsize']
            pos = 0
            for lo in range(0, n, g):
                members = list(range(lo, min(lo + g, n)))
                m = first_satisfied(seq[pos:], req, members)
                if m is None:
                    return f'grouped: group {members} not satisfied in {seq[pos:pos + 20]}'
                part = seq[pos:pos + m]
                if any(k not in members for k in part):
                    return f'grouped: group {members} interrupted: {part[:20]}'
                pos += m
            if pos != len(seq):
                return f'grouped: {len(seq) - pos} trials after every group was satisfied'
        # terminal state
        e0 = empties[0]
        for s in tr.steps[e0:]:
            if not s['empty']:
                return 'is_empty() went back to False'
            if s['ct'] != 0:
                return f'count_trials() = {s["ct"]} on an empty queue'
            if any(r > 0 for r in s['rem']):
                return f'remaining_trials {s["rem"]} on an empty queue'
        for s in tr.steps:
            if s['cr'] != sum(req):
                return f'count_requested_trials() = {s["cr"]}, requested {sum(req)}'
            if s['reqs'] != req:
                return f'requested trials per stimulus read {s["reqs"]}, requested {req}'
        if any(s['n_empty'] for s in tr.steps[:e0]):
            return '"empty" notification before the queue was empty'
        if not tr.steps[e0]['n_empty']:
            return 'is_empty() turned True without an "empty" notification'
        for s in tr.steps[e0 + 1:]:
            if s['add'] or any(x != ('Z',) for x in s['cells']):
                return f'{s["op"]} on an empty queue produced a trial or non-zero output'
        return None

    def known(self, c, failure):
        return None

    def neighbours(self, c, rng):
        for i, st in enumerate(c['stims']):
            for d in (-1, 1):
                if st['trials'] + d >= 1:
                    yield dict(c, stims=c['stims'][:i] + [dict(st, trials=st['trials'] + d)] + c['stims'][i + 1:])
        if c['policy'] == 'grouped':
            for g in range(1, len(c['stims']) + 2):
                yield dict(c, gsize=g)

    def shrink_candidates(self, c):
        ops = c['ops']
        for i in range(len(ops) - 1):
            yield dict(c, ops=ops[:i] + [['pop', ops[i][1] + ops[i + 1][1]]] + ops[i + 2:])
        for i in range(len(c['stims'])):
            if len(c['stims']) > 1:
                yield QC.drop_stim(c, i)
        for c2 in QC.unspell_candidates(c):
            yield c2
        for i, st in enumerate(c['stims']):
            for f, v in (('trials', st['trials'] - 1), ('len', st['len'] - 1)):
                if v >= 1:
                    yield dict(c, stims=c['stims'][:i] + [dict(st, **{f: v})] + c['stims'][i + 1:])
            if st['src'] != 'arr' or st['delays'] != [0]:
                s2 = dict(st, src='arr', delays=[0])
                s2.pop('frac', None)
                yield dict(c, stims=c['stims'][:i] + [s2] + c['stims'][i + 1:])
        if c['policy'] == 'grouped' and c['gsize'] > 1:
            yield dict(c, gsize=c['gsize'] - 1)
        if c['fs'] != 1000.0:
            yield dict(c, fs=1000.0)
        if c['t0'] != 0:
            yield dict(c, t0=0)

    def describe(self, c):
        return (f"{QC.policy_name(c)} gsize={c.get('gsize')} seed={c.get('seed')} fs={c['fs']} "
                f"stims={[(s['src'], s['len'], s['trials'], s['delays']) for s in c['stims']]} ops={c['ops'][:8]}")


SPEC = C03()
