"""C01 — stimulus generators are chunk-invariant (psiaudio/stim.py)."""
import copy

import numpy as np

from . import common as C
from . import stim_common as S
from .framework import Spec


# ---------------------------------------------------------------------------------------
# parameter generators
# ---------------------------------------------------------------------------------------

def rand_time(rng, fs, lo, hi):
    """A time whose sample index lies in [lo, hi]: on the grid, off the grid, or at a .5 tie."""
    k = rng.randint(lo, hi)
    mode = rng.random()
    if mode < 0.45:
        return k / fs
    if mode < 0.6:
        return (k + 0.5) / fs
    return (k + rng.random()) / fs


def rand_period(rng, lo=2, hi=60):
    """Modulation period in samples: integer, dyadic or non-terminating."""
    mode = rng.random()
    k = rng.randint(lo, hi)
    if mode < 0.3:
        return float(k)
    if mode < 0.6:
        return k + rng.choice([0.5, 0.25, 0.75, 0.125])
    if mode < 0.75:
        return k + rng.choice([1, 2]) / 3.0
    if mode < 0.85:
        # period starts that hit x.5 at a non-dyadic period index (near-ties of the float product)
        j = rng.choice([3, 5, 6, 7])
        return (j * k + j // 2 + 0.5) / j
    return k + rng.random()


def leaf(rng, fs, pool=('tone', 'tone', 'samtone', 'silence', 'bbn')):
    t = rng.choice(pool)
    if t == 'tone':
        return {'t': 'tone', 'fs': fs, 'frequency': rng.uniform(20, fs / 4), 'level': rng.choice([1.0, 0.37, 5.0]),
                'phase': rng.choice([0, 0.5, np.pi / 2]), 'polarity': rng.choice([1, -1])}
    if t == 'samtone':
        return {'t': 'samtone', 'fs': fs, 'fc': rng.uniform(100, fs / 4), 'fm': rng.uniform(2, 90), 'level': 1.0}
    if t == 'silence':
        return {'t': 'silence', 'fill': rng.choice([0, 1, 1, 2.5])}
    if t == 'bbn':
        return {'t': 'bbn', 'fs': fs, 'level': rng.choice([1.0, 0.1]), 'seed': rng.randint(0, 99),
                'polarity': rng.choice([1, -1])}
    if t == 'fixed':
        return {'t': 'fixed', 'fs': fs, 'n': rng.randint(0, 400), 'seed': rng.randint(0, 99)}
    if t == 'sqwave':
        return sqwave(rng, fs)
    raise ValueError(t)


def sqwave(rng, fs):
    cyc = rand_period(rng, 1, 50)
    return {'t': 'sqwave', 'fs': fs, 'level': rng.choice([1.0, 2.5]), 'frequency': fs / cyc,
            'duty': rng.choice([0.5, 0.25, 0.1, 0.9, 1.0, 0.0, rng.random()])}


def gate(rng, fs, inner, span=600):
    return {'t': 'gate', 'fs': fs, 'start': rand_time(rng, fs, 0, span // 3), 'dur': rand_time(rng, fs, 0, span),
            'in': inner}


def env(rng, fs, inner, span=600, window=None, valid=True):
    dur_k = rng.randint(0, span)
    dur = rand_time(rng, fs, dur_k, dur_k)
    i_dur = int(round(dur * fs))
    mode = rng.random()
    if mode < 0.2:
        rise = None
    elif valid:
        r = rng.choice([0, i_dur // 2, rng.randint(0, i_dur // 2)])
        rise = r / fs if rng.random() < 0.6 else max(r - 0.4, 0) / fs
        if int(round(rise * fs)) * 2 > i_dur:
            rise = (i_dur // 2) / fs
        if int(round(rise * fs)) * 2 > i_dur:
            rise = 0.0
    else:
        rise = rand_time(rng, fs, i_dur // 2, i_dur // 2 + 2)
    return {'t': 'env', 'window': window or rng.choice(S.WINDOWS + ['cos2factory']), 'fs': fs, 'dur': dur,
            'rise': rise, 'start': rand_time(rng, fs, 0, span // 3), 'in': inner}


def sam(rng, fs, inner, span=600):
    delay = rng.choice([0.0, 0.0, rand_time(rng, fs, 0, span), rand_time(rng, fs, 0, 20)])
    return {'t': 'sam', 'fs': fs, 'depth': rng.choice([1.0, 0.5, 0.25]), 'fm': fs / rand_period(rng, 5, 200),
            'delay': delay, 'direction': rng.choice([1, -1]), 'in': inner}


def sqenv(rng, fs, inner):
    P = rand_period(rng, 2, 80)
    return {'t': 'sqenv', 'fs': fs, 'depth': rng.choice([1.0, 0.5]), 'fm': fs / P,
            'duty': rng.choice([0.5, 0.25, 0.75, 1.0, 0.1, rng.random()]), 'alpha': rng.choice([0, 0, 0.2, 1.0]),
            'in': inner}


def notch(rng, fs, inner):
    return {'t': 'notch', 'fs': fs, 'freq': fs / rng.choice([8, 6.5, 11]), 'q': rng.choice([1.33, 5.0]), 'in': inner}


def repeat(rng, fs):
    period = rng.randint(1, 120)
    delay = rng.randint(0, period)
    room = period - delay
    kind = rng.random()
    if kind < 0.5:
        inner = {'t': 'fixed', 'fs': fs, 'n': rng.randint(0, room), 'seed': rng.randint(0, 99)}
    else:
        dur_k = rng.randint(0, room)
        st_k = rng.randint(0, room - dur_k)
        r_k = rng.randint(0, dur_k // 2)
        mk = 'gate' if kind < 0.7 else 'env'
        inner = {'t': mk, 'fs': fs, 'start': st_k / fs, 'dur': dur_k / fs, 'in': leaf(rng, fs, ('tone', 'bbn'))}
        if mk == 'env':
            inner.update(window=rng.choice(['cosine-squared', 'hann']), rise=rng.choice([None, r_k / fs]))
    # rate such that int(round(fs/rate)) == period
    rate = fs / period
    if int(round(fs / rate)) != period:
        rate = fs / (period + 0.25)
    return {'t': 'repeat', 'fs': fs, 'n': rng.randint(0, 4), 'skip': rng.randint(0, 2), 'rate': rate,
            'delay': delay / fs, 'in': inner}


def noise_leaf(rng, kind):
    fs = rng.choice([48828.125, 100000.0, 97656.25])
    if kind == 'blnoise':
        n = {'t': 'blnoise', 'fs': fs, 'seed': rng.randint(0, 20), 'level': 1.0,
             'fl': rng.choice([1000, 2000]), 'fh': rng.choice([6000, 8000]), 'polarity': rng.choice([1, -1])}
        # (equalize=True -- only usable with a caller-written calibration that has `get_iir`; stim_common supports it as
        # `eq` -- is NOT generated: SciPy filters the FIR equalising stage by convolution, whose round-off depends on the
        # chunking, and the high-order direct-form band-pass behind it amplifies that to 1e-8 of full scale and more
        # within 30 samples on the unchanged library; reported in the hardening notes, C10 draws it with equal chunking)
        return n
    if kind == 'firnoise':
        # (band edges as floats: with integer fl / fh the library truncates the scale factor to an integer -- np.full_like
        # on an integer array -- and a level below the calibration's reference yields pure silence; levels are C08's)
        return {'t': 'firnoise', 'fs': fs, 'seed': rng.randint(0, 20), 'level': 60, 'fl': 2000.0, 'fh': 8000.0,
                'ntaps': rng.choice([101, 401])}
    return {'t': 'shaped', 'fs': fs, 'seed': rng.randint(0, 20), 'level': 1.0, 'fl': 2000, 'fh': 8000,
            'ntaps': rng.choice([101, 401])}


def fixed_like(rng, fs):
    """A FixedWaveform subclass whose array the library computes itself (chirp, click, band-limited click, wav file)."""
    t = rng.choice(['chirp', 'click', 'blclick', 'wav'])
    cal = rng.random() < 0.5
    if t == 'chirp':
        k = rng.randint(1, 400)
        eq = cal and rng.random() < 0.5
        return {'t': 'chirp', 'fs': fs, 'f0': rng.uniform(50, fs / 8), 'f1': rng.uniform(fs / 8, fs / 3),
                'dur': rng.choice([k / fs, (k + 0.5) / fs]), 'level': 80 if cal else 1.0, 'cal': cal,
                'window': rng.choice(['boxcar', 'hann']), 'equalize': eq}
    if t == 'click':
        return {'t': 'click', 'fs': fs, 'dur': rng.randint(0, 40) / fs, 'level': 80, 'polarity': rng.choice([1, -1])}
    if t == 'blclick':
        fs = rng.choice([25000.0, 48828.125, 44100.0])
        return {'t': 'blclick', 'fs': fs, 'fl': rng.choice([1000, 2000]), 'fh': rng.choice([4000, 8000]),
                'dur': rng.randint(1, 300) / fs, 'level': 80 if cal else 1.0, 'cal': cal,
                'equalize': cal and rng.random() < 0.5}
    file_fs = int(fs) if float(fs) == int(fs) and rng.random() < 0.7 else rng.choice([44100, 8000])
    norm = rng.choice(['pe', 'rms', None])
    # (a file so short that it resamples to zero samples makes scipy.signal.resample divide by zero inside load_wav:
    # not generated, no property speaks about it)
    return {'t': 'wav', 'fs': fs, 'n': rng.randint(int(file_fs / fs) + 2, 300), 'seed': rng.randint(0, 5),
            'wdtype': rng.choice(['i2', 'f4']),
            'file_fs': file_fs, 'norm': norm, 'cal': cal and norm is not None, 'level': 80 if cal and norm is not None else None}


def vary(rng, tree, transform=True):
    """The same kind of tree with every node's optional constructor arguments, argument spelling and value
    representations varied (HARDENING items 1, 2)."""
    tree = copy.deepcopy(tree)
    n = tree
    while True:
        t = n['t']
        if rng.random() < 0.4:
            n['kw'] = True
        if 'fs' in n and rng.random() < 0.5:
            n['fsrep'] = rng.choice(['np', 'int'])
        if rng.random() < 0.35:
            n['trep'] = rng.choice(['np', 'int'])
        if t == 'tone' and rng.random() < 0.4:
            n.update(cal=True, level=rng.choice([60, 94.0]))
        elif t == 'samtone':
            n.update(phase=rng.choice([0, 0.3]), phase_lb=rng.choice([0, 0.1]), phase_ub=rng.choice([0, -0.2]),
                     polarity=rng.choice([1, -1]), eq_power=rng.random() < 0.5, equalize=rng.random() < 0.5)
            if rng.random() < 0.5:
                n.update(cal=True, level=80)
        elif t == 'bbn' and rng.random() < 0.4:
            n.update(cal=True, level=60)
        elif t == 'blnoise':
            n.update(rolloff=rng.choice([1, 0.5]), pass_att=rng.choice([1, 2]), stop_att=rng.choice([80, 60]),
                     discard=rng.random() < 0.5)
            if n['rolloff'] == 0.5:
                n['stop_att'] = 60      # (half an octave and 80 dB: "Unstable filter coefficients", refused)
            if rng.random() < 0.4:
                n.update(cal=True, level=60)
        elif t == 'firnoise':
            n.update(window=rng.choice(['hann', 'hamming']), polarity=rng.choice([1, -1]),
                     equalize=rng.random() < 0.5, max_correction=rng.choice([np.inf, 10]))
        elif t == 'shaped':
            n.update(window=rng.choice(['hann', 'hamming']), polarity=rng.choice([1, -1]))
            if rng.random() < 0.4:
                n.update(cal=True, level=60)
        elif t == 'fixed':
            n.update(dtype=rng.choice(['f8', 'f4', 'i2', 'i4', 'u1', 'b']),
                     layout=rng.choice([None, 'strided', 'rev', 'readonly']))
        elif t == 'sam':
            n.update(onset=rng.choice([None, 'silence_transition', 'ss_transition']),
                     depth=rng.choice([n['depth'], 0.0, 0.75]))
        elif t == 'sqenv':
            n.update(duty=rng.choice([n['duty'], 0.0, 1.0]), depth=rng.choice([n['depth'], 0.0]), cal=rng.random() < 0.3)
        elif t == 'env' and transform and n['window'] != 'cos2factory' and rng.random() < 0.25:
            n['transform'] = rng.choice(sorted(S.TRANSFORMS))
        # HARDENING item 9: optional arguments left out; in most of these every optional argument of the node is at its
        # documented default, so that all of them are left out
        if rng.random() < 0.25:
            if rng.random() < 0.7 and t not in ('firnoise', 'shaped'):
                S.to_defaults(n)
            n['omit'] = True
        if 'in' not in n:
            break
        n = n['in']
    return tree


def defaults_tree(rng, tree):
    """The same kind of tree, every optional constructor argument at its documented default and left out of the call
    (by keyword in half of the nodes: then also the non-trailing ones)."""
    tree = copy.deepcopy(tree)
    n = tree
    while True:
        S.to_defaults(n)
        if rng.random() < 0.5:
            n['kw'] = True
        if n['t'] == 'samtone' and rng.random() < 0.5:
            # `equalize` (sidebands scaled at their own frequencies) shows only through a calibration that depends on
            # frequency: the calibration is given, the options after it are left out
            n.update(cal='interp', level=80, kw=True)
        if 'in' not in n:
            break
        n = n['in']
    return tree


def int_tree(rng, cls):
    """Every number a Python int: fs = 1000, times whole seconds (representation `int`)."""
    fs = 1000.0
    inner = leaf(rng, fs, ('tone', 'bbn', 'silence'))
    inner['fsrep'] = 'int'
    base = {'fs': fs, 'fsrep': 'int', 'trep': 'int', 'in': inner, 'kw': rng.random() < 0.5}
    if cls == 'gate':
        return {'t': 'gate', 'start': float(rng.choice([0, 1])), 'dur': float(rng.choice([0, 1, 2])), **base}
    if cls == 'sam':
        return {'t': 'sam', 'depth': 1, 'fm': rng.choice([4, 7]), 'delay': float(rng.choice([0, 1])), 'direction': 1, **base}
    return {'t': 'env', 'window': rng.choice(['hann', 'cos2factory', 'cosine-squared']), 'start': float(rng.choice([0, 1])),
            'dur': float(rng.choice([1, 2])), 'rise': rng.choice([None, 0.0, 1.0]), **base}


def big_tree(rng, cls):
    """Stimuli whose structural indices lie far beyond the usual sizes (2^16 .. 2^20 samples)."""
    fs = rng.choice([100000.0, 195312.5, 97656.25])
    car = leaf(rng, fs, ('tone', 'bbn', 'silence'))
    k = rng.choice([1 << 16, 1 << 18, (1 << 20) - 3, 1 << 20])
    if cls == 'gate':
        return {'t': 'gate', 'fs': fs, 'start': rand_time(rng, fs, 0, 1 << 17), 'dur': rand_time(rng, fs, k, k + 9), 'in': car}
    if cls == 'env':
        r = rng.choice([0, 5, 1 << 15, k // 2])
        return {'t': 'env', 'window': rng.choice(['cosine-squared', 'hann', 'cos2factory']), 'fs': fs,
                'start': rand_time(rng, fs, 0, 1 << 17), 'dur': k / fs, 'rise': rng.choice([None, r / fs]), 'in': car}
    if cls == 'sam':
        return {'t': 'sam', 'fs': fs, 'depth': 0.5, 'fm': fs / rand_period(rng, 50, 30000), 'delay': rand_time(rng, fs, 0, k),
                'direction': 1, 'in': car}
    if cls == 'sqenv':
        return {'t': 'sqenv', 'fs': fs, 'depth': 1.0, 'fm': fs / rand_period(rng, 20000, 90000), 'duty': 0.3, 'alpha': 0.2,
                'in': car}
    if cls == 'sqwave':
        return {'t': 'sqwave', 'fs': fs, 'level': 1.0, 'frequency': fs / rng.randint(20000, 90000), 'duty': 0.4}
    if cls == 'fixed':
        return {'t': 'fixed', 'fs': fs, 'n': k + rng.randint(0, 5), 'seed': rng.randint(0, 9)}
    if cls == 'notch':
        return notch(rng, fs, leaf(rng, fs, ('bbn',)))
    if cls == 'repeat':
        period = rng.randint(500, 70000)
        return {'t': 'repeat', 'fs': fs, 'n': (1 << 20) // period + 1, 'skip': 1, 'rate': fs / period, 'delay': 3 / fs,
                'in': {'t': 'fixed', 'fs': fs, 'n': period - 5, 'seed': 1}}
    return car


def one_param_twin(rng, tree, key=None):
    """A copy of `tree` differing in exactly one parameter of its top node (HARDENING item 7); `key`: which one
    (gate / envelope nodes)."""
    t2 = copy.deepcopy(tree)
    fs = tree.get('fs', 1000.0)
    t = tree['t']
    if t in ('gate', 'env'):
        plain = t == 'env' and tree['window'] != 'cos2factory'
        key = key or rng.choice(['start', 'dur'] + (['window', 'transform', 'transform'] if plain else []))
        if key in ('window', 'transform') and not plain:
            key = 'start'
        if key == 'window':
            t2['window'] = rng.choice([w for w in S.WINDOWS if w != tree['window']])
        elif key == 'transform':     # the same envelope with / without a pointwise transform (an optional callable)
            if t2.pop('transform', None) is None:
                t2['transform'] = rng.choice(sorted(S.TRANSFORMS))
        else:
            t2[key] = tree[key] + rng.choice([1, 2]) / fs
    elif t == 'sam':
        key = rng.choice(['delay', 'depth', 'direction', 'fm'])
        t2[key] = {'delay': tree['delay'] + 1 / fs, 'depth': tree['depth'] / 2, 'direction': -tree.get('direction', 1),
                   'fm': tree['fm'] * 1.5}[key]
    elif t == 'sqenv':
        key = rng.choice(['depth', 'alpha', 'duty'])
        t2[key] = {'depth': tree['depth'] / 2, 'alpha': 0.5 if tree.get('alpha', 0) != 0.5 else 1.0,
                   'duty': tree['duty'] / 2}[key]
    elif t == 'tone':
        t2['phase'] = tree.get('phase', 0) + 0.25
    elif t == 'bbn':
        t2['seed'] = tree['seed'] + 1
    elif t == 'fixed':
        t2['seed'] = tree['seed'] + 1
    elif t == 'sqwave':
        t2['level'] = tree['level'] * 2
    else:
        return None
    return t2


CLASSES = ['tone', 'samtone', 'silence', 'bbn', 'sqwave', 'fixed', 'gate', 'env', 'cos2', 'sam', 'sqenv',
           'notch', 'repeat', 'nested', 'blnoise', 'firnoise', 'shaped']


def make_tree(rng, cls):
    fs = rng.choice(S.FS_LIST)
    if cls in ('tone', 'samtone', 'silence', 'bbn', 'fixed'):
        return leaf(rng, fs, (cls,))
    if cls == 'sqwave':
        return sqwave(rng, fs)
    if cls == 'gate':
        return gate(rng, fs, leaf(rng, fs, ('tone', 'bbn', 'silence', 'fixed', 'sqwave')))
    if cls == 'env':
        return env(rng, fs, leaf(rng, fs))
    if cls == 'cos2':
        return env(rng, fs, leaf(rng, fs), window='cos2factory')
    if cls == 'sam':
        return sam(rng, fs, leaf(rng, fs, ('tone', 'bbn', 'silence')))
    if cls == 'sqenv':
        return sqenv(rng, fs, leaf(rng, fs, ('tone', 'bbn', 'silence')))
    if cls == 'notch':
        return notch(rng, fs, leaf(rng, fs, ('bbn', 'bbn', 'tone')))
    if cls == 'repeat':
        return repeat(rng, fs)
    if cls in ('blnoise', 'firnoise', 'shaped'):
        n = noise_leaf(rng, cls)
        if rng.random() < 0.3:
            return gate(rng, n['fs'], n)
        return n
    if cls == 'fixedlike':
        node = fixed_like(rng, fs)
        w = rng.choice(['plain', 'plain', 'gate', 'env', 'sam'])
        if w != 'plain':
            node = {'gate': gate, 'env': env, 'sam': sam}[w](rng, node['fs'], node)
        return node
    if cls == 'wrapped_repeat':
        node = repeat(rng, fs)
        if rng.random() < 0.3:      # a repeat of a repeat
            tot = S.total_of(node)
            node = {'t': 'repeat', 'fs': fs, 'n': rng.randint(0, 3), 'skip': rng.randint(0, 1),
                    'rate': fs / (tot + rng.randint(0, 3) + 1), 'delay': rng.randint(0, 1) / fs, 'in': node}
        for _ in range(rng.randint(1, 2)):
            w = rng.choice(['gate', 'env', 'sam', 'sqenv', 'notch'])
            node = {'gate': gate, 'env': env, 'sam': sam, 'sqenv': sqenv, 'notch': notch}[w](rng, fs, node)
        return node
    if cls == 'repeat_reject':
        node = repeat(rng, fs)
        inner = node['in']
        period = int(round(fs / node['rate']))
        room = period - int(round(fs * node['delay']))
        over = room + rng.choice([1, 1, 2, 50])
        if inner['t'] == 'fixed':
            inner['n'] = over
        else:
            inner.update(start=0.0, dur=over / fs)
            if inner['t'] == 'env':
                inner['rise'] = None
        return node
    if cls == 'nested':
        node = leaf(rng, fs, ('tone', 'bbn', 'silence', 'fixed', 'sqwave', 'samtone'))
        for _ in range(rng.randint(2, 4)):
            w = rng.choice(['gate', 'env', 'sam', 'sqenv', 'notch'])
            node = {'gate': gate, 'env': env, 'sam': sam, 'sqenv': sqenv, 'notch': notch}[w](rng, fs, node)
        return node
    raise ValueError(cls)


def tree_has(node, t):
    return node['t'] == t or ('in' in node and tree_has(node['in'], t))


def sq_nodes(node):
    out = [node] if node['t'] == 'sqenv' else []
    return out + (sq_nodes(node['in']) if 'in' in node else [])


def sqwave_nodes(node):
    out = [node] if node['t'] == 'sqwave' else []
    return out + (sqwave_nodes(node['in']) if 'in' in node else [])


_TIES = []


def square_ties():
    """(fs, fm, d): modulation frequencies (integer or half-integer Hz, period 1.5 .. 200 samples) at the sampling rates
    the properties name whose period start k * fs / fm lies EXACTLY on x.5 for k = d, 3d, 5d, ... (d <= 40), computed
    in exact rational arithmetic.  There the rounded start of a period is decided by the last bit of the float product:
    an implementation that obtains it in a way that depends on where the chunk began (an accumulated sum, say) shifts
    one period by a sample.  Random (fs, fm) almost never hit such a tie."""
    if not _TIES:
        from fractions import Fraction
        for fs in (25000.0, 44100.0, 48828.125, 97656.25, 100000.0, 195312.5):
            F = Fraction(fs)
            for m in range(max(int(2 * fs / 200), 1), int(2 * fs / 1.5) + 1):      # fm = m / 2
                g = 4 * F / m           # k * fs / fm = k * g / 2: a tie iff k * g is an odd integer
                if g.numerator % 2 == 1 and g.denominator <= 40:
                    _TIES.append((fs, m / 2, g.denominator))
    return _TIES


def sqtie_cases(rng, npairs):
    """Square-wave envelopes with an exact .5 tie of a period start, at least six periods into the stimulus where
    possible: one chunk per period (boundaries at floor / ceil of the period starts), a single boundary 1..3 periods
    before the tie (+-1 sample), and the fragment function asked from those boundaries."""
    from fractions import Fraction
    for fs, fm, d in rng.sample(square_ties(), min(npairs, len(square_ties()))):
        P = Fraction(fs) / Fraction(fm)
        ks = [k for k in range(d, 41, 2 * d)]
        k = rng.choice([x for x in ks if x >= 6] or ks)
        n = int((k + 3) * P) + 2
        duty = rng.choice([0.5, 0.5, 0.25, 0.75, round(rng.random(), 3)])
        node = {'t': 'sqenv', 'fs': fs, 'depth': rng.choice([1.0, 0.5]), 'fm': fm, 'duty': duty, 'alpha': 0,
                'in': rng.choice([{'t': 'silence', 'fill': 1}, {'t': 'tone', 'fs': fs, 'frequency': fs / 7.3, 'level': 1.0}])}
        starts = [i * P for i in range(1, k + 4)]
        per = S.cuts_to_chunks([int(x) + rng.choice([0, 1]) for x in starts], n)
        yield {'kind': 'factory', 'cls': 'sqenv', 'tree': node, 'chunks': per, 'tag': 'sqtie'}
        for j in rng.sample([1, 2, 3], 2):
            if k - j < 0:
                continue
            cut = int((k - j) * P) + rng.choice([-1, 0, 1, 2])
            if 0 < cut < n:
                yield {'kind': 'factory', 'cls': 'sqenv', 'tree': node, 'chunks': [cut, n - cut], 'tag': 'sqtie'}
                yield {'kind': 'square_fn', 'fs': fs, 'depth': node['depth'], 'fm': fm, 'duty': duty, 'alpha': 0,
                       'off': cut, 'n': n - cut, 'tag': 'sqtie'}


MODEL_COST = 4e7     # the model's stride loops are O(chunk length x periods in the chunk)


def model_applies(tree, chunks):
    """The rational model of square_wave applies when the float expressions are exact (see notes); trees with an
    envelope transform (an arbitrary callable) and chunks too long for the model's quadratic square-wave
    loops are checked by the direct oracle only."""
    if S.has_transform(tree):
        return False
    n = sum(chunks)
    offs = np.cumsum([0] + list(chunks))[:-1]
    periods = [float(S.sq_ints(q)[0]) for q in sq_nodes(tree)] + \
              [int(round(q['fs'] / q['frequency'])) for q in sqwave_nodes(tree)]
    for P in periods:
        if P > 0 and sum(m * (m / P + 1) for m in chunks) > MODEL_COST:
            return False
    for q in sq_nodes(tree):
        if not S.square_exact(q, n + 2) or not S.square_offsets_exact(q, [int(o) for o in offs]):
            return False
    return True


def scribble(x):
    """The caller overwrites an array the library handed out."""
    try:
        x[...] = 7.5
    except (ValueError, TypeError):
        pass


NTYPES = {'i64': np.int64, 'i32': np.int32}


class memory_cap:
    """While a fragment beyond sample 2^31 is requested the process may not grow by more than 2 GiB: a library
    that answers with the envelope from sample 0 fails with MemoryError (reported) instead of taking 16 GiB."""

    def __init__(self, on):
        self.on = on

    def __enter__(self):
        if not self.on:
            return
        import resource
        self.old = resource.getrlimit(resource.RLIMIT_AS)
        try:
            vm = int(open('/proc/self/statm').read().split()[0]) * resource.getpagesize()
            cap = vm + (2 << 30)
            if self.old[1] != resource.RLIM_INFINITY:
                cap = min(cap, self.old[1])
            resource.setrlimit(resource.RLIMIT_AS, (cap, self.old[1]))
        except (OSError, ValueError):
            self.on = False

    def __exit__(self, *exc):
        if self.on:
            import resource
            resource.setrlimit(resource.RLIMIT_AS, self.old)
        return False


def pristine_batch(jobs):
    """Single requests [(tree, n)] computed in ONE fresh interpreter that builds nothing but these trees: the
    references of the second objects of all twin cases (no first object ever existed in that interpreter)."""
    import io
    import json
    import os
    import subprocess
    import sys
    code = ('import sys, json, io, numpy as np\n'
            'sys.path.insert(0, sys.argv[1])\n'
            'from harness import stim_common as S\n'
            'out = {}\n'
            'for i, (tree, n) in enumerate(json.load(sys.stdin)):\n'
            '    try:\n'
            '        out[str(i)] = np.asarray(S.build_real(tree).next(n), dtype=np.float64)\n'
            '    except (ValueError, ZeroDivisionError) as e:\n'
            '        out[str(i)] = np.array(type(e).__name__)\n'
            'buf = io.BytesIO(); np.savez(buf, **out); sys.stdout.buffer.write(buf.getvalue())\n')
    env = dict(os.environ, PSI_REPO=C.REPO, PYTHONDONTWRITEBYTECODE='1')
    r = S.run_helper([sys.executable, '-c', code, C.VERIF], input=json.dumps(jobs).encode(), env=env)
    z = np.load(io.BytesIO(r.stdout))
    return [z[str(i)] for i in range(len(jobs))]


def pristine_draw(tree, n):
    """One single request for n samples, computed in a fresh interpreter (no module-level state of this
    process can have leaked into it)."""
    import json
    import os
    import subprocess
    import sys
    code = ('import sys, json, numpy as np\n'
            'sys.path.insert(0, sys.argv[1])\n'
            'from harness import stim_common as S\n'
            'a = np.asarray(S.build_real(json.loads(sys.argv[2])).next(int(sys.argv[3])), dtype=np.float64)\n'
            'sys.stdout.buffer.write(a.tobytes())\n')
    env = dict(os.environ, PSI_REPO=C.REPO, PYTHONDONTWRITEBYTECODE='1')
    r = S.run_helper([sys.executable, '-c', code, C.VERIF, json.dumps(tree), str(n)], env=env)
    return np.frombuffer(r.stdout, dtype=np.float64)


# ---------------------------------------------------------------------------------------

class C01(Spec):
    PROP = 'C01'
    MODEL = 'stim'
    PROOF_MODULES = ['PsiProofs.C01']
    DESIGN_REF = 'DESIGN.md §6 C01'
    PARALLEL = 16
    CASE_TIMEOUT = 60       # CPU seconds per case (the largest legitimate cases take a few seconds)
    TRUST = [
        'modelled, not verified: np.cos/np.sin are pointwise in their argument; RandomState.uniform(size=n) consumes a '
        'stream; scipy.signal.lfilter with zi is a state machine fed one sample at a time; np.concatenate, basic '
        'slicing and slice assignment follow the documented NumPy semantics',
        'cells are evaluated with the real code\'s own primitives (one fresh full-length draw of each real leaf '
        'carrier, the array returned by the real window function, _sam_envelope at delay 0, tukey table) and compared '
        'bit-exactly with each chunk the real factory returned; FIR-filtered noise to 1e-12 of full scale',
        'square_wave: the period is modelled as the exact rational value of the double fs/fm; cases in which a float '
        'product fm_samples*i does not round like the exact product are checked by the direct oracle only',
        'WavSequenceFactory, wav loading, chirp/click waveform synthesis are not modelled (Chirp/Click/WavFile factories '
        'are FixedWaveform instances over an opaque array)',
    ]
    ASSUMPTIONS = ['start, duration, rise, delay >= 0; chunk sizes >= 1 (Python int or signed NumPy integer); carriers produce finite samples']
    RULE = ('per generator class: seeded random parameters (fs in {1000, 25000, 44100, 48828.125, 97656.25, 100000, '
            '195312.5}; times on the sample grid, off it and at .5 ties; modulation periods integer, dyadic, '
            'non-terminating), N up to ~1500 incl. past the end of finite stimuli, random partitions and partitions '
            'with cuts at -2..+2 around every structural index; function-level fragments (envelope, _sam_envelope, '
            'square_wave) at random and boundary (offset, samples). Non-trivial = at least two chunks (factory) / '
            'offset > 0 (fragment); distinct = distinct case hash. Hardening block (kinds tagged /var /int /hist /scale '
            '/many /route /huge): every constructor option at a non-default value, all-positional vs all-keyword spelling, '
            'fs and times as Python int / NumPy scalar, fixed arrays of dtype f4/i2/i4/u1/bool and strided / reversed / '
            'read-only layout, the FixedWaveform subclasses (chirp, click, band-limited click, wav file incl. resampling), '
            'repeat inside other factories and of a repeat, rejected repeats; histories with reset() (before any draw, '
            'mid-way, after completion, twice), get_samples_remaining(), np.int64/np.int32 chunk sizes, the caller '
            'overwriting every chunk it received, a second object over the same ndarray or differing in one parameter drawn '
            'interleaved (reference from a separate interpreter), single requests recomputed in a fresh interpreter; chunks '
            'of 2^16..2^20 samples mixed with 1-sample chunks, 3000-draw histories; fragment functions through '
            'cos2envelope / sam_envelope / keyword spelling / samples=auto / transform / repeated call after the caller '
            'overwrote the result, tone and sam_tone fragments, offsets beyond 2^31 (reference: a longer fragment starting '
            'up to 40 samples earlier).')
    exhaustive_note = {
        'thorough': 'all 2^(N-1) ordered partitions for N <= 12 of gate/envelope/sam/square/fixed/repeat factories '
                    'with parameters (start, duration, rise, delay, period) <= 6 samples',
    }

    def __init__(self):
        self.cache = S.ModelCache('stim')
        self._calls = 0
        self._last = None
        self.twin_ref = {}

    # ---- cases -----------------------------------------------------------------------
    def gen_cases(self, rng, tier):
        per = 400 if tier == 'quick' else 1500
        for cls in CLASSES:
            m = per if cls not in ('blnoise', 'firnoise', 'shaped') else max(per // 6, 6)
            for _ in range(m):
                tree = make_tree(rng, cls)
                total = S.total_of(tree)
                marks = S.marks_of(tree)
                top = max([total or 0] + [k for k in marks if k < 3000])
                n = min(top + rng.choice([0, 1, 5, 40, 300]), 4000) if rng.random() < 0.8 else rng.randint(1, 1500)
                n = max(n, 1)
                if rng.random() < 0.5:
                    chunks = rng.chunks(n, 8)
                else:
                    chunks = S.boundary_chunks(rng, n, marks)
                yield {'kind': 'factory', 'cls': cls, 'tree': tree, 'chunks': chunks}
        # histories that mix small and large requests (block-size thresholds of buffered implementations)
        sizes = [1, 2, 100, 1000, 4095, 4096, 4097, 8192, 10000, 16384]
        for cls in CLASSES:
            for _ in range(6 if tier == 'quick' else 40):
                tree = make_tree(rng, cls)
                chunks = [rng.choice(sizes) for _ in range(rng.randint(2, 4))]
                if max(chunks) < 4096:
                    chunks.insert(rng.randint(0, len(chunks)), rng.choice(sizes[4:]))
                yield {'kind': 'factory', 'cls': cls, 'tree': tree, 'chunks': chunks, 'mixed': True}
        nfn = 600 if tier == 'quick' else 4000
        for _ in range(nfn):
            fs = rng.choice(S.FS_LIST)
            e = env(rng, fs, None, span=300, window=rng.choice(S.WINDOWS), valid=rng.random() < 0.95)
            lb, dur, rise = S.env_ints(e)
            r = dur // 2 if rise is None else rise
            marks = [lb, lb + r, lb + dur - r, lb + dur]
            off = max(0, rng.choice(marks) + rng.randint(-2, 2)) if rng.random() < 0.6 else rng.randint(0, lb + dur + 5)
            if rng.random() < 0.2:
                off = 0          # from the beginning (spelled with `offset` left out in half of these)
            end = max(off, rng.choice(marks) + rng.randint(-2, 2)) if rng.random() < 0.6 else off + rng.randint(0, 400)
            yield {'kind': 'envelope_fn', 'window': e['window'], 'fs': fs, 'dur': e['dur'], 'rise': e['rise'],
                   'start': e['start'], 'off': off, 'n': end - off}
        for _ in range(nfn // 2):
            fs = rng.choice(S.FS_LIST)
            s = sam(rng, fs, None, span=300)
            d = int(s['delay'] * fs)
            off = max(0, d + rng.randint(-2, 2)) if rng.random() < 0.5 else rng.randint(0, d + 50)
            n = rng.choice([0, 1, 2, max(0, d - off), max(0, d - off + 1), rng.randint(0, 300)])
            yield {'kind': 'sam_fn', 'fs': fs, 'depth': s['depth'], 'fm': s['fm'], 'delay': s['delay'],
                   'off': off, 'n': n}
        for _ in range(nfn // 2):
            fs = rng.choice(S.FS_LIST)
            q = sqenv(rng, fs, None)
            P, duty = S.sq_ints(q)
            i = rng.randint(0, 8)
            st = S.rhe(P * i)
            off = max(0, rng.choice([st, st + duty]) + rng.randint(-2, 2)) if rng.random() < 0.6 else rng.randint(0, 500)
            n = rng.choice([0, 1, 2, 3, rng.randint(0, 300)])
            yield {'kind': 'square_fn', 'fs': fs, 'depth': q['depth'], 'fm': q['fm'], 'duty': q['duty'],
                   'alpha': q['alpha'], 'off': off, 'n': n}
        # the tie the design names explicitly: fs=100, fm=40 (period 2.5), odd offsets
        for off in range(0, 12):
            for n in (1, 2, 3, 7):
                yield {'kind': 'square_fn', 'fs': 100.0, 'depth': 1.0, 'fm': 40.0, 'duty': 0.5, 'alpha': 0,
                       'off': off, 'n': n}
        # the regime newly covered by square_fragment_eq_slice: periods below two samples (several
        # periods per sample, rounded starts repeat) and duty lengths beyond the gap to the next
        # period start (overlapping windows: the later period wins)
        for P in (0.5, 0.75, 1.0, 1.5, 2.5, 3.5):
            for duty in (1.0, 1.5, 2.5):
                for off in (0, 1, 2, 3, 6, 7, 10, 11):
                    for n in (1, 4, 9):
                        yield {'kind': 'square_fn', 'fs': 1000.0, 'depth': 0.5, 'fm': 1000.0 / P, 'duty': duty,
                               'alpha': 0.5, 'off': off, 'n': n}
        yield from self.hardening_cases(rng, tier)
        if tier == 'thorough':
            yield from self.exhaustive_cases()

    # ---- HARDENING.md: input shapes and histories beyond the main generators ------------------------
    @staticmethod
    def pick_n(rng, tree):
        total = S.total_of(tree)
        marks = S.marks_of(tree)
        top = max([total or 0] + [k for k in marks if k < 3000])
        n = min(top + rng.choice([0, 1, 5, 40, 300]), 4000) if rng.random() < 0.8 else rng.randint(1, 1500)
        return max(n, 1), marks

    def hardening_cases(self, rng, tier):
        quick = tier == 'quick'
        noise = ('blnoise', 'firnoise', 'shaped')
        extra = ['fixedlike', 'wrapped_repeat', 'repeat_reject']
        # items 1, 2: representations, spellings, every constructor option at a non-default value, every
        # public FixedWaveform subclass, repeat nested inside other factories, rejected repeats
        for cls in CLASSES + extra:
            m = (4 if quick else 20) if cls in noise else (40 if quick else 200)
            for i in range(m):
                tree = make_tree(rng, cls)
                if cls not in extra or i % 2:
                    tree = vary(rng, tree)
                if cls == 'repeat' and i % 3 == 0:
                    # period and delay at exact .5-sample ties (a repeat that no longer fits is refused by the single
                    # request and by every chunking alike)
                    period = int(round(tree['fs'] / tree['rate']))
                    tree['rate'] = tree['fs'] / (period + 0.5)
                    tree['delay'] = (int(round(tree['fs'] * tree['delay'])) + 0.5) / tree['fs']
                n, marks = self.pick_n(rng, tree)
                chunks = rng.chunks(n, 8) if rng.random() < 0.5 else S.boundary_chunks(rng, n, marks)
                yield {'kind': 'factory', 'cls': cls, 'tree': tree, 'chunks': chunks, 'tag': 'var'}
        for cls in ('gate', 'env', 'sam'):
            for _ in range(15 if quick else 60):
                tree = int_tree(rng, cls)
                n, marks = self.pick_n(rng, tree)
                yield {'kind': 'factory', 'cls': cls, 'tree': tree, 'chunks': S.boundary_chunks(rng, n, marks), 'tag': 'int'}
        # item 9: every factory class built with its optional arguments left out (reference: the documented default
        # spelled out)
        for cls in CLASSES + extra[:2]:
            for i in range((2 if quick else 6) if cls in noise else (10 if quick else 50)):
                tree = defaults_tree(rng, make_tree(rng, cls))
                n, marks = self.pick_n(rng, tree)
                chunks = rng.chunks(n, 6) if rng.random() < 0.5 else S.boundary_chunks(rng, n, marks)
                yield {'kind': 'factory', 'cls': cls, 'tree': tree, 'chunks': chunks, 'tag': 'dflt'}
        # items 5, 6, 7: reset and re-use (after partial draws, after completion, twice in a row, before any draw),
        # get_samples_remaining(), NumPy integer chunk sizes, the caller overwriting what it received, a second
        # object (same arrays / one parameter changed) drawn interleaved, references from a fresh interpreter
        n_pristine = 4 if quick else 24
        for cls in CLASSES + extra[:2]:
            m = (12 if quick else 40) if cls in noise else (40 if quick else 200)
            for _ in range(m):
                tree = make_tree(rng, cls)
                if rng.random() < 0.4:
                    tree = vary(rng, tree)
                n, marks = self.pick_n(rng, tree)
                total = S.total_of(tree)
                c = {'kind': 'factory', 'cls': cls, 'tree': tree, 'tag': 'hist'}
                if total and total > 1 and rng.random() < 0.4:
                    n = rng.randint(1, total - 1)
                    c['gsr'] = total - n
                c['chunks'] = rng.chunks(n, 6) if rng.random() < 0.5 else S.boundary_chunks(rng, n, marks)
                pre = []
                for _ in range(rng.choice([0, 1, 1, 1, 2, 3])):
                    k = rng.choice([0, 1, n, n + 7, rng.randint(1, n + 300)])
                    pre.append(rng.chunks(k, 4) if k else [])
                if pre:
                    c['pre'] = pre
                if rng.random() < 0.3:
                    c['ntype'] = rng.choice(['i64', 'i32'])
                if rng.random() < 0.4:
                    c['mutate'] = True
                r = rng.random()
                if r < 0.15:
                    c['twin'] = {'tree': tree, 'chunks': rng.chunks(n, 6)}
                    c['share'] = True
                elif r < 0.35:
                    t2 = one_param_twin(rng, tree)
                    if t2 is not None:
                        c['twin'] = {'tree': t2, 'chunks': list(c['chunks'])}
                        c['share'] = True       # equal `fixed` leaves below the changed node: one ndarray for both
                if n_pristine and cls in ('gate', 'env', 'cos2', 'sam', 'sqenv', 'tone', 'fixed', 'notch') \
                        and rng.random() < 0.2:
                    c['pristine'] = True
                    n_pristine -= 1
                yield c
        # item 7 (siblings): two stimuli that differ in exactly ONE optional argument (transform callable or none, window
        # name, start, duration; modulation depth / delay ...) built one after the other in this process and drawn with
        # IDENTICAL chunking, in both orders; the reference of the second comes from a separate interpreter in which the
        # first never existed (a module-level memo whose key forgets one argument hands one the other's fragments)
        for cls in ('env', 'env', 'env', 'cos2', 'gate', 'sam', 'sqenv'):
            for i in range(10 if quick else 50):
                tree = make_tree(rng, cls)
                if cls == 'env' and tree['window'] == 'cos2factory':
                    tree['window'] = 'cosine-squared'
                t2 = one_param_twin(rng, tree, key=['transform', 'window', 'start', 'dur'][i % 4] if cls == 'env' else None)
                if t2 is None:
                    continue
                if i % 2:
                    tree, t2 = t2, tree
                n, marks = self.pick_n(rng, tree)
                chunks = rng.chunks(n, 6) if rng.random() < 0.5 else S.boundary_chunks(rng, n, marks)
                yield {'kind': 'factory', 'cls': cls, 'tree': tree, 'chunks': chunks, 'tag': 'sib',
                       'twin': {'tree': t2, 'chunks': list(chunks)}}
        # item 4 (exact ties): square-wave periods whose start lies exactly on x.5 samples
        yield from sqtie_cases(rng, 40 if quick else 300)
        # item 3: far beyond the usual sizes; tiny and huge requests mixed; thousands of draws
        for cls in ('tone', 'gate', 'env', 'sam', 'sqenv', 'sqwave', 'fixed', 'notch', 'repeat'):
            for _ in range(1 if quick else 4):
                tree = big_tree(rng, cls)
                marks = [k for k in S.marks_of(tree) if k > 0]
                if marks and rng.random() < 0.6:
                    chunks = S.boundary_chunks(rng, max(marks) + rng.choice([1, 70000]), marks)
                else:
                    chunks = rng.choice([[1 << 20, 1, (1 << 16) + 3], [3, (1 << 20) + 5, 1], [1 << 16, 1 << 16, (1 << 20) - 1, 7]])
                yield {'kind': 'factory', 'cls': cls, 'tree': tree, 'chunks': chunks, 'tag': 'scale'}
        for cls in rng.sample(CLASSES[:14], 3 if quick else 10):
            tree = make_tree(rng, cls)
            yield {'kind': 'factory', 'cls': cls, 'tree': tree, 'chunks': [rng.randint(1, 3) for _ in range(3000)],
                   'tag': 'many'}
        # fragment functions: every public spelling, sample indices beyond 2^31
        nfn = 300 if quick else 2000
        for i in range(nfn):
            fs = rng.choice(S.FS_LIST)
            huge = i % 5 == 0
            e = env(rng, fs, None, span=300, window=rng.choice(S.WINDOWS), valid=rng.random() < 0.95)
            if huge:
                e['start'] = ((1 << 31) + rng.randint(-3, 1 << 20) + rng.choice([0, 0.5])) / fs
            lb, dur, rise = S.env_ints(e)
            r = dur // 2 if rise is None else rise
            marks = [lb, lb + r, lb + dur - r, lb + dur]
            off = max(0, rng.choice(marks) + rng.randint(-2, 2))
            c = {'kind': 'envelope_fn', 'window': e['window'], 'fs': fs, 'dur': e['dur'], 'rise': e['rise'],
                 'start': e['start'], 'off': off, 'n': rng.choice([0, 1, 2, rng.randint(0, 400)]), 'tag': 'huge' if huge else 'route'}
            route = rng.choice(['kw', 'cos2', 'cos2kw', 'auto', 'np', 'again', 'transform', 'rep'])
            if route in ('cos2', 'cos2kw'):
                c['window'] = 'cosine-squared'
            if route == 'auto':
                c['n'] = lb + dur
            if route == 'again':
                c['again'] = True
            elif route == 'transform':
                c['transform'] = rng.choice(sorted(S.TRANSFORMS))
            elif route == 'rep':
                c['fsrep'] = rng.choice(['np', 'int'])
            else:
                c['route'] = route
            if huge:
                c['base'] = max(0, off - rng.randint(0, 40))
                if route == 'auto':
                    c.pop('route')
                    c['n'] = rng.randint(0, 50)
            yield c
        for i in range(nfn // 2):
            fs = rng.choice(S.FS_LIST)
            huge = i % 5 == 0
            s = sam(rng, fs, None, span=300)
            if huge:
                s['delay'] = ((1 << 31) + rng.randint(0, 1 << 20)) / fs
            d = int(s['delay'] * fs)
            off = max(0, d + rng.randint(-3, 40))
            c = {'kind': 'sam_fn', 'fs': fs, 'depth': rng.choice([s['depth'], 0.0]), 'fm': s['fm'], 'delay': s['delay'],
                 'off': off, 'n': rng.choice([0, 1, 2, max(0, d - off + 1), rng.randint(0, 300)]),
                 'tag': 'huge' if huge else 'route'}
            route = rng.choice(['public', 'publickw', 'np', 'again', 'public'])
            if route == 'again':
                c['again'] = True
            else:
                c['route'] = route
            if route.startswith('public') and rng.random() < 0.1:
                c['equalize'] = False
            if huge:
                c['base'] = max(0, off - rng.randint(0, 40))
            yield c
        for i in range(nfn // 2):
            fs = rng.choice(S.FS_LIST)
            huge = i % 5 == 0
            q = sqenv(rng, fs, None)
            P, duty = S.sq_ints(q)
            st = S.rhe(P * (rng.randint(0, 8) + (int((1 << 31) / P) if huge else 0)))
            off = max(0, rng.choice([st, st + duty]) + rng.randint(-2, 2))
            c = {'kind': 'square_fn', 'fs': fs, 'depth': q['depth'], 'fm': q['fm'], 'duty': rng.choice([q['duty'], 0.0]),
                 'alpha': q['alpha'], 'off': off, 'n': rng.choice([0, 1, 2, 3, rng.randint(0, 300)]),
                 'tag': 'huge' if huge else 'route'}
            route = rng.choice(['kw', 'noalpha', 'np', 'again'])
            if route == 'again':
                c['again'] = True
            else:
                c['route'] = route
                if route == 'noalpha':
                    c['alpha'] = 0
            if huge:
                c['base'] = max(0, off - rng.randint(0, 3 * int(P) + 3))
            yield c
        for i in range(nfn // 3):
            fs = rng.choice(S.FS_LIST)
            huge = i % 4 == 0
            off = (1 << 31) + rng.randint(-2, 1 << 22) if huge else rng.choice([0, rng.randint(1, 5000), rng.randint(1, 5000)])
            c = {'kind': rng.choice(['tone_fn', 'samtone_fn']), 'fs': fs, 'frequency': rng.uniform(20, fs / 4),
                 'fc': rng.uniform(100, fs / 4), 'fm': rng.uniform(2, 90), 'level': rng.choice([1.0, 0.37]),
                 'phase': rng.choice([0, 0.5]), 'polarity': rng.choice([1, -1]), 'off': off, 'n': rng.randint(0, 300),
                 'tag': 'huge' if huge else 'route'}
            if rng.random() < 0.4:
                c['route'] = rng.choice(['kw', 'np'])
            if huge:
                c['base'] = off - rng.randint(0, 40)
            yield c

        # item 9: the fragment functions called with their optional arguments left out (start_time, rise_time, offset,
        # phase, polarity, ... at the documented defaults); reference: the plain call with everything spelled out
        for i in range(nfn // 2):
            fs = rng.choice(S.FS_LIST)
            if i % 2:
                e = env(rng, fs, None, span=300, window=rng.choice(S.WINDOWS), valid=rng.random() < 0.95)
                lb, dur, rise = S.env_ints({**e, 'start': 0.0})
                r = dur // 2 if rise is None else rise
                off = rng.choice([0, max(0, rng.choice([r, dur - r, dur]) + rng.randint(-2, 2))])
                yield {'kind': 'envelope_fn', 'window': rng.choice([e['window'], 'cosine-squared']), 'fs': fs, 'dur': e['dur'],
                       'rise': e['rise'], 'start': rng.choice([0, 0.0]), 'off': off,
                       'n': rng.choice([1, 2, dur + 3, rng.randint(0, 400)]), 'route': 'short', 'tag': 'dflt'}
            else:
                yield {'kind': rng.choice(['tone_fn', 'samtone_fn']), 'fs': fs, 'frequency': rng.uniform(20, fs / 4),
                       'fc': rng.uniform(100, fs / 4), 'fm': rng.uniform(2, 90), 'level': rng.choice([1.0, 0.37]),
                       'phase': 0, 'polarity': 1, 'off': rng.choice([0, rng.randint(1, 5000)]), 'n': rng.randint(1, 300),
                       'route': 'short', 'tag': 'dflt'}

        # siblings at function level: the same fragment request for two envelopes that differ in one argument (transform
        # callable or none, window, start, duration, rise; SAM depth / frequency / delay), one right after the other
        for i in range(nfn // 3):
            fs = rng.choice(S.FS_LIST)
            if i % 3 < 2:
                e = env(rng, fs, None, span=300, window=rng.choice(S.WINDOWS), valid=True)
                lb, dur, rise = S.env_ints(e)
                r = dur // 2 if rise is None else rise
                off = max(1, rng.choice([lb, lb + r, lb + dur - r, lb + dur]) + rng.randint(-2, 2))
                c = {'kind': 'envelope_fn', 'window': e['window'], 'fs': fs, 'dur': e['dur'], 'rise': e['rise'],
                     'start': e['start'], 'off': off, 'n': rng.choice([1, 2, rng.randint(1, 300)]), 'tag': 'sib'}
                key = ['transform', 'transform', 'window', 'start', 'dur'][i % 5]
                if key == 'transform':
                    tf = rng.choice(sorted(S.TRANSFORMS))
                    if i % 2:
                        c['transform'] = tf
                        c['sib'] = {'transform': None}
                    else:
                        c['sib'] = {'transform': tf}
                elif key == 'window':
                    c['sib'] = {'window': rng.choice([w for w in S.WINDOWS if w != c['window']])}
                else:
                    c['sib'] = {key: c[key] + rng.choice([1, 2]) / fs}
            else:
                q = sam(rng, fs, None, span=300)
                d = int(q['delay'] * fs)
                c = {'kind': 'sam_fn', 'fs': fs, 'depth': q['depth'], 'fm': q['fm'], 'delay': q['delay'],
                     'off': max(1, d + rng.randint(-3, 40)), 'n': rng.randint(1, 300), 'tag': 'sib',
                     'route': rng.choice(['public', None])}
                key = rng.choice(['depth', 'fm', 'delay'])
                c['sib'] = {key: {'depth': q['depth'] / 2, 'fm': q['fm'] * 1.5, 'delay': q['delay'] + 1 / fs}[key]}
                if c['route'] is None:
                    c.pop('route')
            yield c

    def exhaustive_cases(self):
        fs = 1000.0
        tone = {'t': 'tone', 'fs': fs, 'frequency': 37.0, 'level': 1.0}
        bbn = {'t': 'bbn', 'fs': fs, 'level': 1.0, 'seed': 3}
        trees = []
        for lb in (0, 1, 3):
            for dur in (0, 1, 4, 6):
                trees.append({'t': 'gate', 'fs': fs, 'start': lb / fs, 'dur': dur / fs, 'in': tone})
                for rise in (None, 0, 1, 2, 3):
                    if rise is not None and 2 * rise > dur:
                        continue
                    trees.append({'t': 'env', 'window': 'cosine-squared', 'fs': fs, 'start': lb / fs, 'dur': dur / fs,
                                  'rise': None if rise is None else rise / fs, 'in': tone})
        for d in (0, 1, 3, 6):
            trees.append({'t': 'sam', 'fs': fs, 'depth': 0.5, 'fm': 90.0, 'delay': d / fs, 'direction': 1, 'in': bbn})
        for P in (2.0, 2.5, 3.0, 5.5, 1.25):
            for duty in (0.5, 1.0, 0.2):
                trees.append({'t': 'sqenv', 'fs': fs, 'depth': 1.0, 'fm': fs / P, 'duty': duty, 'alpha': 0, 'in': tone})
        for cyc in (1, 2, 3, 5):
            for duty in (0.5, 1.0, 0.0):
                trees.append({'t': 'sqwave', 'fs': fs, 'level': 1.0, 'frequency': fs / cyc, 'duty': duty})
        for n in (0, 3, 6):
            trees.append({'t': 'fixed', 'fs': fs, 'n': n, 'seed': 1})
        trees.append({'t': 'repeat', 'fs': fs, 'n': 2, 'skip': 1, 'rate': fs / 4, 'delay': 1 / fs,
                      'in': {'t': 'fixed', 'fs': fs, 'n': 2, 'seed': 1}})
        trees.append({'t': 'gate', 'fs': fs, 'start': 2 / fs, 'dur': 5 / fs,
                      'in': {'t': 'env', 'window': 'hann', 'fs': fs, 'start': 1 / fs, 'dur': 6 / fs, 'rise': 2 / fs,
                             'in': {'t': 'sam', 'fs': fs, 'depth': 1.0, 'fm': 100.0, 'delay': 3 / fs, 'in': bbn}}})
        for tree in trees:
            for n in (12, 7):
                yield {'kind': 'exh', 'cls': tree['t'], 'tree': tree, 'N': n}

    def cases(self, rng, tier):
        self._calls += 1
        gen = self.gen_cases(rng, tier)
        if self._calls > 1:          # failing-input search: lazy
            yield from gen
            return
        allc = list(gen)
        try:
            self.cache.fill(allc + self.corpus(), self.model_lines)
        except Exception:
            pass                      # driver unavailable: impl_lines falls back / reports
        tw = [c for c in allc if c['kind'] == 'factory' and c.get('twin') and c['twin']['tree'] != c['tree']]
        try:
            refs = pristine_batch([(S.explicit(c['twin']['tree']), sum(c['twin']['chunks'])) for c in tw]) if tw else []
            for c, a in zip(tw, refs):
                self.twin_ref[C.case_hash(c)] = a
        except Exception:
            pass                      # no reference interpreter: the in-process reference is used
        yield from allc

    # ---- lines -------------------------------------------------------------------------
    @staticmethod
    def histories(c):
        """Chunk-size lists, each drawn from a fresh generator (exh: a new object per list; factory: one object,
        `reset()` between the lists).  `gsr` = the count the last draw obtains through get_samples_remaining()."""
        if c['kind'] == 'exh':
            return list(S.all_partitions(c['N']))
        return [list(h) for h in c.get('pre', [])] + [list(c['chunks']) + ([c['gsr']] if c.get('gsr') else [])]

    def model_lines(self, c):
        k = c['kind']
        if k in ('factory', 'exh'):
            hs = self.histories(c)
            if k == 'exh':
                ok = model_applies(c['tree'], max(hs, key=len))
            else:
                ok = all(model_applies(c['tree'], h) for h in hs)
            if not ok:
                return []
            expr = S.Plan(c['tree']).expr
            out = []
            for h in hs:
                out.append('new ' + expr)
                out.extend(f'next {n}' for n in h)
            return out
        if k == 'envelope_fn':
            if c.get('transform'):
                return []
            lb, dur, rise = S.env_ints(c)
            return [f"envelope {lb} {dur} {'n' if rise is None else rise} {c['off']} {c['n']}"]
        if k == 'sam_fn':
            if c.get('equalize', True) is False:
                return []
            return [f"sam_envelope {int(c['delay'] * c['fs'])} {c['off']} {c['n']}"]
        if k in ('tone_fn', 'samtone_fn'):
            return []
        if k == 'square_fn':
            if not (S.square_exact(c, c['off'] + c['n'] + 2) and S.square_offsets_exact(c, [c['off']])):
                return []
            P, duty = S.sq_ints(c)
            return [f"square_wave {P.numerator} {P.denominator} {duty} {c['off']} {c['n']}"]
        raise ValueError(k)

    @staticmethod
    def tol(c):
        return S.tree_tol(c['tree']) if c['kind'] in ('factory', 'exh') else 0.0

    @staticmethod
    def compare(plan, mline, arr, tol, scale):
        """Echo the model line when its cells evaluate to exactly `arr`, else describe the difference."""
        if not mline.startswith('ok '):
            return f'ok {len(arr)} samples'
        try:
            val = S.eval_cells(plan, mline[3:])
        except S.CellError as e:
            return f'ok UNEVALUABLE {e}'
        arr = np.asarray(arr)
        if val.shape != arr.shape:
            return f'ok LENGTH {len(arr)}'
        if tol == 0.0:
            if np.array_equal(val, arr):
                return mline
        elif len(arr) == 0 or np.max(np.abs(val - arr)) <= tol * scale:
            return mline
        i = int(np.flatnonzero(val != arr)[0])
        return f'ok DIFF at {i}: cell {S.cell_at(mline[3:], i)} = {val[i]!r}, real {arr[i]!r}'

    ERRS = (ValueError, ZeroDivisionError)

    def run_factory(self, c):
        """Real factory drawn along every history of the case: list of (error | list of chunks).  Optional case
        fields: `pre` (histories drawn before a reset()), `gsr` (last draw through get_samples_remaining()),
        `ntype` (NumPy integer chunk sizes), `mutate` (the caller overwrites every chunk it received),
        `twin` (a second object, built right after the first and drawn interleaved with it; `share`: both are
        built over the same ndarray objects).  The twin's draws are appended as a last entry."""
        if c['kind'] == 'exh':
            out = []
            for h in self.histories(c):
                try:
                    f = S.build_real(c['tree'])
                except self.ERRS as e:
                    out.append(type(e).__name__)
                    continue
                chunks = []
                for n in h:
                    try:
                        chunks.append(np.array(f.next(n)))
                    except self.ERRS as e:
                        chunks.append(type(e).__name__)
                out.append(chunks)
            return out
        hs = self.histories(c)
        twin = c.get('twin')
        pool = {} if c.get('share') else None
        conv = NTYPES.get(c.get('ntype'), int)
        mutate = c.get('mutate')
        try:
            f = S.build_real(c['tree'], pool)
        except self.ERRS as e:
            return [type(e).__name__ for _ in hs] + ([[]] if twin else [])
        g, gq, gout = None, [], []
        if twin:
            try:
                g = S.build_real(twin['tree'], pool)
                gq = list(twin['chunks'])
            except self.ERRS as e:
                gout = type(e).__name__

        def draw(obj, n, rest=False):
            try:
                x = obj.get_samples_remaining() if rest else obj.next(conv(n))
            except self.ERRS as e:
                return type(e).__name__
            keep = np.array(x)
            if mutate:
                scribble(x)
            return keep

        out = []
        for i, h in enumerate(hs):
            if i > 0:
                f.reset()
            chunks = []
            for j, n in enumerate(h):
                rest = bool(c.get('gsr')) and i == len(hs) - 1 and j == len(h) - 1
                chunks.append(draw(f, n, rest))
                if gq:
                    gout.append(draw(g, gq.pop(0)))
            out.append(chunks)
        while gq:
            gout.append(draw(g, gq.pop(0)))
        if twin:
            out.append(gout)
        return out

    def call_fn(self, c, off=None, n=None, ref=False):
        """The fragment function of the case.  `ref`: the reference request (plain positional spelling, explicit
        sample count); otherwise the case's `route` selects the public spelling under test: `kw` keyword arguments,
        `cos2` stim.cos2envelope, `auto` samples left at its default, `public` stim.sam_envelope, `np` NumPy
        integer offset / count, `transform` a pointwise transform; `again`: the caller overwrites the first result
        and asks again."""
        from psiaudio import stim
        off = c['off'] if off is None else off
        n = c['n'] if n is None else n
        k = c['kind']
        route = c.get('route')
        if ref:     # same function, plain spelling
            route = {'cos2kw': 'cos2', 'cos2': 'cos2', 'public': 'public', 'publickw': 'public'}.get(route)
        fs = c['fs'] if ref else S.rep(c['fs'], c.get('fsrep'))
        if route == 'np':
            off, n = np.int64(off), np.int64(n)

        # a caller who wants the fragment from the beginning simply leaves `offset` out: the default must BE 0
        omit = (not ref) and route is None and int(off) == 0 and int(n) % 2 == 0

        # `short`: every optional argument whose value is the documented default is left out of the call
        short = (not ref) and route == 'short'
        more = {'samples': n}
        if int(off) != 0:
            more['offset'] = off

        def once():
            if k == 'envelope_fn':
                tf = S.TRANSFORMS[c['transform']] if c.get('transform') else None
                if short and tf is None and c['start'] == 0:
                    if c['window'] == 'cosine-squared' and c['rise'] is not None and int(n) % 2:
                        return stim.cos2envelope(fs, c['dur'], c['rise'], **more)
                    if c['rise'] is None:
                        return stim.envelope(c['window'], fs, c['dur'], **more)
                    return stim.envelope(c['window'], fs, c['dur'], c['rise'], **more)
                if omit and tf is None:
                    if c['window'] == 'cosine-squared' and int(n) % 4 == 0:
                        return stim.cos2envelope(fs, c['dur'], c['rise'], start_time=c['start'], samples=n)
                    return stim.envelope(c['window'], fs, c['dur'], c['rise'], start_time=c['start'], samples=n)
                if route == 'kw':
                    return stim.envelope(window=c['window'], fs=fs, duration=c['dur'], rise_time=c['rise'], offset=off,
                                         start_time=c['start'], samples=n, transform=tf)
                if route == 'cos2':
                    return stim.cos2envelope(fs, c['dur'], c['rise'], off, c['start'], n)
                if route == 'cos2kw':
                    return stim.cos2envelope(fs=fs, duration=c['dur'], rise_time=c['rise'], offset=off,
                                             start_time=c['start'], samples=n)
                if route == 'auto':
                    return stim.envelope(c['window'], fs, c['dur'], c['rise'], off, c['start'])
                if tf is not None:
                    return stim.envelope(c['window'], fs, c['dur'], c['rise'], off, c['start'], n, tf)
                return stim.envelope(c['window'], fs, c['dur'], c['rise'], off, c['start'], n)
            if k == 'sam_fn':
                if route == 'public':
                    return stim.sam_envelope(off, n, fs, c['depth'], c['fm'], c['delay'], c.get('equalize', True))
                if route == 'publickw':
                    return stim.sam_envelope(offset=off, samples=n, fs=fs, depth=c['depth'], fm=c['fm'], delay=c['delay'],
                                             equalize=c.get('equalize', True))
                f = S.build_real({'t': 'sam', 'fs': c['fs'], 'depth': c['depth'], 'fm': c['fm'], 'delay': c['delay'],
                                  'in': {'t': 'silence', 'fill': 1}})
                return stim._sam_envelope(off, n, f.fs, f.depth, f.fm, f.delay, f.eq_phase, f.eq_power)
            if k == 'square_fn':
                if route == 'kw':
                    return stim.square_wave(fs=fs, offset=off, samples=n, depth=c['depth'], fm=c['fm'],
                                            duty_cycle=c['duty'], alpha=c['alpha'])
                if route == 'noalpha':
                    return stim.square_wave(fs, off, n, c['depth'], c['fm'], c['duty'])
                return stim.square_wave(fs, off, n, c['depth'], c['fm'], c['duty'], c['alpha'])
            if k == 'tone_fn':
                if route == 'kw':
                    return stim.tone(fs=fs, frequency=c['frequency'], level=c['level'], phase=c['phase'],
                                     polarity=c['polarity'], calibration=None, samples=n, offset=off)
                if omit:
                    return stim.tone(fs, c['frequency'], c['level'], c['phase'], c['polarity'], None, n)
                if short and c['phase'] == 0 and c['polarity'] == 1:
                    return stim.tone(fs, c['frequency'], c['level'], **more)
                return stim.tone(fs, c['frequency'], c['level'], c['phase'], c['polarity'], None, n, off)
            if k == 'samtone_fn':
                if omit:
                    return stim.sam_tone(fs, c['fc'], c['fm'], c['level'], 1, c['phase'], 0, 0, c['polarity'], None, n)
                if short and c['phase'] == 0 and c['polarity'] == 1:
                    return stim.sam_tone(fs, c['fc'], c['fm'], c['level'], **more)
                return stim.sam_tone(fs, c['fc'], c['fm'], c['level'], 1, c['phase'], 0, 0, c['polarity'], None, n, off,
                                     None, True, True)
            raise KeyError(k)

        try:
            with memory_cap(off + n > 1 << 24):
                x = once()
                if c.get('again') and not ref:
                    scribble(x)
                    x = once()
                return np.array(x)
        except (ValueError, ZeroDivisionError, MemoryError) as e:
            return type(e).__name__

    def sib_run(self, c):
        """Sibling case: B = the case itself, A = the case with the `sib` overrides.  Both full envelopes first (B's, then
        A's: the references exist before either fragment is asked for), then the same fragment request of A and of B."""
        b = {k: v for k, v in c.items() if k != 'sib'}
        a = {**b, **c['sib']}
        if a.get('transform') is None:
            a.pop('transform', None)
        base = c.get('base', 0)
        span = c['off'] + c['n'] - base
        out = {'fullB': self.call_fn(b, base, span, ref=True), 'fullA': self.call_fn(a, base, span, ref=True)}
        out['fragA'] = self.call_fn(a)
        out['fragB'] = self.call_fn(b)
        return out

    def fn_plan(self, c):
        k = c['kind']
        node = dict(c)
        node['t'] = {'envelope_fn': 'env', 'sam_fn': 'sam', 'square_fn': 'sqenv'}[k]
        plan = S.Plan.__new__(S.Plan)
        plan.tree, plan.nodes, plan._src, plan.expr = node, {0: node}, {}, ''
        return plan

    def model_out(self, c, ml):
        """Model output for the case; when the driver cannot be run the lines say so (the oracle is unaffected)."""
        try:
            return self.cache.get(c, self.model_lines)
        except Exception as e:
            return [f'no-model ({type(e).__name__})'] * len(ml)

    def impl_lines(self, c):
        ml = self.model_lines(c)
        k = c['kind']
        if k in ('factory', 'exh'):
            runs = self.run_factory(c)
            self._last = (C.case_hash(c), runs)
            if not ml:
                return []
            mout = self.model_out(c, ml)
            plan = S.Plan(c['tree'])
            plan.hint = max(sum(h) for h in self.histories(c))
            tol = self.tol(c)
            scale = 1.0
            if tol:
                full = np.asarray(S.build_real(S.explicit(c['tree'])).next(max(sum(h) for h in self.histories(c))))
                scale = float(np.max(np.abs(full))) if len(full) else 1.0
            out, j = [], 0
            for h, run in zip(self.histories(c), runs):
                if isinstance(run, str):
                    out.append(f'err {run}')
                    out.extend('bad-op' for _ in h)
                    j += 1 + len(h)
                    continue
                out.append('ok')
                j += 1
                for i, n in enumerate(h):
                    if i >= len(run):
                        out.append('skipped')
                    elif isinstance(run[i], str):
                        out.append(f'err {run[i]}')
                    else:
                        out.append(self.compare(plan, mout[j], run[i], tol, scale))
                    j += 1
            return out
        sib = self.sib_run(c) if c.get('sib') else None
        arr = sib['fragB'] if sib else self.call_fn(c)
        self._last = (C.case_hash(c), arr, sib)
        if not ml:
            return []
        if isinstance(arr, str):
            return [f'err {arr}']
        mout = self.model_out(c, ml)
        return [self.compare(self.fn_plan(c), mout[0], arr, 0.0, 1.0)]

    # ---- the property itself --------------------------------------------------------------
    def oracle(self, c, out):
        k = c['kind']
        if any(l.startswith('HARNESS-EXC') for l in out):
            return out[0]
        last = self._last[1] if self._last and self._last[0] == C.case_hash(c) else None
        if k in ('factory', 'exh'):
            runs = last if last is not None else self.run_factory(c)
            hs = self.histories(c)
            nmax = max(sum(h) for h in hs)
            # the reference: ONE request to a fresh generator, every optional argument spelled out (HARDENING item 9)
            rtree = S.explicit(c['tree'])
            try:
                full = np.array(S.build_real(rtree).next(nmax))
            except (ValueError, ZeroDivisionError) as e:
                # the single request is refused: every history must be refused too
                for h, run in zip(hs, runs):
                    if not isinstance(run, str) and not any(isinstance(x, str) for x in run) and sum(h) == nmax:
                        return f'single request raises {type(e).__name__} but chunks {h} are served'
                return None
            tol = self.tol(c)
            scale = float(np.max(np.abs(full))) if len(full) else 1.0
            if c.get('pristine') and c['kind'] == 'factory':
                # the reference of the property, from an interpreter in which nothing else has run
                try:
                    ref = pristine_draw(rtree, nmax)
                except S.HelperFailed as e:
                    return f'a single request for {nmax} samples in a fresh interpreter: {e}'
                if not S.same(full, ref, tol):
                    return (f'a single request for {nmax} samples differs from the same request in a fresh interpreter '
                            f'at sample {S.first_diff(full, ref)}')
            for h, run in zip(hs, runs):
                if isinstance(run, str) or any(isinstance(x, str) for x in run):
                    err = run if isinstance(run, str) else next(x for x in run if isinstance(x, str))
                    return f'chunks {h}: raised {err} but a single request for {sum(h)} samples is served'
                if not h:
                    continue            # nothing drawn between two resets
                got = np.concatenate(run) if run else np.zeros(0)
                want = full[:sum(h)] if sum(h) == nmax else np.array(S.build_real(rtree).next(sum(h)))
                if got.shape != want.shape:
                    return f'chunks {h}: {len(got)} samples delivered, {len(want)} requested'
                bad = (got != want) if tol == 0.0 else (np.abs(got - want) > tol * scale)
                if bad.any():
                    i = int(np.flatnonzero(bad)[0])
                    return (f'chunks {h} differ from a single request for {sum(h)} samples at sample {i}: '
                            f'{got[i]!r} vs {want[i]!r} ({int(bad.sum())} samples differ)')
            if c['kind'] == 'factory' and c.get('twin'):
                return self.twin_oracle(c, runs[len(hs)] if len(runs) > len(hs) else [])
            return None
        base = c.get('base', 0)
        if c.get('sib'):
            hit = self._last[2] if self._last and self._last[0] == C.case_hash(c) and len(self._last) > 2 else None
            sib = hit or self.sib_run(c)
            # the sibling asked first obeys the property as well (its full envelope was computed before its fragment)
            fa, fr = sib['fullA'], sib['fragA']
            if isinstance(fa, str) != isinstance(fr, str):
                return 'sibling call: fragment and full envelope do not fail alike'
            if not isinstance(fa, str) and not np.array_equal(fr, fa[c['off'] - base:c['off'] - base + c['n']]):
                return (f"sibling call {c['sib']} made after the full envelope of the case was computed: its fragment "
                        f"(offset {c['off']}, samples {c['n']}) differs from the slice of its own full envelope")
            frag, full = sib['fragB'], sib['fullB']
        else:
            frag = last if last is not None else self.call_fn(c)
            # the full envelope from sample 0; for offsets beyond 2^31 (no machine holds that envelope) a longer fragment
            # that starts `back` samples earlier: two slices of one envelope agree where they overlap
            full = self.call_fn(c, base, c['off'] + c['n'] - base, ref=True)
        if isinstance(frag, str) or isinstance(full, str):
            return None if frag == full else f'fragment: {frag if isinstance(frag, str) else "served"}, full: {full if isinstance(full, str) else "served"}'
        want = full[c['off'] - base:c['off'] - base + c['n']]
        if frag.shape != want.shape:
            return f"fragment (offset {c['off']}, samples {c['n']}) has {len(frag)} samples"
        if not np.array_equal(frag, want):
            i = int(np.flatnonzero(frag != want)[0])
            return (f"fragment (offset {c['off']}, samples {c['n']}) differs from the slice of the full envelope at "
                    f"{i}: {frag[i]!r} vs {want[i]!r}")
        return None

    def twin_oracle(self, c, run):
        """The second object (built after the first, drawn interleaved with it) obeys the property by itself."""
        tw = c['twin']
        h = list(tw['chunks'])
        n = sum(h)
        try:
            want = self.twin_ref.get(C.case_hash(c))
            if want is None:
                want = pristine_draw(S.explicit(tw['tree']), n) if c.get('pristine') else \
                    np.array(S.build_real(S.explicit(tw['tree'])).next(n))
            elif want.ndim == 0:
                raise ValueError(str(want))
        except self.ERRS as e:
            refused = isinstance(run, str) or (len(run) > 0 and all(isinstance(x, str) for x in run))
            return None if refused else f'second object: single request raises {type(e).__name__} but chunks are served'
        if isinstance(run, str) or any(isinstance(x, str) for x in run):
            return f'second object: chunks {h} raised but a single request for {n} samples is served'
        got = np.concatenate(run) if run else np.zeros(0)
        tol = S.tree_tol(tw['tree'])
        if not S.same(got, want, tol):
            i = S.first_diff(got, want)
            return (f'second object (built after and drawn interleaved with the first): chunks {h} differ from a single '
                    f'request for {n} samples at sample {i}' + (f': {got[i]!r} vs {want[i]!r}' if i >= 0 else ''))
        return None

    def nontrivial(self, c, out):
        if c['kind'] == 'factory':
            return len([n for n in c['chunks'] if n > 0]) >= 2
        if c['kind'] == 'exh':
            return True
        return c['off'] > 0 and c['n'] > 0

    def kind(self, c):
        return c['kind'] + (':' + c['cls'] if 'cls' in c else '') + ('/' + c['tag'] if c.get('tag') else '')

    def known(self, c, failure):
        return None

    # ---- search / minimisation ------------------------------------------------------------
    def neighbours(self, c, rng):
        if c['kind'] == 'factory':
            n = sum(c['chunks'])
            for _ in range(30):
                d = copy.deepcopy(c)
                d.pop('gsr', None)      # (the count get_samples_remaining() is expected to deliver belongs to the old chunks)
                d['chunks'] = S.boundary_chunks(rng, max(n + rng.randint(0, 3), 1), S.marks_of(c['tree']))
                yield d
        elif c['kind'] != 'exh':
            for do in (-2, -1, 0, 1, 2):
                for dn in (-1, 0, 1, 2):
                    d = dict(c)
                    d['off'] = max(c.get('base', 0), c['off'] + do)
                    d['n'] = max(0, c['n'] + dn)
                    yield d

    def shrink_candidates(self, c):
        if c['kind'] == 'exh':
            for h in S.all_partitions(c['N']):
                yield {'kind': 'factory', 'cls': c['cls'], 'tree': c['tree'], 'chunks': h}
            return
        if c['kind'] != 'factory':
            if c['n'] > 1:
                yield {**c, 'n': c['n'] // 2}
                yield {**c, 'n': c['n'] - 1}
            if c['off'] > c.get('base', 0):
                yield {**c, 'off': c['off'] - 1, 'n': c['n'] + 1}
            for key in ('route', 'again', 'fsrep', 'sib'):
                if key in c:
                    yield {k: v for k, v in c.items() if k != key}
            return
        ch = c['chunks']
        for key in ('pristine', 'twin', 'pre', 'gsr', 'mutate', 'ntype', 'share'):
            if key in c:
                yield {k: v for k, v in c.items() if k != key}
        if c.get('pre'):
            yield {**c, 'pre': c['pre'][1:]}
            yield {**c, 'pre': [h[:-1] for h in c['pre']]}
        if c.get('twin') or c.get('gsr'):
            return
        if 'in' in c['tree'] and c['tree']['t'] != 'repeat':
            yield {**c, 'tree': c['tree']['in']}
            if 'in' in c['tree']['in'] and c['tree']['in']['t'] != 'repeat':
                yield {**c, 'tree': {**c['tree'], 'in': c['tree']['in']['in']}}
        for i in range(len(ch) - 1):
            yield {**c, 'chunks': ch[:i] + [ch[i] + ch[i + 1]] + ch[i + 2:]}
        if len(ch) > 1:
            yield {**c, 'chunks': ch[:-1]}
        for i in range(len(ch)):
            if ch[i] > 1:
                yield {**c, 'chunks': ch[:i] + [ch[i] // 2] + ch[i + 1:]}
                yield {**c, 'chunks': ch[:i] + [ch[i] - 1] + ch[i + 1:]}

    def describe(self, c):
        if c['kind'] in ('factory', 'exh'):
            return f"{S.Plan(c['tree']).expr} | chunks {c.get('chunks', 'all partitions of %s' % c.get('N'))} | {c['tree']}"[:600]
        return str(c)


SPEC = C01()
