#!/bin/sh
# r4test.sh <ID> [extra check ids]: file the round-4 seed of a property into seeded_incoming/, confirm + test it; one summary line
id=$1; shift
mkdir -p /verif/seeded_incoming/r4_$id
[ -d /tmp/seed/$id/out ] && cp /tmp/seed/$id/out/* /verif/seeded_incoming/r4_$id/ 2>/dev/null
c=$(/verif/harness/confirm_seed.sh /verif/seeded_incoming/r4_$id 1 2>&1 | grep -v imports | awk -F: '{print $2}' | cut -c1-22 | tr '\n' '|')
t=$(/verif/harness/seedtest_wt.sh /verif/seeded_incoming/r4_$id/patch_1.diff $id "$@" 2>&1 | cut -c1-60 | tr '\n' ';')
echo "r4 $id confirm[$c] test[$t]"
