"""C17 — reject_epochs forwards exactly the epochs under threshold, metadata aligned.

Model: lean/PsiModel/Reject.lean (driver `reject`).  A case is one coroutine (criterion,
constant or callable threshold) and a sequence of batches.  Sample values and thresholds
live on the lattice k/4 (exact in binary64, also their differences), so the criterion is
exact and values equal to the threshold occur on purpose.
"""
import copy

import numpy as np

from .framework import Spec
from .c11 import enc_ch, enc_md, ilist

SCALE = 4


def crit(mode, row):
    return max(abs(v) for v in row) if mode == 'abs' else max(row) - min(row)


class C17(Spec):
    PROP = 'C17'
    MODEL = 'reject'
    PROOF_MODULES = ['PsiProofs.C17']
    DESIGN_REF = 'DESIGN.md §6 C17'
    TRUST = [
        'modelled, not verified: np.max/np.abs/np.ptp over the last axis (exact on the dyadic lattice used), '
        'boolean-mask indexing of the epoch axis (NumPy layer of PsiModel/PData.lean)',
        'sample values and thresholds are integers/4 in the correspondence runs; the theorems are about an integer-valued criterion',
    ]
    ASSUMPTIONS = ['batches are 3-D (epoch, 1, time) with at least one sample per epoch; thresholds are finite numbers']
    RULE = ('one coroutine per case: criterion x constant/callable threshold x 1-4 batches, each plain or annotated, '
            '0-5 epochs of 1-4 samples on the lattice {0, ±1/4 … ±2, ±th, ±(th ± 1/4)}; refused shapes (2 channels, '
            '2-D, 1-D, 4-D plain) interleaved; quick additionally enumerates every single batch of <= 2 epochs x 2 samples over '
            'a 7-point lattice around the threshold. Non-trivial = at least one epoch accepted and one rejected in the case, or a refusal.')
    exhaustive_note = {
        'quick': 'every batch of 1-2 epochs x 1-2 samples with values in {-th-1/4, -th, -th+1/4, 0, th-1/4, th, th+1/4}, both criteria, plain and annotated',
        'thorough': 'every batch of 1-3 epochs x 1-2 samples and of 1-2 epochs x 3 samples over the same 7-point lattice, both criteria, plain and annotated',
    }
    PARALLEL = 16

    def mk_batch(self, rng, th, annot=None, bad=None):
        ne = rng.choice([0, 1, 1, 2, 3, 3, 4, 5])
        nt = rng.randint(1, 4)
        lattice = [-8, -4, -2, -1, 0, 1, 2, 4, 8, th, -th, th - 1, th + 1, -th + 1, -th - 1, th // 2]
        shape = [ne, 1, nt]
        annot = rng.random() < 0.5 if annot is None else annot
        if bad == 'multi':
            shape = [max(ne, 1), 2, nt]
        elif bad == '2d':
            shape = [1, nt] if rng.random() < 0.5 else [2, nt]
        elif bad == '1d':
            shape = [nt]
        elif bad == '4d':
            shape, annot = [2, 1, 1, nt], False
        n = int(np.prod(shape))
        vals = [rng.choice(lattice) for _ in range(n)]
        b = {'th': th, 'annot': annot, 'shape': shape, 'vals': vals}
        if annot:
            nd = len(shape)
            b['s0'] = rng.choice([0, 5, -3])
            b['fs'] = [1000, 1]
            b['ch'] = None if nd == 1 else ['c%d' % i for i in range(shape[-2])]
            off = rng.choice([0, 10])
            b['md'] = [off + i for i in range(shape[0])] if nd == 3 else 7
        return b

    def cases(self, rng, tier):
        import itertools
        quick = tier == 'quick'
        # exhaustive small batches around the threshold
        th = 4
        lat = [-th - 1, -th, -th + 1, 0, th - 1, th, th + 1]
        sizes = [(1, 1), (1, 2), (2, 1), (2, 2)] + ([] if quick else [(3, 1), (3, 2), (1, 3), (2, 3)])
        for mode in ('abs', 'amp'):
            for ne, nt in sizes:
                for vals in itertools.product(lat, repeat=ne * nt):
                    for annot in (False, True):
                        b = {'th': th, 'annot': annot, 'shape': [ne, 1, nt], 'vals': list(vals)}
                        if annot:
                            b.update({'s0': 5, 'fs': [1000, 1], 'ch': ['c0'], 'md': list(range(ne))})
                        yield {'kind': 'exhaustive', 'mode': mode, 'callable': False, 'batches': [b]}
        n = 3000 if quick else 60000
        for _ in range(n):
            mode = rng.choice(['abs', 'amp'])
            call = rng.random() < 0.5
            th0 = rng.choice([2, 4, 8, 3, 2, 4, 0, -2])         # incl. zero and negative thresholds
            batches = []
            for _b in range(rng.randint(1, 4)):
                th = rng.choice([2, 4, 8, 3, 1, 0, -1]) if call else th0
                bad = rng.choice(['multi', '2d', '1d', '4d']) if rng.random() < 0.08 else None
                batches.append(self.mk_batch(rng, th, bad=bad))
            c = {'kind': 'sequence', 'mode': mode, 'callable': call, 'batches': batches}
            r = rng.random()
            if r < 0.25:
                # acquisition hardware delivers integer counts: the same lattice values as unsigned / signed integers
                # (unscaled; unsigned: |v| + 1, so that every epoch's minimum is non-zero) or as float32
                c['dtype'] = rng.choice(['uint8', 'uint16', 'int16', 'float32'])
                if c['dtype'].startswith('uint'):
                    for b in batches:
                        b['vals'] = [abs(v) + 1 for v in b['vals']]
            yield c

    def model_lines(self, c):
        lines = [f"mode {c['mode']}"]
        for b in c['batches']:
            l = f"send {b['th']} {'pd' if b['annot'] else 'plain'} {ilist(b['shape'])} {ilist(b['vals'])}"
            if b['annot']:
                l += f" {b['s0']} {b['fs'][0]}/{b['fs'][1]} {enc_ch(b['ch'])} {enc_md(b['md'])}"
            lines.append(l)
        return lines

    def impl_lines(self, c):
        from psiaudio import pipeline as P
        cur = [None]
        got, status = [], []
        mode = {'abs': 'absolute value', 'amp': 'amplitude'}[c['mode']]
        dt = c.get('dtype')
        scale = 1 if dt and 'int' in dt else SCALE      # integer dtypes carry the lattice values themselves
        th = (lambda: cur[0]) if c['callable'] else c['batches'][0]['th'] / scale
        co = P.reject_epochs(th, mode, status.append, got.append)
        out = ['ok']
        for b in c['batches']:
            cur[0] = b['th'] / scale
            if dt and 'int' in dt:
                data = np.array(b['vals'], dtype=dt).reshape(b['shape'])
            else:
                data = (np.array(b['vals'], dtype=dt or float) / SCALE).reshape(b['shape'])
            if b['annot']:
                md = [{'i': v} for v in b['md']] if isinstance(b['md'], list) else {'i': b['md']}
                data = P.PipelineData(data, fs=b['fs'][0] / b['fs'][1], s0=b['s0'],
                                      channel=list(b['ch']) if isinstance(b['ch'], list) else b['ch'], metadata=md)
            del got[:], status[:]
            try:
                co.send(data)
            except (ValueError, StopIteration, IndexError, TypeError, KeyError) as e:
                out.append(f'err {type(e).__name__}')
                continue
            if len(status) != 1:
                out.append(f'status-callback-called-{len(status)}-times')
                continue
            mask = ''.join('1' if v else '0' for v in np.asarray(status[0]).tolist()) or '-'
            if not got:
                out.append(f'ok mask={mask} fwd=none')
                continue
            if len(got) != 1:
                out.append(f'target-called-{len(got)}-times')
                continue
            v = got[0]
            arr = np.asarray(v)
            if arr.size == 0:
                fwd = 'empty'
            else:
                rows = arr.reshape(arr.shape[0], -1) if arr.ndim >= 1 else arr.reshape(1, -1)
                fwd = ';'.join(ilist([int(round(x * scale)) for x in r]) for r in rows.tolist())
            line = f'ok mask={mask} fwd={fwd} shape={ilist(arr.shape)}'
            if b['annot']:
                if not isinstance(v, P.PipelineData):
                    line += ' not-annotated'
                else:
                    md = v.metadata
                    ids = []
                    for m in (md if isinstance(md, list) else [md]):
                        ok = isinstance(m, dict) and m.get('reject_threshold') == cur[0] and set(m) == {'i', 'reject_threshold'}
                        ids.append(str(m['i']) if ok else 'bad:' + repr(m).replace(' ', ''))
                    mds = ('l:' + (','.join(ids) if ids else '-')) if isinstance(md, list) else 's:' + ids[0]
                    from fractions import Fraction
                    fr = Fraction(float(v.fs))
                    ch = v.channel
                    line += f' md={mds} s0={int(v.s0)} fs={fr.numerator}/{fr.denominator} ch={enc_ch(ch)}'
            out.append(line)
        return out

    def oracle(self, c, out):
        if out and out[0].startswith('HARNESS-EXC'):
            return out[0]
        if len(out) != 1 + len(c['batches']):
            return f'adapter produced {len(out)} lines'
        alive = True
        for n, b in enumerate(c['batches']):
            line = out[n + 1]
            if line.startswith('HARNESS-EXC'):
                return line
            if not alive:
                continue
            sh = b['shape']
            refused = len(sh) != 3 or sh[1] != 1
            if refused:
                if not line.startswith('err '):
                    return f"batch {n}: input of shape {sh} ({'annotated' if b['annot'] else 'plain'}) was not refused: {line[:80]}"
                alive = False
                continue
            ne, _, nt = sh
            if nt == 0:
                alive = not line.startswith('err ')
                continue
            rows = [b['vals'][i * nt:(i + 1) * nt] for i in range(ne)]
            want = [crit(c['mode'], r) < b['th'] for r in rows]
            if line.startswith('err '):
                return f'batch {n}: a valid batch of shape {sh} raised {line[4:]}'
            f = dict(p.split('=', 1) for p in line[3:].split(' ') if '=' in p)
            mask = [] if f.get('mask') == '-' else [ch == '1' for ch in f.get('mask', '')]
            if mask != want:
                return (f"batch {n}: status callback got mask {f.get('mask')} but the criteria {[crit(c['mode'], r) for r in rows]} "
                        f"against threshold {b['th']} (units of 1/4, strict) give {''.join('1' if w else '0' for w in want)}")
            keep = [r for r, w in zip(rows, want) if w]
            if not keep:
                if f.get('fwd') != 'none':
                    return f'batch {n}: nothing accepted but the target was called with {f.get("fwd")}'
                continue
            if f.get('fwd') == 'none':
                return f'batch {n}: {len(keep)} epochs accepted but nothing was forwarded'
            if f['fwd'] == 'empty':
                return f'batch {n}: an empty array was forwarded'
            got = [[int(v) for v in r.split(',')] for r in f['fwd'].split(';')]
            if got != keep:
                return f'batch {n}: forwarded {got}, accepted epochs in order are {keep}'
            if b['annot']:
                ids = [str(i) for i, w in zip(b['md'], want) if w]
                if f.get('md') != 'l:' + ','.join(ids):
                    return f"batch {n}: forwarded metadata {f.get('md')} but the accepted epochs carry {ids}"
        return None

    def nontrivial(self, c, out):
        ms = ''.join(l.split('mask=')[1].split(' ')[0] for l in out if 'mask=' in l)
        return ('0' in ms and '1' in ms) or any(l.startswith('err') for l in out)

    def kind(self, c):
        return c['kind']

    def neighbours(self, c, rng):
        for n, b in enumerate(c['batches']):
            for i in range(len(b['vals'])):
                for d in (-1, 1):
                    cc = copy.deepcopy(c)
                    cc['batches'][n]['vals'][i] += d
                    yield cc

    def shrink_candidates(self, c):
        if len(c['batches']) > 1:
            for i in range(len(c['batches'])):
                cc = copy.deepcopy(c)
                del cc['batches'][i]
                if not cc['callable']:
                    pass
                yield cc
        for n, b in enumerate(c['batches']):
            if len(b['shape']) == 3 and b['shape'][0] > 1:
                ne, _, nt = b['shape']
                for i in range(ne):
                    cc = copy.deepcopy(c)
                    bb = cc['batches'][n]
                    bb['shape'][0] -= 1
                    del bb['vals'][i * nt:(i + 1) * nt]
                    if bb['annot'] and isinstance(bb.get('md'), list):
                        del bb['md'][i]
                    yield cc

    def describe(self, c):
        bs = '; '.join(f"send({'PipelineData' if b['annot'] else 'ndarray'} shape {b['shape']} values/4 {b['vals']}, th={b['th']}/4)" for b in c['batches'])
        return f"reject_epochs(mode={c['mode']}, threshold {'callable' if c['callable'] else 'constant'}): {bs}"


SPEC = C17()
