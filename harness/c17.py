"""C17 — reject_epochs forwards exactly the epochs under threshold, metadata aligned.

Model: lean/PsiModel/Reject.lean (driver `reject`).  A case is one coroutine (criterion,
constant or callable threshold) and a sequence of batches.  Sample values and thresholds
live on the lattice k/4 (exact in binary64, also their differences), so the criterion is
exact and values equal to the threshold occur on purpose.
"""
import copy

import numpy as np

from .framework import Spec
from .c11 import enc_ch, enc_md, ilist

SCALE = 4
NANBIG = 10 ** 6      # lattice stand-in for a NaN sample (see nan_cases)
INF = 10 ** 15          # a threshold of +-INF lattice units stands for +-np.inf on the implementation side
INT_DTYPES = ['uint8', 'uint16', 'int16', 'int8', 'int32', 'int64']
FLOAT_DTYPES = ['float32', 'float16']


def crit(mode, row):
    return max(abs(v) for v in row) if mode == 'abs' else max(row) - min(row)


class Enc:
    """How the integer lattice of a case is laid into floating-point / integer sample values.

    * default: v -> v/4 (exact);  integer dtypes: v -> v.
    * 'ulp' (criterion 'absolute value'): an odd, strictly increasing map whose neighbouring lattice points are
      NEIGHBOURING binary64 numbers (g(0) = 0, g(k) = the (k-1)-th float above a base such as 0.1), so a value just
      below / equal to / just above the threshold differs from it by one unit in the last place;
    * 'offset' (criterion 'amplitude'): v -> C + v * 2^-40 (exact in binary64, invisible in binary32): the
      peak-to-peak amplitude is (max - min) * 2^-40 exactly.
    The criterion on the encoded values is below the encoded threshold iff the lattice criterion is below the lattice
    threshold (monotone maps), which is all the oracle uses."""

    def __init__(self, c):
        self.kind = c.get('enc')
        self.dt = c.get('dtype')
        self.int = bool(self.dt) and 'int' in self.dt
        self.base = float(c.get('encbase', 0.1))
        self.table = {}

    def _ulp(self, k):
        if k == 0:
            return 0.0
        x = self.base
        for _ in range(abs(k) - 1):
            x = float(np.nextafter(x, np.inf))
        return x if k > 0 else -x

    def value(self, v):
        if self.kind == 'ulp':
            x = self._ulp(v)
        elif self.kind == 'offset':
            x = self.base + v * 2.0 ** -40
        elif self.int:
            x = v
        else:
            x = v / SCALE
        self.table[float(x)] = v
        return x

    def threshold(self, th):
        if abs(th) >= INF:
            return float('inf') if th > 0 else float('-inf')
        if self.kind == 'ulp':
            return self._ulp(th)
        if self.kind == 'offset':
            return th * 2.0 ** -40
        return float(th) if self.int else th / SCALE

    def array(self, vals, shape):
        if self.kind:
            return np.array([self.value(v) for v in vals], dtype=float).reshape(shape)
        if self.int:
            return np.array(vals, dtype=self.dt).reshape(shape)
        return (np.array(vals, dtype=self.dt or float) / SCALE).reshape(shape)

    def decode(self, x):
        if x != x:
            return 'nan'
        if self.kind:
            return self.table.get(float(x), 'off-lattice:' + repr(float(x)))
        return int(round(float(x) * (1 if self.int else SCALE)))


def th_repr(thf, how):
    """the same threshold value as another Python / NumPy type (only where the value is exactly representable)."""
    if how == 'int' and np.isfinite(thf) and thf == int(thf):
        return int(thf)
    if how == 'np64':
        return np.float64(thf)
    if how == 'np32' and float(np.float32(thf)) == thf:
        return np.float32(thf)
    if how == 'npint' and np.isfinite(thf) and thf == int(thf):
        return np.int64(int(thf))
    if how == 'arr0d':
        return np.array(thf)
    return thf


def relayout(data, how):
    """the same values in another memory layout."""
    if how == 'F':
        return np.asfortranarray(data)
    if how == 'strided':
        big = np.zeros(data.shape[:-1] + (2 * data.shape[-1] + 1,), dtype=data.dtype)
        big[..., 1::2] = data
        return big[..., 1::2]
    if how == 'rev':
        return data[..., ::-1].copy()[..., ::-1]
    if how == 'epochstride' and data.ndim == 3:
        big = np.zeros((2 * data.shape[0] + 1,) + data.shape[1:], dtype=data.dtype)
        big[1::2] = data
        return big[1::2]
    return data


class C17(Spec):
    PROP = 'C17'
    MODEL = 'reject'
    PROOF_MODULES = ['PsiProofs.C17']
    DESIGN_REF = 'DESIGN.md §6 C17'
    TRUST = [
        'modelled, not verified: np.max/np.abs/np.ptp over the last axis (exact on the dyadic lattice used), '
        'boolean-mask indexing of the epoch axis (NumPy layer of PsiModel/PData.lean)',
        'sample values and thresholds are integers/4 in the correspondence runs (or a strictly increasing image of that '
        'lattice: neighbouring binary64 numbers / 1 + k*2^-40); the theorems are about an integer-valued criterion',
    ]
    ASSUMPTIONS = ['batches are 3-D (epoch, 1, time) with at least one sample per epoch; thresholds are numbers or +-inf; NaN samples / a NaN threshold are represented in the integer model by a sample above every threshold / a threshold below every criterion (case kind nan)']
    RULE = ('one coroutine per case: criterion x constant/callable threshold x 1-4 batches, each plain or annotated, '
            '0-5 epochs of 1-4 samples on the lattice {0, ±1/4 … ±2, ±th, ±(th ± 1/4)}; refused shapes (2 channels, '
            '2-D, 1-D, 4-D plain) interleaved; quick additionally enumerates every single batch of <= 2 epochs x 2 samples over '
            'a 7-point lattice around the threshold. Hardening: the same values as other dtypes / memory layouts / '
            'neighbouring binary64 numbers, thresholds as int / NumPy scalars / 0-d arrays / ±inf, keyword call, no status '
            'callback, annotated batches built by concat / slicing / defaults, the same array sent again, a second coroutine '
            'fed the same arrays, the caller overwriting what it received, thousands of epochs / 2^16 samples / hundreds of sends. '
            'Non-trivial = at least one epoch accepted and one rejected in the case, or a refusal.')
    exhaustive_note = {
        'quick': 'every batch of 1-2 epochs x 1-2 samples with values in {-th-1/4, -th, -th+1/4, 0, th-1/4, th, th+1/4}, both criteria, plain and annotated',
        'thorough': 'every batch of 1-3 epochs x 1-2 samples and of 1-2 epochs x 3 samples over the same 7-point lattice, both criteria, plain and annotated',
    }
    PARALLEL = 16

    def mk_batch(self, rng, th, annot=None, bad=None):
        ne = rng.choice([0, 1, 1, 2, 3, 3, 4, 5])
        nt = rng.randint(1, 4)
        lattice = [-8, -4, -2, -1, 0, 1, 2, 4, 8, th, -th, th - 1, th + 1, -th + 1, -th - 1, th // 2]
        if abs(th) >= INF:
            lattice = [-8, -4, -2, -1, 0, 1, 2, 4, 8, 1000, -1000]
        shape = [ne, 1, nt]
        annot = rng.random() < 0.5 if annot is None else annot
        if bad == 'multi':
            shape = [max(ne, 1), 2, nt]
        elif bad == '2d':
            shape = [1, nt] if rng.random() < 0.5 else [2, nt]
        elif bad == '1d':
            shape = [nt]
        elif bad == '4d':
            shape, annot = [2, 1, 1, nt], False
        n = int(np.prod(shape))
        vals = [rng.choice(lattice) for _ in range(n)]
        b = {'th': th, 'annot': annot, 'shape': shape, 'vals': vals}
        if annot:
            nd = len(shape)
            b['s0'] = rng.choice([0, 5, -3])
            b['fs'] = [1000, 1]
            b['ch'] = None if nd == 1 else ['c%d' % i for i in range(shape[-2])]
            off = rng.choice([0, 10])
            b['md'] = [off + i for i in range(shape[0])] if nd == 3 else 7
            # batches DERIVED by a montage matrix (mc_reference, `matrix @ data`): the result keeps the source's label
            # list, so the number of labels need not equal the channel axis -- what counts is the data's channel axis
            r = rng.random()
            if nd == 3 and shape[1] == 1 and shape[0] > 0 and r < 0.15:
                b['route'] = 'matmul'            # (ne, 2, nt) source, matrix [[1, 0]] -> one channel, two labels
                b['ch'] = ['c0', 'c1']
            elif nd == 3 and shape[1] == 2 and r < 0.5:
                b['route'] = 'fanout'            # (ne, 1, nt) source, matrix [[1], [1]] -> two channels, one label
                b['ch'] = ['c0']
        return b

    def cases(self, rng, tier):
        for c in self.base_cases(rng, tier):
            yield c
        for c in self.hardening_cases(rng, tier):
            yield c
        for c in self.nan_cases(rng, tier):
            yield c

    def nan_cases(self, rng, tier):
        """Not-a-number samples (a dropped-sample filler) and a NaN threshold. The statement: forwarded are PRECISELY the
        epochs whose criterion is strictly below the threshold -- a NaN criterion is not below anything and nothing is below
        a NaN threshold, so such epochs are rejected. In the integer model a NaN sample is represented by a sample above
        every threshold (+-NANBIG, alternating inside an epoch so that the peak-to-peak amplitude is large too) and a NaN
        threshold by -1 (no criterion is below it); the real arrays carry real NaNs."""
        n = 600 if tier == 'quick' else 12000
        for _ in range(n):
            c = self.rand_sequence(rng, bad_p=0.0, old_dtypes=False)
            c['kind'] = 'nan'
            thnan = rng.random() < 0.25
            any_nan = False
            for b in c['batches']:
                b.pop('route', None)
                ne, _, nt = b['shape']
                if b['annot']:
                    b['ch'] = ['c0']
                if c['mode'] == 'amp' and nt < 2:
                    continue
                pos = []
                for e in range(ne):
                    if rng.random() < 0.5:
                        k = rng.randint(1, nt)
                        pos.extend(sorted(rng.sample(range(e * nt, (e + 1) * nt), k)))
                sign = {}
                for i in pos:
                    e = i // nt
                    sign[e] = -sign.get(e, -1)
                    b['vals'][i] = NANBIG * sign[e]
                if pos:
                    b['nan'] = pos
                    any_nan = True
                if rng.random() < 0.3:
                    b['layout'] = rng.choice(['F', 'strided', 'rev', 'epochstride'])
            if thnan:
                for b in (c['batches'] if not c['callable'] else [b for b in c['batches'] if rng.random() < 0.6]):
                    b['th'] = -1
                    b['thnan'] = True
                any_nan = any_nan or any(b.get('thnan') for b in c['batches'])
            if any_nan:
                yield c

    def base_cases(self, rng, tier):
        import itertools
        quick = tier == 'quick'
        # exhaustive small batches around the threshold
        th = 4
        lat = [-th - 1, -th, -th + 1, 0, th - 1, th, th + 1]
        sizes = [(1, 1), (1, 2), (2, 1), (2, 2)] + ([] if quick else [(3, 1), (3, 2), (1, 3), (2, 3)])
        for mode in ('abs', 'amp'):
            for ne, nt in sizes:
                for vals in itertools.product(lat, repeat=ne * nt):
                    for annot in (False, True):
                        b = {'th': th, 'annot': annot, 'shape': [ne, 1, nt], 'vals': list(vals)}
                        if annot:
                            b.update({'s0': 5, 'fs': [1000, 1], 'ch': ['c0'], 'md': list(range(ne))})
                        yield {'kind': 'exhaustive', 'mode': mode, 'callable': False, 'batches': [b]}
        n = 3000 if quick else 60000
        for _ in range(n):
            yield self.rand_sequence(rng)

    def rand_sequence(self, rng, nmax=4, bad_p=0.08, old_dtypes=True):
        mode = rng.choice(['abs', 'amp'])
        call = rng.random() < 0.5
        th0 = rng.choice([2, 4, 8, 3, 2, 4, 0, -2])         # incl. zero and negative thresholds
        batches = []
        for _b in range(rng.randint(1, nmax)):
            th = rng.choice([2, 4, 8, 3, 1, 0, -1]) if call else th0
            bad = rng.choice(['multi', '2d', '1d', '4d']) if rng.random() < bad_p else None
            batches.append(self.mk_batch(rng, th, bad=bad))
        c = {'kind': 'sequence', 'mode': mode, 'callable': call, 'batches': batches}
        r = rng.random()
        if old_dtypes and r < 0.25:
            # acquisition hardware delivers integer counts: the same lattice values as unsigned / signed integers
            # (unscaled; unsigned: |v| + 1, so that every epoch's minimum is non-zero) or as float32
            self.set_dtype(c, rng.choice(['uint8', 'uint16', 'int16', 'float32']))
        return c

    @staticmethod
    def set_dtype(c, dt):
        c['dtype'] = dt
        if dt.startswith('uint'):
            for b in c['batches']:
                if 'vals' in b:
                    b['vals'] = [abs(v) + 1 for v in b['vals']]

    # ---- hardening (harness/HARDENING.md) ---------------------------------
    def hardening_cases(self, rng, tier):
        quick = tier == 'quick'
        n = 2500 if quick else 50000
        for _ in range(n):
            c = self.rand_sequence(rng, old_dtypes=False)
            c['kind'] = 'hardened'
            bs = c['batches']
            # item 4: an infinite threshold (accept all / reject all)
            if rng.random() < 0.1:
                t = rng.choice([INF, -INF])
                for b in bs:
                    if not c['callable'] or rng.random() < 0.5:
                        b['th'] = t
            # item 1: representation of the sample values
            r = rng.random()
            if r < 0.3:
                self.set_dtype(c, rng.choice(INT_DTYPES + FLOAT_DTYPES))
            elif r < 0.55:
                # neighbouring binary64 numbers around the threshold / an offset invisible in binary32
                c['enc'] = 'ulp' if c['mode'] == 'abs' else 'offset'
                c['encbase'] = rng.choice([0.1, 1e-7, 123456.7, 1 / 3]) if c['enc'] == 'ulp' else rng.choice([1.0, 3.0, -5.0])
            for b in bs:
                if rng.random() < 0.3:
                    b['layout'] = rng.choice(['F', 'strided', 'rev', 'epochstride'])
                # item 1: representation of the threshold (per call for a callable threshold)
                if rng.random() < 0.5:
                    b['threp'] = rng.choice(['int', 'np64', 'np32', 'npint', 'arr0d'])
                # item 2: construction route of an annotated batch
                if b['annot'] and len(b['shape']) == 3 and b['shape'][1] == 1 and rng.random() < 0.5 \
                        and b.get('route') not in ('matmul', 'fanout'):
                    b['route'] = rng.choice(['concat', 'slice', 'tslice', 'pos', 'defaults'] if b['shape'][0] else ['slice', 'tslice', 'pos', 'defaults'])
                    if b['route'] == 'defaults':
                        b['ch'] = [None]
            # item 2: keyword call, no status callback
            if rng.random() < 0.3:
                c['kw'] = True
            if rng.random() < 0.15:
                c['nocb'] = True
            # item 5: the same array sent again (later, possibly with another threshold in force)
            if rng.random() < 0.4:
                seq = list(bs)
                for _k in range(rng.randint(1, 3)):
                    i = rng.randrange(len(seq))
                    target = seq[i].get('refobj', seq[i])
                    seq.insert(rng.randint(i + 1, len(seq)), {'refobj': target, 'th': rng.choice([2, 4, 8, 3, 1, 0, -1])})
                pos = {id(b): k for k, b in enumerate(seq) if 'refobj' not in b}
                bs = c['batches'] = [{'ref': pos[id(b['refobj'])], 'th': b['th']} if 'refobj' in b else b for b in seq]
            if not c['callable']:
                for b in bs:
                    b['th'] = bs[0]['th']            # a constant threshold (with the representation of the first batch)
            # item 6: the caller overwrites what it received (forwarded array, mask) after every send
            if rng.random() < 0.4:
                c['clobber'] = True
            # item 5/7: a second coroutine with another criterion / threshold, created afterwards, fed the same arrays
            if rng.random() < 0.35:
                c['twin'] = {'mode': rng.choice(['abs', 'amp']), 'callable': rng.random() < 0.5,
                             'ths': [rng.choice([2, 4, 8, 3, 1, 0, -1]) for _ in bs]}
                if c.get('enc') and c['twin']['mode'] != c['mode']:
                    c['twin']['mode'] = c['mode']          # the encodings are monotone for one criterion only
                if not c['twin']['callable']:
                    c['twin']['ths'] = [c['twin']['ths'][0]] * len(bs)
            yield c

        # item 3: scale — thousands of epochs, 2^16 (+1) samples per epoch, hundreds of sends, s0 beyond 2^31
        for mode in ('abs', 'amp'):
            ne = 3000
            vals = [rng.choice([-5, -4, -3, 0, 3, 4, 5]) for _ in range(ne * 2)]
            b = {'th': 4, 'annot': True, 'shape': [ne, 1, 2], 'vals': vals, 's0': 2 ** 40 + 3, 'fs': [1000, 1], 'ch': ['c0'],
                 'md': list(range(ne))}
            yield {'kind': 'scale', 'mode': mode, 'callable': False, 'batches': [b, {'ref': 0, 'th': 4}]}
            nt = 2 ** 16 + 1
            rows = []
            for e in range(4):
                row = [rng.choice([-3, -2, 0, 1, 2, 3]) for _ in range(nt)]
                if e in (1, 3):
                    # ONE sample puts the epoch on the threshold: the very last one (index 2^16) / the first one
                    row = [max(v, 0) for v in row] if mode == 'amp' else row
                    row[nt - 1 if e == 1 else 0] = rng.choice([4, -4]) if mode == 'abs' else 4
                    row[5] = 0
                elif mode == 'amp':
                    row = [max(min(v, 1), -1) for v in row]
                rows += row
            b = {'th': 4, 'annot': False, 'shape': [4, 1, nt], 'vals': rows}
            tiny = {'th': 4, 'annot': False, 'shape': [1, 1, 1], 'vals': [3]}
            yield {'kind': 'scale', 'mode': mode, 'callable': False, 'batches': [tiny, b, dict(tiny, vals=[4])]}
            c = self.rand_sequence(rng, nmax=1, bad_p=0, old_dtypes=False)
            c['mode'], c['kind'] = mode, 'scale'
            first = c['batches'][0]
            if not c['callable']:
                first['th'] = 4
            for i in range(300):
                nb = self.mk_batch(rng, rng.choice([2, 4, 8, 3, 1, 0, -1]) if c['callable'] else first['th'])
                c['batches'].append(nb if rng.random() < 0.8 else {'ref': 0, 'th': nb['th']})
            yield c

    # ---- case structure ------------------------------------------------------
    @staticmethod
    def resolve(c):
        """[(batch description incl. the threshold in force, index of the array object it uses)]"""
        out = []
        for i, b in enumerate(c['batches']):
            if 'ref' in b:
                src = c['batches'][b['ref']]
                out.append((dict(src, th=b['th']), b['ref']))
            else:
                out.append((b, i))
        return out

    @staticmethod
    def send_line(b, th):
        l = f"send {th} {'pd' if b['annot'] else 'plain'} {ilist(b['shape'])} {ilist(b['vals'])}"
        if b['annot']:
            l += f" {b['s0']} {b['fs'][0]}/{b['fs'][1]} {enc_ch(b['ch'])} {enc_md(b['md'])}"
        return l

    def model_lines(self, c):
        lines = [f"mode {c['mode']}"]
        res = self.resolve(c)
        for b, _ in res:
            lines.append(self.send_line(b, b['th']))
        if c.get('twin'):
            lines.append(f"mode {c['twin']['mode']}")
            for (b, _), th in zip(res, c['twin']['ths']):
                lines.append(self.send_line(b, th))
        return lines

    # ---- implementation side ---------------------------------------------------
    @staticmethod
    def build(P, b, enc):
        data = enc.array(b['vals'], b['shape'])
        if b.get('nan'):
            data = data.astype(float)
            data.reshape(-1)[b['nan']] = np.nan
        data = relayout(data, b.get('layout'))
        if not b['annot']:
            return data
        md = [{'i': v} for v in b['md']] if isinstance(b['md'], list) else {'i': b['md']}
        ch = list(b['ch']) if isinstance(b['ch'], list) else b['ch']
        fs = b['fs'][0] / b['fs'][1]
        route = b.get('route')
        if route == 'concat':
            # one array per epoch, stacked along the epoch axis
            pieces = [P.PipelineData(data[i:i + 1], fs=fs, s0=b['s0'], channel=list(ch), metadata=[md[i]]) for i in range(b['shape'][0])]
            return P.concat(pieces, axis='epoch')
        if route == 'slice':
            # the batch is a slice (epoch axis) of a longer annotated array
            big = np.concatenate([data[:1] * 0 + 99, data, data[:1] * 0 + 99]) if b['shape'][0] else np.zeros([2] + b['shape'][1:], dtype=data.dtype)
            x = P.PipelineData(big, fs=fs, s0=b['s0'], channel=ch, metadata=[{'i': 'x'}] + md + [{'i': 'y'}])
            return x[1:1 + b['shape'][0]]
        if route == 'tslice':
            # the batch is a time slice of a longer annotated array (first-sample index shifted by the slice)
            pad = np.zeros(tuple(b['shape'][:-1]) + (2,), dtype=data.dtype)
            x = P.PipelineData(np.concatenate([pad + 99, data, pad - 99], axis=-1), fs=fs, s0=b['s0'] - 2, channel=ch, metadata=md)
            return x[..., 2:2 + b['shape'][-1]]
        if route == 'matmul':
            # one channel derived from a two-channel recording by a 1x2 montage matrix: the result keeps BOTH labels
            src = np.concatenate([data, data * 0 + 99], axis=1)
            x = P.PipelineData(src.astype(float), fs=fs, s0=b['s0'], channel=ch, metadata=md)
            return np.array([[1.0, 0.0]]) @ x
        if route == 'fanout':
            # two channels derived from a one-channel recording by a 2x1 matrix: a genuine two-channel batch, one label
            x = P.PipelineData(data[:, :1].astype(float), fs=fs, s0=b['s0'], channel=ch, metadata=md)
            return np.array([[1.0], [1.0]]) @ x
        if route == 'pos':
            return P.PipelineData(data, fs, b['s0'], ch, md)
        if route == 'defaults':
            kw = {} if b['s0'] == 0 else {'s0': b['s0']}
            return P.PipelineData(data, fs, metadata=md, **kw)
        return P.PipelineData(data, fs=fs, s0=b['s0'], channel=ch, metadata=md)

    def impl_lines(self, c):
        from psiaudio import pipeline as P
        enc = Enc(c)
        res = self.resolve(c)
        modes = {'abs': 'absolute value', 'amp': 'amplitude'}
        objs = {}

        def obj(b, i):
            if i not in objs:
                objs[i] = self.build(P, b, enc)
            return objs[i]

        class Co:
            """one reject_epochs coroutine with its recording target / callback."""
            def __init__(co, mode, call, ths, kw=False, nocb=False):
                co.cur = [None]
                co.got, co.status = [], []
                first = float('nan') if res[0][0].get('thnan') else th_repr(enc.threshold(ths[0]), res[0][0].get('threp'))
                th = (lambda: co.cur[0]) if call else first
                cb = None if nocb else co.status.append
                if kw:
                    co.co = P.reject_epochs(valid_target=co.got.append, status_cb=cb, mode=modes[mode], reject_threshold=th)
                else:
                    co.co = P.reject_epochs(th, modes[mode], cb, co.got.append)
                co.call, co.first, co.nocb = call, first, nocb

            def send(co, b, data, th):
                """-> (error class | None, mask | None, forwarded | None)"""
                co.cur[0] = (float('nan') if b.get('thnan') else th_repr(enc.threshold(th), b.get('threp'))) if co.call else co.first
                del co.got[:], co.status[:]
                try:
                    co.co.send(data)
                except (ValueError, StopIteration, IndexError, TypeError, KeyError) as e:
                    return type(e).__name__, None, None
                return None, list(co.status), list(co.got)

        def line_of(co, b, err, status, got, want_status=True):
            if err:
                return f'err {err}'
            if want_status and len(status) != 1:
                return f'status-callback-called-{len(status)}-times'
            mask = None
            if status:
                m = np.asarray(status[0])
                mask = ''.join('1' if v else '0' for v in m.tolist()) or '-'
            if not got:
                return f'ok mask={mask} fwd=none'
            if len(got) != 1:
                return f'target-called-{len(got)}-times'
            v = got[0]
            arr = np.asarray(v)
            if arr.size == 0:
                fwd = 'empty'
            else:
                rows = arr.reshape(arr.shape[0], -1) if arr.ndim >= 1 else arr.reshape(1, -1)
                fwd = ';'.join(','.join(str(enc.decode(x)) for x in r) for r in rows.tolist())
            line = f'ok mask={mask} fwd={fwd} shape={ilist(arr.shape)}'
            if b['annot']:
                if not isinstance(v, P.PipelineData):
                    line += ' not-annotated'
                else:
                    md = v.metadata
                    ids = []
                    for m in (md if isinstance(md, list) else [md]):
                        ok = isinstance(m, dict) and set(m) == {'i', 'reject_threshold'} and bool(m['reject_threshold'] == co.cur[0])
                        ids.append(str(m['i']) if ok else 'bad:' + repr(m).replace(' ', ''))
                    mds = ('l:' + (','.join(ids) if ids else '-')) if isinstance(md, list) else 's:' + ids[0]
                    from fractions import Fraction
                    fr = Fraction(float(v.fs))
                    line += f' md={mds} s0={int(v.s0)} fs={fr.numerator}/{fr.denominator} ch={enc_ch(v.channel)}'
            return line

        def clobber(status, got):
            # the caller overwrites, in place, everything it was handed
            for m in status or []:
                try:
                    m[...] = ~np.asarray(m)
                except Exception:
                    pass
            for v in got or []:
                try:
                    v[...] = 77
                except Exception:
                    pass

        tw = c.get('twin')
        main = Co(c['mode'], c['callable'], [b['th'] for b, _ in res], kw=c.get('kw'), nocb=c.get('nocb'))
        shadow = Co(c['mode'], c['callable'], [b['th'] for b, _ in res]) if c.get('nocb') else None
        twin = Co(tw['mode'], tw['callable'], tw['ths']) if tw else None
        out, tout = ['ok'], ['ok']
        for n, (b, i) in enumerate(res):
            data = obj(b, i)
            err, status, got = main.send(b, data, b['th'])
            if shadow is not None:
                # without a status callback the mask is not observable: a coroutine WITH a callback, fed the same
                # arrays, supplies the mask; the forwarded epochs are those of the coroutine without callback
                serr, sstatus, sgot = shadow.send(b, data, b['th'])
                l1 = line_of(main, b, err, sstatus if not err else None, got, want_status=False)
                l2 = line_of(shadow, b, serr, sstatus, sgot)
                if err is None and status:
                    l1 += ' status-callback-called-although-None'
                out.append(l1 if l1 == l2 else f'{l1} BUT-with-a-status-callback: {l2}')
                if c.get('clobber'):
                    clobber(sstatus, sgot)
            else:
                out.append(line_of(main, b, err, status, got))
            if c.get('clobber'):
                clobber(status, got)
            if twin is not None:
                err, status, got = twin.send(b, data, tw['ths'][n])
                tout.append(line_of(twin, b, err, status, got))
                if c.get('clobber'):
                    clobber(status, got)
        return out + (tout if tw else [])

    # ---- the property, on the implementation's outputs ---------------------------
    def oracle(self, c, out):
        if out and out[0].startswith('HARNESS-EXC'):
            return out[0]
        res = self.resolve(c)
        nb = len(res)
        tw = c.get('twin')
        if len(out) != (1 + nb) * (2 if tw else 1):
            return f'adapter produced {len(out)} lines'
        f = self._oracle_part(c['mode'], [(b, b['th']) for b, _ in res], out[1:1 + nb], '')
        if f is None and tw:
            f = self._oracle_part(tw['mode'], [(b, th) for (b, _), th in zip(res, tw['ths'])], out[2 + nb:], 'second coroutine, ')
        return f

    def _oracle_part(self, mode, sends, lines, who):
        alive = True
        for n, (b, th) in enumerate(sends):
            line = lines[n]
            if line.startswith('HARNESS-EXC'):
                return line
            if not alive:
                continue
            sh = b['shape']
            refused = len(sh) != 3 or sh[1] != 1
            if refused:
                if not line.startswith('err '):
                    return f"{who}batch {n}: input of shape {sh} ({'annotated' if b['annot'] else 'plain'}) was not refused: {line[:80]}"
                alive = False
                continue
            ne, _, nt = sh
            if nt == 0:
                alive = not line.startswith('err ')
                continue
            rows = [b['vals'][i * nt:(i + 1) * nt] for i in range(ne)]
            want = [crit(mode, r) < th for r in rows]
            if line.startswith('err '):
                return f'{who}batch {n}: a valid batch of shape {sh} raised {line[4:]}'
            if not line.startswith('ok '):
                return f'{who}batch {n}: {line[:200]}'
            if ' BUT-with-a-status-callback: ' in line or 'status-callback-called-although-None' in line:
                return f'{who}batch {n}: {line[:300]}'
            f = dict(p.split('=', 1) for p in line[3:].split(' ') if '=' in p)
            mask = [] if f.get('mask') == '-' else [ch == '1' for ch in f.get('mask', '')]
            if mask != want:
                return (f"{who}batch {n}: status callback got mask {f.get('mask')} but the criteria {[crit(mode, r) for r in rows][:20]} "
                        f"against threshold {th} (lattice units, strict) give {''.join('1' if w else '0' for w in want)[:60]}")
            keep = [r for r, w in zip(rows, want) if w]
            if not keep:
                if f.get('fwd') != 'none':
                    return f'{who}batch {n}: nothing accepted but the target was called with {f.get("fwd")[:80]}'
                continue
            if f.get('fwd') == 'none':
                return f'{who}batch {n}: {len(keep)} epochs accepted but nothing was forwarded'
            if f['fwd'] == 'empty':
                return f'{who}batch {n}: an empty array was forwarded'
            try:
                got = [[int(v) for v in r.split(',')] for r in f['fwd'].split(';')]
            except ValueError:
                return f"{who}batch {n}: forwarded values that are not samples of the batch: {f['fwd'][:120]}"
            if got != keep:
                return f'{who}batch {n}: forwarded {str(got)[:200]}, accepted epochs in order are {str(keep)[:200]}'
            if b['annot']:
                ids = [str(i) for i, w in zip(b['md'], want) if w]
                if f.get('md') != 'l:' + ','.join(ids):
                    return f"{who}batch {n}: forwarded metadata {str(f.get('md'))[:120]} but the accepted epochs carry {ids[:30]}"
        return None

    def nontrivial(self, c, out):
        ms = ''.join(l.split('mask=')[1].split(' ')[0] for l in out if 'mask=' in l)
        return ('0' in ms and '1' in ms) or any(l.startswith('err') for l in out)

    def kind(self, c):
        return c['kind']

    def neighbours(self, c, rng):
        for n, b in enumerate(c['batches']):
            for i in range(len(b.get('vals', []))):
                for d in (-1, 1):
                    cc = copy.deepcopy(c)
                    cc['batches'][n]['vals'][i] += d
                    yield cc

    def materialize(self, c):
        """the same sends with every repeated array replaced by an equal, separate one."""
        cc = copy.deepcopy(c)
        cc['batches'] = [copy.deepcopy(b) for b, _ in self.resolve(c)]
        return cc

    def shrink_candidates(self, c):
        for key in ('twin', 'clobber', 'kw', 'nocb'):
            if c.get(key):
                cc = copy.deepcopy(c)
                del cc[key]
                yield cc
        if any('ref' in b for b in c['batches']):
            yield self.materialize(c)
            return
        for n, b in enumerate(c['batches']):
            for key in ('layout', 'threp', 'route'):
                if key in b:
                    cc = copy.deepcopy(c)
                    del cc['batches'][n][key]
                    yield cc
        if len(c['batches']) > 1:
            for i in range(len(c['batches'])):
                cc = copy.deepcopy(c)
                del cc['batches'][i]
                if cc.get('twin'):
                    del cc['twin']['ths'][i]
                yield cc
        for n, b in enumerate(c['batches']):
            if len(b['shape']) == 3 and b['shape'][0] > 1:
                ne, _, nt = b['shape']
                for i in range(ne):
                    cc = copy.deepcopy(c)
                    bb = cc['batches'][n]
                    bb['shape'][0] -= 1
                    del bb['vals'][i * nt:(i + 1) * nt]
                    if bb['annot'] and isinstance(bb.get('md'), list):
                        del bb['md'][i]
                    yield cc

    def describe(self, c):
        sth = lambda t: ('inf' if t > 0 else '-inf') if abs(t) >= INF else str(t)

        def one(b):
            if 'ref' in b:
                return f"send(the array of send {b['ref']} again, th={sth(b['th'])})"
            extra = ''.join(f', {k}={b[k]}' for k in ('layout', 'threp', 'route') if k in b)
            return (f"send({'PipelineData' if b['annot'] else 'ndarray'} shape {b['shape']} values {str(b['vals'])[:200]}, "
                    f"th={sth(b['th'])}{extra})")
        opts = {k: c[k] for k in ('dtype', 'enc', 'encbase', 'kw', 'nocb', 'clobber', 'twin') if c.get(k)}
        unit = 'lattice units' if c.get('enc') or (c.get('dtype') and 'int' in c['dtype']) else 'units of 1/4'
        return (f"reject_epochs(mode={c['mode']}, threshold {'callable' if c['callable'] else 'constant'}) [{unit}"
                f"{', ' + str(opts) if opts else ''}]: " + '; '.join(one(b) for b in c['batches']))


SPEC = C17()
