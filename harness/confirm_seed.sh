#!/bin/sh
# confirm_seed.sh <dir> <k>: independently confirm a seeded change: demo passes on /repo HEAD, fails with the patch,
# and the pinned suite still gives 192 passed. Uses a scratch worktree outside /repo and /verif; removes it afterwards.
d="$1"; k="$2"
w=/tmp/confirm_$$
git -C /repo worktree add -q --detach $w HEAD || exit 2
( cd $w && PYTHONPATH=$w /venv/bin/python $d/demo_$k.py $w >/tmp/confirm_$$.a 2>&1; echo "unchanged: rc=$? $(tail -1 /tmp/confirm_$$.a)" )
( cd $w && git apply $d/patch_$k.diff && PYTHONPATH=$w /venv/bin/python $d/demo_$k.py $w >/tmp/confirm_$$.b 2>&1; echo "changed  : rc=$? $(tail -1 /tmp/confirm_$$.b | cut -c1-200)" )
( cd $w && PYTHONPATH=$w /venv/bin/python -c "import psiaudio;print('imports', psiaudio.__file__)" )
echo "suite    : $(/verif/harness/baseline.sh $w | tail -1)"
git -C /repo worktree remove --force $w; rm -f /tmp/confirm_$$.a /tmp/confirm_$$.b
