"""Shared machinery of the C01 / C09 checks (model `stim`).

A *tree* is a JSON description of a nesting of psiaudio.stim factories.  From it we build
 * the real factory (`build_real`),
 * the `new <E>` line of the Lean driver, whose integer parameters are obtained with the very
   expressions the library uses (`int(round(x*fs))`, `int(delay*fs)`, `fs/fm` ...),
 * the *sources* with which the abstract cells printed by the model are evaluated: one fresh
   full-length draw of every real leaf carrier, the array returned by the real window
   function, the real modulator at delay 0, ...

The model prints which cell sits at which position; `eval_cells` turns a cell string into
numbers using only those sources, and the result is compared bit for bit with what the real
factory returned for that chunk.
"""
import itertools
import math
import os
import re
import subprocess
from fractions import Fraction

import numpy as np

from . import common as C

FS_LIST = [1000.0, 25000.0, 44100.0, 48828.125, 97656.25, 100000.0, 195312.5]
WINDOWS = ['cosine-squared', 'hann', 'blackman', 'hamming', 'bartlett', 'cosine', 'boxcar']
# windows documented as non-negative on [0, 1] (hamming/boxcar do not start at 0; still within [0, 1])
NONNEG_WINDOWS = {'cosine-squared', 'hann', 'bartlett', 'cosine', 'boxcar', 'hamming'}
FIR_TOL = 1e-12
EQ_TOL = 1e-9


def isamp(x, fs):
    return int(round(x * fs))


# ---------------------------------------------------------------------------------------
# helper interpreters
# ---------------------------------------------------------------------------------------

HELPER_CPU = 60         # CPU seconds a helper interpreter may burn (a loaded machine cannot trip a CPU limit)
HELPER_WALL = 900       # wall-clock backstop only


class HelperFailed(RuntimeError):
    """a helper interpreter did not deliver (the library raised or hung in it)"""


def helper_leash(cpu=HELPER_CPU):
    """preexec_fn of the helper interpreters: the kernel kills the helper when the process that started it dies
    (no orphans) and when it has burnt `cpu` CPU seconds (a library call that never returns)."""
    me = os.getpid()

    def fn():
        try:
            import ctypes
            import signal
            ctypes.CDLL('libc.so.6', use_errno=True).prctl(1, signal.SIGKILL)      # PR_SET_PDEATHSIG
            if os.getppid() != me:
                os._exit(1)
        except Exception:  # noqa
            pass
        try:
            import resource
            hard = resource.getrlimit(resource.RLIMIT_CPU)[1]
            lim = cpu + 10 if hard == resource.RLIM_INFINITY else min(cpu + 10, hard)
            resource.setrlimit(resource.RLIMIT_CPU, (min(cpu, lim), lim))
        except Exception:  # noqa
            pass
    return fn


def run_helper(argv, **kw):
    """subprocess.run of a helper interpreter under the leash; HelperFailed when it does not deliver."""
    import signal
    try:
        r = subprocess.run(argv, capture_output=True, timeout=HELPER_WALL, preexec_fn=helper_leash(), **kw)
    except subprocess.TimeoutExpired:
        raise HelperFailed(f'reference interpreter did not finish within {HELPER_WALL} s: the library hangs on this input')
    if r.returncode in (-signal.SIGXCPU, -signal.SIGKILL):
        raise HelperFailed(f'reference interpreter did not finish within {HELPER_CPU} CPU-s: the library hangs on this '
                           f'input')
    if r.returncode != 0:
        raise HelperFailed('reference interpreter failed: ' + r.stderr.decode(errors='replace')[-300:])
    return r


# ---------------------------------------------------------------------------------------
# trees
# ---------------------------------------------------------------------------------------

FINITE = {'gate', 'env', 'fixed', 'repeat', 'chirp', 'click', 'blclick', 'wav'}
LEAVES = {'tone', 'samtone', 'silence', 'bbn', 'blnoise', 'firnoise', 'shaped', 'sqwave', 'fixed',
          'chirp', 'click', 'blclick', 'wav'}
# FixedWaveform subclasses whose array is computed by the library: opaque `fixed` leaves of the model
FIXED_LIKE = {'chirp', 'click', 'blclick', 'wav'}


def _cal(kind=True):
    """flat calibration; `interp`: one whose sensitivity depends on frequency (the SAM tone's `equalize` option, which
    scales the sidebands by their own frequencies, makes a difference only then)"""
    from psiaudio import calibration
    if kind == 'interp':
        return calibration.InterpCalibration([0.0, 100.0, 1000.0, 10000.0, 200000.0], [-20.0, -17.0, -23.0, -14.0, -19.0])
    return calibration.FlatCalibration.from_spl(94)


_STUB = []


def _eqcal():
    """A calibration that can equalise IIR band-limited noise: BandlimitedNoiseFactory(equalize=True) asks its
    calibration for `get_iir`, which no calibration class of the library provides; a flat calibration with a fixed
    short impulse response stands for the user's."""
    if not _STUB:
        from psiaudio import calibration

        class StubCal(calibration.FlatCalibration):
            def get_iir(self, fs, fl, fh, duration):
                return np.array([0.5, 0.25, -0.125, 0.0625])
        _STUB.append(StubCal.from_spl(94))
    return _STUB[0]


def fixed_array(node):
    """The array handed to FixedWaveform: float64 by default; other dtypes / memory layouts on request."""
    n = node['n']
    layout = node.get('layout')
    m = 2 * n if layout == 'strided' else n
    x = np.random.RandomState(node['seed']).standard_normal(m)
    dt = node.get('dtype', 'f8')
    if dt in ('i2', 'i4'):
        x = np.round(x * 50).astype({'i2': np.int16, 'i4': np.int32}[dt])
    elif dt == 'u1':
        x = np.abs(np.round(x * 50)).astype(np.uint8)
    elif dt == 'f4':
        x = x.astype(np.float32)
    elif dt == 'b':
        x = x > 0
    if layout == 'strided':
        x = x[::2]
    elif layout == 'rev':
        x = x[::-1]
    elif layout == 'readonly':
        x.setflags(write=False)
    return x


# pointwise transforms for EnvelopeFactory(transform=...) / envelope(transform=...): module-level, hashable
def tf_sqrt(env):
    return np.sqrt(np.abs(env))     # (blackman is slightly negative at its ends)


def tf_flip(env):
    return 1.0 - env


def tf_db(env):
    return 10.0 ** (env - 1.0)


TRANSFORMS = {'sqrt': tf_sqrt, 'flip': tf_flip, 'db': tf_db}


def rep(x, how):
    """The same value in another representation (Python float / NumPy scalar / Python int)."""
    if x is None or how in (None, 'float'):
        return x
    if how == 'np':
        return np.float64(x)
    if how == 'int' and float(x) == int(x):
        return int(x)
    return x


def _wavdir():
    """Scratch directory for the wav fixtures of this run: created by the first process that needs it, handed to
    worker / helper processes through the environment, removed when the creating process exits."""
    import atexit
    import os
    import shutil
    import tempfile
    d = os.environ.get('PSI_STIM_WAVDIR')
    if not d or not os.path.isdir(d):
        d = tempfile.mkdtemp(prefix='psi_hstim_')
        os.environ['PSI_STIM_WAVDIR'] = d
        pid = os.getpid()
        atexit.register(lambda: shutil.rmtree(d, ignore_errors=True) if os.getpid() == pid else None)
    return d


def wav_path(node):
    """A wav file with deterministic content (written once per content, atomically)."""
    import os
    import tempfile
    from scipy.io import wavfile
    name = 'psi_hstim_%d_%d_%s_%d_%d.wav' % (os.getuid(), node['n'], node['wdtype'], node['file_fs'], node['seed'])
    path = os.path.join(_wavdir(), name)
    if not os.path.exists(path):
        x = np.random.RandomState(node['seed']).uniform(-1, 1, node['n'])
        data = (x * 30000).astype(np.int16) if node['wdtype'] == 'i2' else x.astype(np.float32)
        tmp = '%s.%d.tmp' % (path, os.getpid())
        wavfile.write(tmp, int(node['file_fs']), data)
        os.replace(tmp, path)
    return path


# Documented defaults of the optional constructor arguments (the signatures of psiaudio.stim at the pinned version).
# A caller who leaves an argument out gets exactly this value: `omit` nodes are built with the arguments left out,
# the references of the checks with the value spelled out.
DEFAULTS = {
    'ToneFactory': {'phase': 0, 'polarity': 1, 'calibration': None},
    'SAMToneFactory': {'depth': 1, 'phase': 0, 'phase_lb': 0, 'phase_ub': 0, 'polarity': 1, 'eq_power': True,
                       'equalize': True, 'calibration': None},
    'SilenceFactory': {'fill_value': 0},
    'BroadbandNoiseFactory': {'seed': 1, 'equalize': False, 'polarity': 1, 'calibration': None},
    'BandlimitedNoiseFactory': {'equalize': False, 'polarity': 1, 'calibration': None, 'discard_initial_samples': True},
    'BandlimitedFIRNoiseFactory': {'ntaps': 1001, 'window': 'hann', 'polarity': 1, 'max_correction': np.inf,
                                   'equalize': False},
    'ShapedNoiseFactory': {'ntaps': 1001, 'window': 'hann', 'polarity': 1, 'calibration': None},
    'ChirpFactory': {'window': 'boxcar', 'equalize': False},
    'BandlimitedClickFactory': {'calibration': None, 'equalize': False},
    'WavFileFactory': {'level': None, 'calibration': None, 'normalization': 'pe'},
    'EnvelopeFactory': {'start_time': 0, 'transform': None},
    'Cos2EnvelopeFactory': {'start_time': 0},
    'SAMEnvelopeFactory': {'onset_method': 'ss_transition'},
    'SquareWaveEnvelopeFactory': {'alpha': 0},
}
_NODEFAULT = object()


def is_default(v, d):
    """Is `v` the documented default `d` (0.0 and 0 are the same number; True is not 1)?"""
    if d is _NODEFAULT:
        return False
    if v is None or d is None:
        return v is None and d is None
    if isinstance(v, (bool, str, np.bool_)) or isinstance(d, (bool, str)):
        return type(v) is type(d) and v == d
    try:
        return float(v) == float(d)
    except (TypeError, ValueError):
        return False


def _make(cls, params, kw, omit=False):
    """Call `cls` with every parameter positional (kw false) or every parameter by keyword.  `omit`: arguments whose
    value is the documented default are left out (by keyword: all of them; positionally: the trailing ones)."""
    if omit:
        dfl = DEFAULTS.get(cls.__name__, {})
        if kw:
            params = [(k, v) for k, v in params if not is_default(v, dfl.get(k, _NODEFAULT))]
        else:
            params = list(params)
            while params and is_default(params[-1][1], dfl.get(params[-1][0], _NODEFAULT)):
                params.pop()
    if kw:
        return cls(**dict(params))
    return cls(*[v for _, v in params])


def explicit(node):
    """The same tree with every argument spelled out (no `omit`)."""
    if not isinstance(node, dict):
        return node
    out = {k: v for k, v in node.items() if k != 'omit'}
    if 'in' in out:
        out['in'] = explicit(out['in'])
    return out


def has_omit(node):
    return bool(node.get('omit')) or ('in' in node and has_omit(node['in']))


def to_defaults(node):
    """Put every optional constructor argument of this node at its documented default and mark the node `omit`."""
    t = node['t']
    for k in {'tone': ('phase', 'polarity', 'cal'), 'samtone': ('phase', 'phase_lb', 'phase_ub', 'polarity', 'eq_power',
                                                                 'equalize', 'cal'),
              'bbn': ('polarity', 'cal'), 'blnoise': ('polarity', 'cal', 'discard', 'eq'), 'firnoise': ('window', 'polarity',
                                                                                                  'max_correction', 'equalize'),
              'shaped': ('window', 'polarity', 'cal'), 'chirp': ('window', 'equalize'), 'blclick': ('equalize', 'cal'),
              'env': ('transform',), 'sam': ('onset',), 'sqenv': ('alpha',)}.get(t, ()):
        node.pop(k, None)
    if t == 'silence':
        node['fill'] = 0
    if t == 'bbn':
        node['seed'] = 1
    if t == 'env':
        node['start'] = 0.0
    if t in ('tone', 'samtone', 'bbn', 'blnoise', 'shaped', 'blclick') and node.get('level', 1.0) > 10:
        node['level'] = 1.0        # (a level in dB belonged to the calibration that was just removed)
    if t == 'wav':
        node.update(norm='pe')
    if t in ('firnoise', 'shaped'):
        node.update(ntaps=1001, kw=True)      # (their last arguments are not optional: left out by keyword only)
    node['omit'] = True
    return node


def build_real(node, pool=None):
    """The real psiaudio factory described by `node`.

    Optional node keys (all default to the plain spelling): `kw` every argument by keyword; `fsrep` / `trep`
    representation of the sampling rate / of the times ('np' NumPy scalar, 'int' Python int when integral);
    per-class options at non-default values.  `pool` (dict) makes `fixed` leaves with equal descriptions share
    one ndarray object between several factories.
    """
    import logging
    from psiaudio import stim
    logging.getLogger('psiaudio.stim').setLevel(logging.ERROR)
    t = node['t']
    kw = node.get('kw', False)
    om = bool(node.get('omit'))
    fs = rep(node.get('fs'), node.get('fsrep'))
    tr = node.get('trep')
    cal = _cal(node['cal']) if node.get('cal') else None
    if t == 'tone':
        return _make(stim.ToneFactory, [('fs', fs), ('frequency', node['frequency']), ('level', node['level']),
                                        ('phase', node.get('phase', 0)), ('polarity', node.get('polarity', 1)),
                                        ('calibration', cal)], kw, om)
    if t == 'samtone':
        return _make(stim.SAMToneFactory, [('fs', fs), ('fc', node['fc']), ('fm', node['fm']), ('level', node['level']),
                                           ('depth', 1), ('phase', node.get('phase', 0)),
                                           ('phase_lb', node.get('phase_lb', 0)), ('phase_ub', node.get('phase_ub', 0)),
                                           ('polarity', node.get('polarity', 1)), ('eq_power', node.get('eq_power', True)),
                                           ('equalize', node.get('equalize', True)), ('calibration', cal)], kw, om)
    if t == 'silence':
        return _make(stim.SilenceFactory, [('fill_value', node['fill'])], kw, om)
    if t == 'bbn':
        return _make(stim.BroadbandNoiseFactory, [('fs', fs), ('level', node['level']), ('seed', node['seed']),
                                                  ('equalize', False), ('polarity', node.get('polarity', 1)),
                                                  ('calibration', cal)], kw, om)
    if t == 'blnoise':
        return _make(stim.BandlimitedNoiseFactory,
                     [('fs', fs), ('seed', node['seed']), ('level', node['level']), ('fl', node['fl']),
                      ('fh', node['fh']), ('filter_rolloff', node.get('rolloff', 1)),
                      ('passband_attenuation', node.get('pass_att', 1)), ('stopband_attenuation', node.get('stop_att', 80)),
                      ('equalize', bool(node.get('eq'))), ('polarity', node.get('polarity', 1)),
                      ('calibration', _eqcal() if node.get('eq') else cal),
                      ('discard_initial_samples', node.get('discard', True))], kw, om)
    if t == 'firnoise':
        return _make(stim.BandlimitedFIRNoiseFactory,
                     [('fs', fs), ('fl', node['fl']), ('fh', node['fh']), ('level', node['level']),
                      ('ntaps', node['ntaps']), ('window', node.get('window', 'hann')),
                      ('polarity', node.get('polarity', 1)), ('seed', node['seed']),
                      ('max_correction', node.get('max_correction', np.inf)), ('equalize', node.get('equalize', False)),
                      ('calibration', _cal())], kw, om)
    if t == 'shaped':
        gains = {0: -60, node['fl']: 0, node['fh']: 0, node['fs'] / 2: -60}
        return _make(stim.ShapedNoiseFactory,
                     [('fs', fs), ('level', node['level']), ('gains', gains), ('ntaps', node['ntaps']),
                      ('window', node.get('window', 'hann')), ('polarity', node.get('polarity', 1)),
                      ('seed', node['seed']), ('calibration', cal)], kw, om)
    if t == 'sqwave':
        return _make(stim.SquareWaveFactory, [('fs', fs), ('level', node['level']), ('frequency', node['frequency']),
                                              ('duty_cycle', node['duty'])], kw, om)
    if t == 'fixed':
        if pool is None:
            arr = fixed_array(node)
        else:
            key = C.case_hash({k: v for k, v in node.items() if k not in ('kw', 'fsrep', 'omit')})
            arr = pool.setdefault(key, fixed_array(node))
        return _make(stim.FixedWaveform, [('fs', fs), ('waveform', arr)], kw, om)
    if t == 'chirp':
        return _make(stim.ChirpFactory,
                     [('fs', fs), ('start_frequency', node['f0']), ('end_frequency', node['f1']),
                      ('duration', rep(node['dur'], tr)), ('level', node['level']), ('calibration', cal),
                      ('window', node.get('window', 'boxcar')), ('equalize', node.get('equalize', False))], kw, om)
    if t == 'click':
        return _make(stim.ClickFactory, [('fs', fs), ('duration', rep(node['dur'], tr)), ('level', node['level']),
                                         ('polarity', node.get('polarity', 1)), ('calibration', _cal())], kw, om)
    if t == 'blclick':
        return _make(stim.BandlimitedClickFactory,
                     [('fs', fs), ('flb', node['fl']), ('fub', node['fh']), ('window', rep(node['dur'], tr)),
                      ('level', node['level']), ('calibration', cal), ('equalize', node.get('equalize', False))], kw, om)
    if t == 'wav':
        return _make(stim.WavFileFactory,
                     [('fs', fs), ('filename', wav_path(node)), ('level', node.get('level')), ('calibration', cal),
                      ('normalization', node.get('norm', 'pe'))], kw, om)
    inner = build_real(node['in'], pool)
    if t == 'gate':
        return _make(stim.GateFactory, [('fs', fs), ('start_time', rep(node['start'], tr)),
                                        ('duration', rep(node['dur'], tr)), ('input_factory', inner)], kw, om)
    if t == 'env':
        if node['window'] == 'cos2factory':
            return _make(stim.Cos2EnvelopeFactory,
                         [('fs', fs), ('duration', rep(node['dur'], tr)), ('rise_time', rep(node['rise'], tr)),
                          ('input_factory', inner), ('start_time', rep(node['start'], tr))], kw, om)
        params = [('envelope', node['window']), ('fs', fs), ('duration', rep(node['dur'], tr)),
                  ('rise_time', rep(node['rise'], tr)), ('input_factory', inner),
                  ('start_time', rep(node['start'], tr))]
        if node.get('transform') or om:
            params.append(('transform', TRANSFORMS[node['transform']] if node.get('transform') else None))
        return _make(stim.EnvelopeFactory, params, kw, om)
    if t == 'sam':
        params = [('fs', fs), ('depth', node['depth']), ('fm', node['fm']), ('delay', rep(node['delay'], tr)),
                  ('direction', node.get('direction', 1)), ('input_factory', inner)]
        if node.get('onset') or om:
            params.append(('onset_method', node.get('onset') or 'ss_transition'))
        return _make(stim.SAMEnvelopeFactory, params, kw, om)
    if t == 'sqenv':
        return _make(stim.SquareWaveEnvelopeFactory,
                     [('fs', fs), ('depth', node['depth']), ('fm', node['fm']), ('duty_cycle', node['duty']),
                      ('calibration', cal), ('input_factory', inner), ('alpha', node.get('alpha', 0))], kw, om)
    if t == 'notch':
        return _make(stim.NotchFilterFactory, [('fs', fs), ('notch_frequency', node['freq']), ('q', node['q']),
                                               ('input_factory', inner)], kw, om)
    if t == 'repeat':
        return _make(stim.RepeatFactory, [('fs', fs), ('n', node['n']), ('skip_n', node['skip']), ('rate', node['rate']),
                                          ('delay', rep(node['delay'], tr)), ('input_factory', inner)], kw, om)
    raise ValueError(t)


_len_cache = {}


def fixed_len(node):
    """Array length of a FixedWaveform subclass instance (the library computes the array; the model treats it
    as an opaque fixed waveform of that length)."""
    key = C.case_hash({k: v for k, v in node.items() if k not in ('kw', 'fsrep', 'trep', 'omit')})
    if key not in _len_cache:
        try:
            _len_cache[key] = len(build_real(explicit(node)).waveform)
        except Exception:  # noqa
            # the library fails on this stimulus: the case that contains it runs into the same failure and reports it
            # with a replay (an exception while cases are being generated would leave no concrete input behind)
            return 0
    return _len_cache[key]


def has_transform(node):
    return bool(node.get('transform')) or ('in' in node and has_transform(node['in']))


def is_fir(node):
    """Does the tree contain an FIR-filtered noise (equality only to round-off)?"""
    if node['t'] in ('firnoise', 'shaped') or (node['t'] == 'blnoise' and node.get('eq')):
        return True         # (equalised IIR noise passes through the calibration's FIR impulse response first)
    return 'in' in node and is_fir(node['in'])


def has_eq_iir(node):
    return (node['t'] == 'blnoise' and bool(node.get('eq'))) or ('in' in node and has_eq_iir(node['in']))


def tree_tol(node):
    """Tolerance (fraction of full scale) of the stream comparison: 0 = bit-exact; FIR-filtered noise to round-off
    (1e-12, the property's figure).  Equalised IIR noise is an FIR stage (SciPy filters a = [1] by convolution, whose
    summation order depends on the chunk) followed by a high-order IIR band-pass that amplifies that round-off:
    differences of some 1e-11 of full scale occur on the unchanged library (notes: reported, not alarmed), so these
    are compared to 1e-9 -- still nine orders below the effect of a lost or mixed-up filter state."""
    if has_eq_iir(node):
        return EQ_TOL
    return FIR_TOL if is_fir(node) else 0.0


def window_name(node):
    return 'cosine-squared' if node['window'] == 'cos2factory' else node['window']


def env_ints(node):
    """(i_env_lb, i_duration, i_rise_time or None) with the library's own expressions."""
    fs = node['fs']
    lb = int(round(node['start'] * fs))
    dur = int(round(node['dur'] * fs))
    rise = None if node['rise'] is None else int(round(node['rise'] * fs))
    return lb, dur, rise


def sq_ints(node):
    """(exact rational value of fm_samples, duty_samples)."""
    fm_samples = node['fs'] / node['fm']
    duty = int(round(node['duty'] * fm_samples))
    return Fraction(fm_samples), duty


def rhe(q):
    """round half to even on an exact rational."""
    f = math.floor(q)
    d = q - f
    if d < Fraction(1, 2):
        return f
    if d > Fraction(1, 2):
        return f + 1
    return f if f % 2 == 0 else f + 1


def square_exact(node, upto):
    """True when the float expressions of square_wave agree with exact rational arithmetic for every
    modulation period that starts at or before sample `upto` (then the rational model applies)."""
    fm_samples = node['fs'] / node['fm']
    P = Fraction(fm_samples)
    if P <= 0:
        return False
    imax = int(upto / P) + 3
    if imax > 200000:
        return False
    for i in range(imax + 1):
        if int(np.round(fm_samples * float(i))) != rhe(P * i):
            return False
    return True


def square_offsets_exact(node, offsets):
    fm_samples = node['fs'] / node['fm']
    P = Fraction(fm_samples)
    return all(int(o // fm_samples) == math.floor(Fraction(o) / P) for o in offsets)


class Plan:
    """Everything derived from a tree: driver expression, ids, cell sources."""

    def __init__(self, tree):
        tree = explicit(tree)    # (sources are built with every argument spelled out)
        self.tree = tree
        self.nodes = {}          # id -> node
        self.counter = itertools.count()
        self.expr = ' '.join(self._expr(tree))
        self._src = {}
        self.hint = 0            # total number of samples the case draws: sources are built once at that size

    def _expr(self, node):
        t = node['t']
        i = next(self.counter)
        self.nodes[i] = node
        node_id = str(i)
        if t in ('tone', 'samtone', 'silence', 'bbn', 'blnoise', 'firnoise', 'shaped'):
            return ['leaf', node_id]
        if t == 'sqwave':
            cycle = int(round(node['fs'] / node['frequency']))
            on = int(round(cycle * node['duty']))
            return ['sqwave', node_id, str(cycle), str(on)]
        if t == 'fixed':
            return ['fixed', node_id, str(node['n'])]
        if t in FIXED_LIKE:
            return ['fixed', node_id, str(fixed_len(node))]
        if t == 'gate':
            fs = node['fs']
            return ['gate', str(int(round(node['start'] * fs))), str(int(round(node['dur'] * fs)))] \
                + self._expr(node['in'])
        if t == 'env':
            lb, dur, rise = env_ints(node)
            return ['env', node_id, str(lb), str(dur), 'n' if rise is None else str(rise)] + self._expr(node['in'])
        if t == 'sam':
            return ['sam', node_id, str(int(node['delay'] * node['fs']))] + self._expr(node['in'])
        if t == 'sqenv':
            P, duty = sq_ints(node)
            return ['sqenv', node_id, str(P.numerator), str(P.denominator), str(duty)] + self._expr(node['in'])
        if t == 'notch':
            return ['filt', node_id] + self._expr(node['in'])
        if t == 'repeat':
            fs = node['fs']
            return ['repeat', str(node['n']), str(node['skip']), str(int(round(fs / node['rate']))),
                    str(int(round(fs * node['delay'])))] + self._expr(node['in'])
        raise ValueError(t)

    # -- sources ----------------------------------------------------------------
    def source(self, letter, i, need):
        """Array for cells `<letter><i>.k`, k < need (or the scalar for constants)."""
        key = (letter, i)
        cur = self._src.get(key)
        if cur is not None:
            have = len(cur[0]) if letter == 'F' else (need if np.ndim(cur) == 0 else len(cur))
            if have >= need:
                return cur
            need = max(need, 2 * have)
        need = max(need, getattr(self, 'hint', 0))
        node = self.nodes[i]
        t = node['t']
        from psiaudio import stim
        from scipy import signal
        if letter == 'C':
            if t == 'fixed':
                arr = np.asarray(fixed_array(node))
            elif t in FIXED_LIKE:
                arr = np.array(build_real(node).waveform)
            else:
                # one fresh full-length draw of the real carrier
                arr = np.asarray(build_real(node).next(max(need, 1)))
        elif letter == 'R':
            lb, dur, rise = env_ints(node)
            r = dur // 2 if rise is None else rise
            w = window_name(node)
            arr = stim.cos2ramp(2 * r) if w == 'cosine-squared' else getattr(signal.windows, w)(2 * r)
        elif letter == 'S':
            f = build_real({**node, 'in': {'t': 'silence', 'fill': 1}})
            raw = getattr(stim._sam_envelope, '__wrapped__', stim._sam_envelope)
            arr = raw(0, max(need, 1), f.fs, f.depth, f.fm, 0, f.eq_phase, f.eq_power)
        elif letter == 'T':
            P, duty = sq_ints(node)
            depth = node['depth']
            arr = signal.windows.tukey(duty, node.get('alpha', 0)) * depth + (1 - depth)
        elif letter == 'L':
            arr = np.float64(1 - node['depth'])
        elif letter == 'H':
            arr = np.float64(node['level'])
        elif letter == 'F':
            # whole-stream reference: filter one fresh full draw of the real input in one call
            # (the filter's initial state is whatever the factory's reset() chooses: the reference is the
            # property's own — one single request to a freshly built generator — not a re-implementation)
            x = np.asarray(build_real(node['in']).next(max(need, 1)))
            y = np.asarray(build_real(node).next(max(need, 1)))
            arr = (x, y)
            self._src[key] = arr
            return arr
        else:
            raise KeyError(letter)
        self._src[key] = arr
        return arr


# ---------------------------------------------------------------------------------------
# cells
# ---------------------------------------------------------------------------------------

_TOKEN = re.compile(r'\s*(\d+)\*')


class CellError(Exception):
    pass


_parse_cache = {}


def parse_cell(s):
    """'M(R1.3,C0.5)' -> nested tuples."""
    hit = _parse_cache.get(s)
    if hit is not None:
        return hit
    pos = 0

    def p():
        nonlocal pos
        ch = s[pos]
        pos += 1
        if ch in 'ZOX':
            return (ch,)
        if ch == 'M':
            assert s[pos] == '('
            pos += 1
            x = p()
            assert s[pos] == ','
            pos += 1
            y = p()
            assert s[pos] == ')'
            pos += 1
            return ('M', x, y)
        m = re.compile(r'(\d+)(?:\.(\d+))?').match(s, pos)
        pos = m.end()
        ident = int(m.group(1))
        idx = None if m.group(2) is None else int(m.group(2))
        if ch == 'F':
            assert s[pos] == '('
            pos += 1
            x = p()
            assert s[pos] == ')'
            pos += 1
            return ('F', ident, idx, x)
        return (ch, ident, idx)

    out = p()
    if pos != len(s):
        raise CellError(f'trailing text in cell {s!r}')
    if len(_parse_cache) < 200000:
        _parse_cache[s] = out
    return out


def parse_runs(text):
    """'2*Z 3*M(R1.0,C0.2)' -> [(2, ast), (3, ast)]; '-' -> []"""
    if text == '-':
        return []
    out = []
    for tok in text.split(' '):
        n, cell = tok.split('*', 1)
        out.append((int(n), parse_cell(cell)))
    return out


def eval_run(plan, ast, n):
    k = ast[0]
    if k == 'Z':
        return np.zeros(n)
    if k == 'O':
        return np.ones(n)
    if k == 'X':
        raise CellError('model produced an out-of-domain cell')
    if k == 'M':
        return eval_run(plan, ast[1], n) * eval_run(plan, ast[2], n)
    if k == 'F':
        x, y = plan.source('F', ast[1], ast[2] + n)
        inner = eval_run(plan, ast[3], n)
        if not np.array_equal(inner, x[ast[2]:ast[2] + n]):
            raise CellError('filter input not aligned with the whole-stream input')
        return y[ast[2]:ast[2] + n]
    if ast[2] is None:
        return np.full(n, plan.source(k, ast[1], 0))
    arr = plan.source(k, ast[1], ast[2] + n)
    seg = arr[ast[2]:ast[2] + n]
    if len(seg) != n:
        raise CellError(f'cell {k}{ast[1]}.{ast[2]}+{n} outside its source (len {len(arr)})')
    return seg


def eval_cells(plan, text):
    runs = parse_runs(text)
    if not runs:
        return np.zeros(0)
    return np.concatenate([eval_run(plan, a, n) for n, a in runs])


def cell_at(text, i):
    for n, a in parse_runs(text):
        if i < n:
            return f'{a}+{i}'
        i -= n
    return '?'


def same(a, b, tol=0.0):
    a = np.asarray(a)
    b = np.asarray(b)
    if a.shape != b.shape:
        return False
    if tol == 0.0:
        return bool(np.array_equal(a, b))
    if a.size == 0:
        return True
    scale = max(float(np.max(np.abs(b))), float(np.max(np.abs(a))), 1e-300)
    return bool(np.max(np.abs(a - b)) <= tol * scale)


def first_diff(a, b):
    a = np.asarray(a)
    b = np.asarray(b)
    if a.shape != b.shape:
        return -1
    d = np.flatnonzero(a != b)
    return int(d[0]) if len(d) else -1


# ---------------------------------------------------------------------------------------
# model access from inside impl_lines
# ---------------------------------------------------------------------------------------

class ModelCache:
    """Model outputs per case: filled in batch by `Spec.cases`, else one driver process per case."""

    def __init__(self, model='stim'):
        self.model = model
        self.table = {}

    def fill(self, cases, lines_of):
        lines, spans = [], []
        for c in cases:
            ml = lines_of(c)
            spans.append((len(lines) + 1, len(ml)))
            lines.append('reset')
            lines.extend(ml)
        out = C.Driver(self.model).run(lines)
        for c, (s, n) in zip(cases, spans):
            self.table[C.case_hash(c)] = out[s:s + n]

    def get(self, case, lines_of):
        h = C.case_hash(case)
        hit = self.table.get(h)
        if hit is None:
            ml = lines_of(case)
            hit = C.Driver(self.model).run(['reset'] + ml)[1:]
            if len(self.table) < 500000:
                self.table[h] = hit
        return hit


# ---------------------------------------------------------------------------------------
# chunk partitions
# ---------------------------------------------------------------------------------------

def cuts_to_chunks(cuts, n):
    pts = [0] + sorted(set(c for c in cuts if 0 < c < n)) + [n]
    return [b - a for a, b in zip(pts, pts[1:])]


def boundary_chunks(rng, n, marks, extra=3):
    """Partition of n whose cut points sit at offsets -2..+2 around structural indices."""
    cand = sorted({m + d for m in marks for d in (-2, -1, 0, 1, 2) if 0 < m + d < n})
    cuts = set()
    if cand:
        k = rng.randint(1, min(len(cand), 6))
        cuts.update(rng.sample(cand, k))
    for _ in range(rng.randint(0, extra)):
        if n > 1:
            cuts.add(rng.randint(1, n - 1))
    return cuts_to_chunks(cuts, n)


def all_partitions(n):
    """All 2^(n-1) ordered partitions of n into parts >= 1."""
    if n == 0:
        yield []
        return
    for mask in range(1 << (n - 1)):
        cuts = [i + 1 for i in range(n - 1) if mask >> i & 1]
        yield cuts_to_chunks(cuts, n)


def marks_of(node):
    """Structurally interesting absolute sample indices of a tree."""
    t = node['t']
    out = []
    if t == 'gate':
        fs = node['fs']
        s = int(round(node['start'] * fs))
        out += [s, s + int(round(node['dur'] * fs))]
    elif t == 'env':
        lb, dur, rise = env_ints(node)
        r = dur // 2 if rise is None else rise
        out += [lb, lb + r, lb + dur - r, lb + dur]
    elif t == 'sam':
        out += [int(node['delay'] * node['fs'])]
    elif t == 'sqenv':
        P, duty = sq_ints(node)
        for i in range(0, 6):
            s = rhe(P * i)
            out += [s, s + duty]
    elif t == 'sqwave':
        cycle = int(round(node['fs'] / node['frequency']))
        on = int(round(cycle * node['duty']))
        out += [cycle, on, cycle + on, 2 * cycle]
    elif t == 'fixed':
        out += [node['n']]
    elif t in FIXED_LIKE:
        out += [fixed_len(node)]
    elif t == 'repeat':
        fs = node['fs']
        p = int(round(fs / node['rate']))
        d = int(round(fs * node['delay']))
        out += [p, d, p + d, p * node['skip'], p * node['skip'] + d, p * (node['n'] + node['skip'])]
    if 'in' in node:
        out += marks_of(node['in'])
    return out


def total_of(node):
    """n_samples of a finite top-level stimulus computed from the property text."""
    t = node['t']
    fs = node.get('fs')
    if t in ('gate', 'env'):
        return int(round(node['start'] * fs)) + int(round(node['dur'] * fs))
    if t == 'fixed':
        return node['n']
    if t in FIXED_LIKE:
        return fixed_len(node)
    if t == 'repeat':
        return (node['n'] + node['skip']) * int(round(fs / node['rate']))
    return None
