"""C19 translator: Python sources of the package -> scope tables -> lean/PsiGen/Names.lean.

    python -m harness.translate_names            # regenerate lean/PsiGen/Names.lean from $PSI_REPO

The translator walks the AST of every module under $PSI_REPO/psiaudio and records, per
lexical scope (module / function / lambda / comprehension / class): its parent, the names
bound in it, its `global` / `nonlocal` declarations, every evaluated ``Name(Load)`` with its
line, the names bound there solely by an import of a module, and every attribute chain
``base.a.b`` whose base is such an import name somewhere in the module.  Resolution itself
(LEGB) is NOT done here: it is the Lean function ``Psi.Scope.resolve`` (proved sound and
complete w.r.t. the declarative ``BoundAt`` in PsiProofs/C19.lean).  harness/c19.py validates
the tables + ``resolve`` against CPython's ``symtable`` on every run.

Refinements of the purely syntactic table (hardening pass; each has corpus entries in harness/c19.py):
* a module-level name whose last top-level statement is an unconditional ``del name``, or that is only ever bound by
  ``except … as name``, is not a module global (reads of it while the module body runs are dropped as flow-dependent);
* ``globals()['name'] = …`` binds a module global; names no statement binds but which a pristine interpreter finds in
  the imported module (``exec``, ``globals().update``) count as bound (``resolve_dynamic``) — outside the claim;
* ``try: import x`` / ``except ImportError: x = <constant>`` leaves ``x`` a module import (where the import works);
* ``from m import *`` binds ``m.__all__`` (each entry is checked like ``from m import entry``) or the public names;
* ``import pkg.sub`` / ``from pkg.sub import x`` with pkg the package under test: ``sub`` must exist in ``pkg``;
* which sub-modules of an INSTALLED package are attributes of it is asked of a pristine interpreter (``conditional``):
  ``dir()`` in this process is polluted by everything the harness imported (``logging.handlers``, ``xml.dom``);
* source modules defining a module-level ``__getattr__`` (PEP 562) answer for their virtual attributes at run time;
* PEP 695 type-parameter scopes / type aliases (lazily evaluated parts are not reads);
* sub-directories without ``__init__.py`` (namespace packages) are walked too.
"""
import ast
import builtins
import importlib
import json
import os
import subprocess
import sys
import types
import warnings

from . import common as C

PKG = 'psiaudio'
OUT = os.path.join(C.LEAN, 'PsiGen', 'Names.lean')

KINDS = ['module', 'function', 'lambda', 'comprehension', 'class']
# PEP 695 annotation scopes (symtable: 'type parameter' / 'TypeVar bound' / 'type alias' blocks): function-like for
# name resolution, except that directly inside a class body they also see the class namespace
ANNOTATION_KINDS = ('typeparams', 'typevarbound', 'typealias')
MODULE_IMPLICIT = ['__name__', '__doc__', '__package__', '__loader__', '__spec__', '__file__',
                   '__cached__', '__builtins__', '__annotations__']
CLASS_IMPLICIT = ['__module__', '__qualname__']


class Unsupported(Exception):
    """A construct the translator does not model (reported as an infrastructure failure)."""


class Scope:
    def __init__(self, idx, kind, name, parent, lineno, qualname):
        self.idx = idx
        self.kind = kind
        self.name = name
        self.parent = parent
        self.lineno = lineno
        self.qualname = qualname
        self.bound = {}        # name -> list of binders: ('import', modkey|None) | ('other',)
        self.globals = set()
        self.nonlocals = set()
        self.loads = []        # (name, line, evaluated)
        self.chains = []       # (base, [attrs], line)
        self.children = []
        self.cells = ['__class__'] if kind == 'class' else []
        self.walrus = set()
        self.sees_class = False    # annotation scope directly inside a class body
        self.stamp = -1        # module scope only: index of the top-level statement being walked
        self.last = {}         # name -> stamp of the last statement that (re)binds or deletes it

    def bind(self, name, binder=('other',)):
        self.bound.setdefault(name, []).append(binder)
        self.last[name] = self.stamp

    def bound_names(self):
        """Names local to this scope (declared global/nonlocal ones are not)."""
        return sorted(n for n in self.bound if n not in self.globals and n not in self.nonlocals)


class Walker(ast.NodeVisitor):
    """Follows the visiting order of CPython's symtable.c so that scopes line up with `symtable`."""

    def __init__(self, modname, is_pkg, tree, resolve_star=True):
        self.resolve_star = resolve_star
        self.has_star = False
        self.modname = modname
        self.is_pkg = is_pkg
        self.scopes = []
        self.class_stack = []
        self.from_imports = []   # (scope idx, absolute module, attr, line)
        self.dotted_imports = []  # `import a.b.c` -> (scope idx, 'a', 'b', line), (scope idx, 'a.b', 'c', line)
        self.star_bound = set()  # names bound by `from m import *`
        self.dynamic_bound = set()   # names bound by `globals()['name'] = ...`
        self.mod_del = {}        # name -> index of the top-level statement `del name` (module body only)
        self.tree = tree
        self.future_annotations = any(
            isinstance(s, ast.ImportFrom) and s.module == '__future__'
            and any(a.name == 'annotations' for a in s.names) for s in tree.body)
        self.cur = self._new('module', 'top', None, 0)
        for n in MODULE_IMPLICIT + (['__path__'] if is_pkg else []):
            self._bind(n)
        for i, s in enumerate(tree.body):
            self.scopes[0].stamp = i
            self.visit(s)
        self.scopes[0].stamp = len(tree.body)

    # ---- scope plumbing ----------------------------------------------------
    def _new(self, kind, name, parent, lineno):
        if parent is None:
            q = ''
        else:
            p = self.scopes[parent]
            while p.kind in ANNOTATION_KINDS:       # annotation scopes do not take part in qualified names
                p = self.scopes[p.parent]
            qn = f'<{name}>' if kind in ('lambda', 'comprehension') else name
            q = qn if p.kind == 'module' else (
                p.qualname + ('.' if p.kind == 'class' else '.<locals>.') + qn)
        s = Scope(len(self.scopes), kind, name, parent if parent is not None else 0, lineno, q)
        self.scopes.append(s)
        if parent is not None:
            self.scopes[parent].children.append(s.idx)
        return s

    def _mangle(self, name):
        """Private-name mangling inside class bodies (`__x` -> `_Class__x`)."""
        if not self.class_stack or not name.startswith('__') or name.endswith('__') or '.' in name:
            return name
        cls = self.class_stack[-1].lstrip('_')
        return f'_{cls}{name}' if cls else name

    def _bind(self, name, binder=('other',)):
        self.cur.bind(self._mangle(name), binder)

    def _enter(self, kind, name, lineno):
        old = self.cur
        self.cur = self._new(kind, name, old.idx, lineno)
        return old

    def _visit_all(self, nodes):
        for n in nodes:
            if n is not None:
                self.visit(n)

    # ---- package-relative import resolution -------------------------------
    def _absolute(self, module, level):
        if level == 0:
            return module
        parts = self.modname.split('.')
        if not self.is_pkg:
            parts = parts[:-1]
        if level > 1:
            parts = parts[:len(parts) - (level - 1)]
        base = '.'.join(parts)
        return base + ('.' + module if module else '')

    # ---- statements --------------------------------------------------------
    def _function(self, node):
        self._bind(node.name)
        a = node.args
        self._visit_all(a.defaults)
        self._visit_all(a.kw_defaults)
        self._visit_all(node.decorator_list)
        outer = self._type_params(node, node.name) if getattr(node, 'type_params', None) else None
        if not self.future_annotations:
            for arg in a.posonlyargs + a.args:
                self._visit_all([arg.annotation])
            if a.vararg:
                self._visit_all([a.vararg.annotation])
            if a.kwarg:
                self._visit_all([a.kwarg.annotation])
            for arg in a.kwonlyargs:
                self._visit_all([arg.annotation])
            self._visit_all([node.returns])
        old = self._enter('function', node.name, node.lineno)
        self._params(a)
        self._visit_all(node.body)
        self.cur = old
        if outer is not None:
            self.cur = outer

    def _lazy(self, expr):
        """Visit a lazily evaluated expression (TypeVar bound, type-alias value): its names are recorded for the
        symtable comparison but are not reads any code path performs."""
        mark, cmark = len(self.cur.loads), len(self.cur.chains)
        self.visit(expr)
        self.cur.loads[mark:] = [(n, l, False) for n, l, _ in self.cur.loads[mark:]]
        del self.cur.chains[cmark:]

    def _annotation_scope(self, kind, name, lineno):
        old = self._enter(kind, name, lineno)
        p = old
        while p.kind in ANNOTATION_KINDS:
            p = self.scopes[p.parent]
        self.cur.sees_class = p.kind == 'class'
        return old

    def _type_params(self, node, name):
        """PEP 695 `def f[T: B, *Ts, **P]` / `class C[T]` / `type A[T] = …`: enter the scope holding the parameters."""
        outer = self._annotation_scope('typeparams', name, node.lineno)
        for tp in node.type_params:
            if getattr(tp, 'default_value', None) is not None:
                raise Unsupported(f'{self.modname}:{node.lineno}: PEP 696 type parameter default')
            self._bind(tp.name)
            if getattr(tp, 'bound', None) is not None:
                o = self._annotation_scope('typevarbound', tp.name, tp.lineno)
                self._lazy(tp.bound)
                self.cur = o
        return outer

    visit_FunctionDef = _function
    visit_AsyncFunctionDef = _function

    def _params(self, a):
        for arg in a.posonlyargs + a.args + a.kwonlyargs:
            self._bind(arg.arg)
        if a.vararg:
            self._bind(a.vararg.arg)
        if a.kwarg:
            self._bind(a.kwarg.arg)

    def visit_Lambda(self, node):
        a = node.args
        self._visit_all(a.defaults)
        self._visit_all(a.kw_defaults)
        old = self._enter('lambda', 'lambda', node.lineno)
        self._params(a)
        self.visit(node.body)
        self.cur = old

    def visit_ClassDef(self, node):
        self._bind(node.name)
        self._visit_all(node.decorator_list)
        outer = self._type_params(node, node.name) if getattr(node, 'type_params', None) else None
        self._visit_all(node.bases)          # (inside the type-parameter scope of a generic class)
        self._visit_all(node.keywords)
        old = self._enter('class', node.name, node.lineno)
        self.class_stack.append(node.name)
        for n in CLASS_IMPLICIT + (['__type_params__'] if outer is not None else []):
            self._bind(n)
        self._visit_all(node.body)
        self.class_stack.pop()
        self.cur = old
        if outer is not None:
            self.cur = outer

    def visit_TypeAlias(self, node):
        self.visit(node.name)
        outer = self._type_params(node, node.name.id) if node.type_params else None
        old = self._annotation_scope('typealias', node.name.id, node.lineno)
        self._lazy(node.value)               # evaluated only when `.__value__` is asked for
        self.cur = old
        if outer is not None:
            self.cur = outer

    def _comprehension(self, node, name, elts):
        g0 = node.generators[0]
        self.visit(g0.iter)                       # evaluated in the enclosing scope
        old = self._enter('comprehension', name, node.lineno)
        self._bind('.0')
        self.visit(g0.target)
        self._visit_all(g0.ifs)
        for g in node.generators[1:]:
            self.visit(g.target)
            self.visit(g.iter)
            self._visit_all(g.ifs)
        self._visit_all(elts)
        self.cur = old

    def visit_ListComp(self, node):
        self._comprehension(node, 'listcomp', [node.elt])

    def visit_SetComp(self, node):
        self._comprehension(node, 'setcomp', [node.elt])

    def visit_GeneratorExp(self, node):
        self._comprehension(node, 'genexpr', [node.elt])

    def visit_DictComp(self, node):
        self._comprehension(node, 'dictcomp', [node.value, node.key])

    def visit_NamedExpr(self, node):
        self.visit(node.value)
        # a walrus inside a comprehension binds in the nearest enclosing non-comprehension scope
        s = self.cur
        while s.kind == 'comprehension':
            s.walrus.add(self._mangle(node.target.id))      # symtable marks it nonlocal/global in the comprehension
            s = self.scopes[s.parent]
        if s is not self.cur:
            if s.kind == 'class':
                raise Unsupported(f'{self.modname}:{node.lineno}: walrus in class-level comprehension')
            s.bind(self._mangle(node.target.id))
            # inside the comprehension(s) the name is then an ordinary free/global reference
        else:
            self._bind(node.target.id)

    def visit_Global(self, node):
        self.cur.globals.update(self._mangle(n) for n in node.names)

    def visit_Nonlocal(self, node):
        self.cur.nonlocals.update(self._mangle(n) for n in node.names)

    def visit_Import(self, node):
        for a in node.names:
            if a.asname:
                self._bind(a.asname, ('import', ('mod', a.name)))
            else:
                top = a.name.split('.')[0]
                self._bind(top, ('import', ('mod', top, a.name)))
            parts = a.name.split('.')
            for i in range(1, len(parts)):
                self.dotted_imports.append((self.cur.idx, '.'.join(parts[:i]), parts[i], node.lineno))

    def visit_ImportFrom(self, node):
        if node.module == '__future__':
            # `from __future__ import annotations` also binds the name (to a _Feature object)
            for a in node.names:
                self._bind(a.asname or a.name)
            return
        absmod = self._absolute(node.module, node.level)
        for a in node.names:
            if a.name == '*':
                self.has_star = True
                if self.resolve_star:
                    names, listed = star_names(absmod)
                    for n in names:
                        self._bind(n, ('import', ('from', absmod, n)))
                        self.star_bound.add(n)
                        if listed:      # an `__all__` entry that does not exist makes the star-import itself fail
                            self.from_imports.append((self.cur.idx, absmod, n, node.lineno))
                continue
            self._bind(a.asname or a.name, ('import', ('from', absmod, a.name)))
            self.from_imports.append((self.cur.idx, absmod, a.name, node.lineno))

    def visit_AnnAssign(self, node):
        simple = isinstance(node.target, ast.Name)
        if simple:
            self._bind(node.target.id)
        else:
            self.visit(node.target)
        if not self.future_annotations:
            # annotations of simple names are not evaluated in function scopes (PEP 526);
            # symtable still records them, so keep them as non-evaluated loads
            if self.cur.kind in ('function', 'lambda', 'comprehension'):
                mark = len(self.cur.loads)
                cmark = len(self.cur.chains)
                self.visit(node.annotation)
                self.cur.loads[mark:] = [(n, l, False) for n, l, _ in self.cur.loads[mark:]]
                del self.cur.chains[cmark:]
            else:
                self.visit(node.annotation)
        if node.value is not None:
            self.visit(node.value)

    def _try(self, node):
        # symtable.c order: body, orelse, handlers, finalbody
        self._visit_all(node.body)
        self._visit_all(node.orelse)
        # `try: import x` / `except ImportError: x = None`: where the import succeeds (the installed versions) the
        # name denotes the module, so the constant fallback does not take the name out of the attribute claim
        imported = set()
        for st in node.body:
            if isinstance(st, (ast.Import, ast.ImportFrom)):
                imported.update(self._mangle(a.asname or a.name.split('.')[0]) for a in st.names)
        old, self.fallback_names = getattr(self, 'fallback_names', set()), imported
        self._visit_all(node.handlers)
        self.fallback_names = old
        self._visit_all(node.finalbody)

    visit_Try = _try
    visit_TryStar = _try

    def visit_ExceptHandler(self, node):
        self._visit_all([node.type])
        if node.name:
            self._bind(node.name, ('except',))      # unbound again when the handler is left
        for st in node.body:
            if (isinstance(st, ast.Assign) and len(st.targets) == 1 and isinstance(st.targets[0], ast.Name)
                    and isinstance(st.value, ast.Constant)
                    and self._mangle(st.targets[0].id) in getattr(self, 'fallback_names', ())):
                self._bind(st.targets[0].id, ('fallback',))
            else:
                self.visit(st)

    def visit_Delete(self, node):
        if self.cur.idx == 0 and any(node is st for st in self.tree.body):
            for t in node.targets:
                for e in (t.elts if isinstance(t, (ast.Tuple, ast.List)) else [t]):
                    if isinstance(e, ast.Name):
                        self.mod_del[self._mangle(e.id)] = self.scopes[0].stamp
        self.generic_visit(node)

    def visit_Subscript(self, node):
        # `globals()['name'] = value` binds a module global (flow-insensitively, like `global name; name = value`)
        v, k = node.value, node.slice
        if (isinstance(node.ctx, ast.Store) and isinstance(v, ast.Call) and isinstance(v.func, ast.Name)
                and v.func.id == 'globals' and not v.args and not v.keywords
                and isinstance(k, ast.Constant) and isinstance(k.value, str)):
            self.scopes[0].bind(k.value, ('dynamic',))
            self.dynamic_bound.add(k.value)
        self.generic_visit(node)

    def visit_MatchAs(self, node):
        self._visit_all([node.pattern])
        if node.name:
            self._bind(node.name)

    def visit_MatchStar(self, node):
        if node.name:
            self._bind(node.name)

    def visit_MatchMapping(self, node):
        self._visit_all(node.keys)
        self._visit_all(node.patterns)
        if node.rest:
            self._bind(node.rest)

    # ---- expressions -------------------------------------------------------
    def visit_Name(self, node):
        if isinstance(node.ctx, ast.Load):
            self.cur.loads.append((self._mangle(node.id), node.lineno, True))
        else:
            self._bind(node.id)

    def visit_Attribute(self, node):
        attrs = []
        n = node
        while isinstance(n, ast.Attribute):
            attrs.append(self._mangle(n.attr))
            n = n.value
        if isinstance(n, ast.Name) and isinstance(n.ctx, ast.Load):
            path = attrs[::-1]
            if not isinstance(node.ctx, ast.Load):
                path = path[:-1]          # `mod.x = …` only reads `mod`
            self.cur.loads.append((self._mangle(n.id), n.lineno, True))
            if path:
                self.cur.chains.append((self._mangle(n.id), path, node.lineno))
        else:
            self.visit(n)


def star_names(absmod):
    """(names bound by `from absmod import *`, whether they come from an `__all__`)."""
    try:
        m = importlib.import_module(absmod)
    except Exception:
        return [], False        # not importable here: nothing is bound (reads of such names are then reported)
    if hasattr(m, '__all__'):
        return [n for n in m.__all__ if isinstance(n, str)], True
    return [n for n in dir(m) if not n.startswith('_')], False


# --------------------------------------------------------------------------
# package -> tables
# --------------------------------------------------------------------------

class SourceModule:
    def __init__(self, name, path, is_pkg, src=None, resolve_star=True):
        self.name = name
        self.path = path
        self.is_pkg = is_pkg
        self.src = open(path).read() if src is None else src
        self.tree = ast.parse(self.src, path)
        w = Walker(name, is_pkg, self.tree, resolve_star)
        self.has_star = w.has_star
        self.scopes = w.scopes
        self.from_imports = w.from_imports
        self.dotted_imports = w.dotted_imports
        # names assigned under a `global` declaration in some function are module globals once that
        # function has run (flow-insensitive, like locals): count them as bound at module level
        self.global_assigned = set()
        for s in self.scopes[1:]:
            for n in s.globals:
                if n in s.bound:
                    self.global_assigned.add(n)
                    self.scopes[0].bind(n)
        self.star_bound = w.star_bound
        self.dynamic_bound = set(w.dynamic_bound)
        # Module-level names that are certainly NOT bound once the module body has run: the last top-level statement
        # touching the name is an unconditional `del name`, or the name is only ever bound as `except … as name`
        # (unbound again when the handler is left).  Functions reading such a name fail with NameError on every call.
        g = self.scopes[0]
        self.module_unbound = set()
        for n, binders in g.bound.items():
            if n in self.global_assigned or n in g.globals:
                continue
            if w.mod_del.get(n, -2) == g.last.get(n) or all(b == ('except',) for b in binders):
                self.module_unbound.add(n)

    def module_names(self):
        """Names bound at module level after the module body has run."""
        return [n for n in self.scopes[0].bound_names() if n not in self.module_unbound]

    def import_time(self, s):
        """Does scope s run while the module body runs (module, class bodies and comprehensions directly in them)?
        Reads there of a name deleted later at module level are flow-dependent, i.e. outside the claim."""
        while s.kind in ('class', 'comprehension') + ANNOTATION_KINDS:
            s = self.scopes[s.parent]
        return s.kind == 'module'

    def add_dynamic(self, names):
        """Names found in the module namespace of a fresh interpreter although no statement binds them
        (`exec`, `globals().update(...)`, `setattr(sys.modules[__name__], ...)`): outside the claim, count as bound."""
        for n in names:
            self.scopes[0].bind(n, ('dynamic',))
            self.dynamic_bound.add(n)
            self.module_unbound.discard(n)


def discover(repo):
    root = os.path.join(repo, PKG)
    mods = []
    for dirpath, dirs, files in os.walk(root):
        # sub-directories without __init__.py are importable too (namespace packages): their modules are package code
        dirs[:] = sorted(d for d in dirs if d != '__pycache__' and d.isidentifier())
        rel = os.path.relpath(dirpath, os.path.dirname(root)).replace(os.sep, '.')
        for f in sorted(files):
            if f.endswith('.py') and (f[:-3].isidentifier() or f == '__init__.py'):
                p = os.path.join(dirpath, f)
                if f == '__init__.py':
                    mods.append((rel, p, True))
                else:
                    mods.append((rel + '.' + f[:-3], p, False))
    return sorted(mods)


class Package:
    """Scope tables of all source modules + module objects referenced by attribute chains."""

    def __init__(self, sources, with_imports=True, sys_path=None, memo_from=None):
        """sources: list of SourceModule.  with_imports=False: scope tables only (no module is
        imported, no chains) — used for the translator-validation corpora.  sys_path: where a fresh interpreter
        finds the source modules (default: the repository under test)."""
        self.with_imports = with_imports
        self.mods = sources
        self.by_name = {m.name: m for m in sources}
        self.roots = {m.name.split('.')[0] for m in sources}
        self.sys_path = list(sys_path) if sys_path else [C.REPO]
        self._cond_memo = memo_from._cond_memo if memo_from else {}
        self._fresh_ref_memo = memo_from._fresh_ref_memo if memo_from else {}
        self._absent = {}          # per-referencing-module dyn key -> submodule attributes not loaded for that module
        self.fresh_runs = 0
        self.chain_attrs = set()   # attribute names stepped through by chains off import names (filled below)
        self.chain_attrs_of = {}   # the same per source module
        self.modobjs = []          # list of dict(key, attrs:set, submods:dict attr->idx)
        self.modobj_idx = {}       # key -> idx
        self._import_memo = {}
        self._loaded_memo = {}
        self._objs = {}
        self.notes = []
        # imports[(module name, scope idx)] = {name: modobj idx}
        self.imports = {}
        for m in self.mods:
            for s in m.scopes:
                tab = {}
                for n in ((m.module_names() if s.idx == 0 else s.bound_names()) if with_imports else []):
                    k = self.module_bound_to(m, s, n)
                    if k is not None:
                        tab[n] = k
                self.imports[(m.name, s.idx)] = tab
        # only now intern module objects actually used by chains / from-imports
        self.chains = {}           # (module, scope) -> list of (base, path, line)
        for m in self.mods:
            import_names = set()
            for s in m.scopes:
                import_names.update(self.imports[(m.name, s.idx)])
            for s in m.scopes:
                self.chains[(m.name, s.idx)] = [c for c in s.chains if c[0] in import_names]
                used = {a for c in self.chains[(m.name, s.idx)] for a in c[1]}
                self.chain_attrs.update(used)
                self.chain_attrs_of.setdefault(m.name, set()).update(used)
        if with_imports:
            self.prefetch_conditional(sorted({k for tab in self.imports.values() for k in tab.values()
                                              if k[0] == 'dyn' and len(k) == 2}))
        self.import_idx = {}
        for m in self.mods:
            for s in m.scopes:
                self.import_idx[(m.name, s.idx)] = {
                    n: self.intern_modobj(self._ref_key(k, m.name))
                    for n, k in sorted(self.imports[(m.name, s.idx)].items())}
        for m in self.mods:
            for s in m.scopes:
                for base, path, line in self.chains[(m.name, s.idx)]:
                    for tab in (self.import_idx[(m.name, t.idx)] for t in m.scopes):
                        if base in tab:
                            self.walk_chain(tab[base], path)
        self.from_checks = {}      # module -> list of (modobj idx, attr, line)
        for m in self.mods:
            out = []
            for sidx, absmod, attr, line in (m.from_imports if with_imports else []):
                k = self.module_key(absmod)
                if k is None:
                    # module not importable here: an optional dependency is outside the claim, but a module of the
                    # package under test that does not exist is a missing attribute (sub-module) of its parent package
                    self._internal_module_check(absmod, line, out)
                    continue
                i = self.intern_modobj(k)
                self.walk_chain(i, [attr])
                out.append((i, attr, line))
            for sidx, parent, leaf, line in (m.dotted_imports if with_imports else []):
                self._internal_module_check(parent + '.' + leaf, line, out)
            self.from_checks[m.name] = out

    def _internal_module_check(self, absmod, line, out):
        """`import pkg.sub` / `from pkg.sub import x` with pkg the package under test: `sub` must exist in `pkg`."""
        if '.' not in absmod or absmod.split('.')[0] not in self.roots:
            return
        parent, leaf = absmod.rsplit('.', 1)
        pk = self.module_key(parent)
        if pk is None:
            return self._internal_module_check(parent, line, out)
        try:
            # a module that exists but fails to import for another reason (or is provided by an import hook, like the
            # generated psiaudio/version.py of an editable install) is not a missing module
            import importlib.util
            if importlib.util.find_spec(absmod) is not None:
                return
        except ModuleNotFoundError:
            pass
        except Exception:
            return
        i = self.intern_modobj(pk)
        self.walk_chain(i, [leaf])
        if (i, leaf, line) not in out:
            out.append((i, leaf, line))

    # ---- fresh interpreter: which sub-modules of an installed package are attributes of it? -----------
    def _fresh(self, lines):
        """Run `lines` in a pristine interpreter; the last stdout line is JSON (None on any failure)."""
        self.fresh_runs += 1
        env = dict(os.environ, PYTHONPATH=os.pathsep.join(self.sys_path))
        try:
            r = subprocess.run([sys.executable, '-c', '\n'.join(lines)], capture_output=True, text=True,
                               env=env, cwd=self.sys_path[0], timeout=900)
            return json.loads(r.stdout.strip().splitlines()[-1]) if r.returncode == 0 else None
        except Exception:
            return None

    def _genuine_submodule(self, obj, a):
        try:
            with warnings.catch_warnings():
                warnings.simplefilter('ignore')
                v = getattr(obj, a)
        except Exception:
            return False
        return (isinstance(v, types.ModuleType) and hasattr(obj, '__path__')
                and getattr(v, '__name__', None) == obj.__name__ + '.' + a)

    def conditional(self, key):
        """Sub-modules of installed package `key` that some chain of the sources steps through and that are NOT
        attributes of the package after `import package` alone in a pristine interpreter (`logging.handlers`,
        `matplotlib.pyplot`, `xml.dom`): whether `package.sub` works then depends on who imported what.  The
        attribute set seen in this process (`dir()`) is polluted by everything the harness has imported."""
        if key[1] not in self._cond_memo:
            self.prefetch_conditional([key])
        return self._cond_memo[key[1]]

    def prefetch_conditional(self, keys):
        """`conditional` for several packages at once (the pristine interpreters run concurrently)."""
        jobs = []
        for key in keys:
            if key[1] in self._cond_memo:
                continue
            obj = self.dyn(key)
            cands = sorted(a for a in self.chain_attrs if self._genuine_submodule(obj, a)) \
                if hasattr(obj, '__path__') else []
            self._cond_memo[key[1]] = set()
            if cands:
                jobs.append((key[1], cands, ['import importlib, json',
                                             f'P = importlib.import_module({obj.__name__!r})',
                                             f'c = {cands!r}',
                                             'have = [a for a in c if a in vars(P)]',
                                             'have += [a for a in c if a not in have and hasattr(P, a)]   # lazy',
                                             'print(json.dumps(have))']))
        if jobs:
            from concurrent.futures import ThreadPoolExecutor
            with ThreadPoolExecutor(max_workers=8) as ex:
                for (name, cands, _), got in zip(jobs, ex.map(self._fresh, [j[2] for j in jobs])):
                    if got is not None:
                        self._cond_memo[name] = set(cands) - set(got)

    def _fresh_ref_has(self, refmod, obj, attrs):
        """Which of `attrs` are attributes of module `obj` in a pristine interpreter that imported only refmod."""
        k = (refmod, obj.__name__)
        if k not in self._fresh_ref_memo:
            got = self._fresh(['import importlib, json',
                               f'importlib.import_module({refmod!r})',
                               f'P = importlib.import_module({obj.__name__!r})',
                               f'print(json.dumps([a for a in {sorted(attrs)!r} if hasattr(P, a)]))'])
            self._fresh_ref_memo[k] = set(attrs) if got is None else set(got)
        return self._fresh_ref_memo[k]

    # ---- which submodules are loaded when a module of the package has been imported? -------------
    def _imported_by(self, m, scopes):
        """Absolute names of the modules that the import statements in `scopes` of source module m load."""
        out = set()

        def add(name):
            parts = name.split('.')
            for i in range(1, len(parts) + 1):
                out.add('.'.join(parts[:i]))
        for s in scopes:
            for binders in s.bound.values():
                for b in binders:
                    if b[0] != 'import':
                        continue
                    spec = b[1]
                    if spec[0] == 'mod':
                        add(spec[2] if len(spec) == 3 else spec[1])
                    else:
                        add(spec[1])
                        add(spec[1] + '.' + spec[2])      # harmless when the attribute is not a module
        return out

    def loaded_by(self, modname):
        """Modules certainly (flow-insensitively) loaded once `modname` runs: the transitive closure of the
        module-level imports of the package's source modules, starting from modname and the __init__ of its
        parent packages, plus the imports anywhere inside modname itself (function-level ones included)."""
        if modname in self._loaded_memo:
            return self._loaded_memo[modname]
        seen, todo = set(), [modname]
        parts = modname.split('.')
        todo += ['.'.join(parts[:i]) for i in range(1, len(parts))]
        first = True
        while todo:
            n = todo.pop()
            if n in seen:
                continue
            seen.add(n)
            m = self.by_name.get(n)
            if m is None:
                continue
            scopes = m.scopes if n == modname else m.scopes[:1]
            for x in self._imported_by(m, scopes):
                if x not in seen:
                    todo.append(x)
        self._loaded_memo[modname] = seen
        return seen

    def _ref_key(self, k, refmod):
        """A source PACKAGE object is described per referencing module: which of its submodules are attributes of
        it depends on what has been imported by then."""
        if k is not None and k[0] == 'src' and len(k) == 2 and self.by_name[k[1]].is_pkg:
            return ('src', k[1], refmod)
        if k is not None and k[0] == 'dyn' and len(k) == 2 and self.with_imports and self.conditional(k):
            return ('dyn', k[1], refmod)
        return k

    # ---- which module object does a name denote? ---------------------------
    def module_key(self, absname):
        """('src', name) for a package source module, ('dyn', name) for an importable library module."""
        if absname in self.by_name:
            return ('src', absname)
        if absname in self._import_memo:
            return self._import_memo[absname]
        try:
            mod = importlib.import_module(absname)
            key = self._dyn_key(mod) if isinstance(mod, types.ModuleType) else None
        except Exception:
            key = None
        self._import_memo[absname] = key
        return key

    def _dyn_key(self, mod):
        name = mod.__name__
        if name in self.by_name:
            return ('src', name)
        if self._objs.setdefault(name, mod) is not mod:
            name = f'{name}#{id(mod)}'
            self._objs[name] = mod
        return ('dyn', name)

    def dyn(self, key):
        return self._objs[key[1]]

    def attr_module_key(self, key, attr, _seen=()):
        """If attribute `attr` of module `key` is itself a module, its key; else None."""
        if key[0] == 'src':
            m = self.by_name[key[1]]
            # (`from . import sub` inside the package's own __init__ refers back to this very attribute: the second
            # time round it denotes the sub-module itself)
            if attr in m.scopes[0].bound and attr not in m.module_unbound and (key[:2], attr) not in _seen:
                return self.module_bound_to(m, m.scopes[0], attr, _seen + ((key[:2], attr),))
            if m.is_pkg:
                sk = self.module_key(key[1] + '.' + attr)      # submodule (source file or installed)
                return self._ref_key(sk, key[2]) if len(key) > 2 else sk
            return None
        obj = self.dyn(key)
        try:
            v = getattr(obj, attr)
        except Exception:
            if hasattr(obj, '__path__'):
                return self.module_key(obj.__name__ + '.' + attr)   # `from pkg import submodule`
            return None
        if not isinstance(v, types.ModuleType):
            return None
        sk = self._dyn_key(v)
        return self._ref_key(sk, key[2]) if len(key) > 2 else sk

    def module_bound_to(self, m, s, name, _seen=()):
        """Module key when `name` is bound in scope s of module m solely by imports of one module."""
        binders = s.bound.get(name)
        if not binders or name in s.globals or name in s.nonlocals:
            return None
        keys = set()
        for b in binders:
            if b[0] == 'fallback':
                continue
            if b[0] != 'import':
                return None
            spec = b[1]
            if spec[0] == 'mod':
                k = self.module_key(spec[1])
                if len(spec) == 3:
                    self.module_key(spec[2])      # `import a.b.c` binds a, and loads a.b.c
            else:
                pk = self.module_key(spec[1])
                k = self.attr_module_key(pk, spec[2], _seen) if pk is not None else None
            if k is None:
                return None
            keys.add(k)
        return keys.pop() if len(keys) == 1 else None

    # ---- module objects ------------------------------------------------------
    def intern_modobj(self, key):
        if key in self.modobj_idx:
            return self.modobj_idx[key]
        i = len(self.modobjs)
        self.modobj_idx[key] = i
        if key[0] == 'src':
            m = self.by_name[key[1]]
            attrs = set(m.module_names())
            if m.is_pkg:
                d = os.path.dirname(m.path)
                # a submodule is an attribute of the package object only once it has been imported: when the
                # package is reached through a name of referencing module key[2], only the submodules loaded by then
                loaded = self.loaded_by(key[2]) if len(key) > 2 else None
                for f in os.listdir(d):
                    sub = f[:-3] if f.endswith('.py') and f != '__init__.py' else \
                        (f if os.path.exists(os.path.join(d, f, '__init__.py')) else None)
                    if sub and (loaded is None or f'{key[1]}.{sub}' in loaded):
                        attrs.add(sub)
        else:
            obj = self.dyn(key)
            attrs = set(dir(obj))
            if len(key) > 2:
                # reached through a name of module key[2]: a conditional sub-module counts only when that module (or
                # what it imports at module level) imports it, statically or in a pristine interpreter
                cond = self.conditional(key)
                loaded = self.loaded_by(key[2])
                need = {a for a in cond if f'{obj.__name__}.{a}' not in loaded
                        and a in self.chain_attrs_of.get(key[2], ())}      # (only what that module steps through)
                absent = need - self._fresh_ref_has(key[2], obj, need) if need else set()
                self._absent[key] = absent
                attrs -= absent
        self.modobjs.append({'key': key, 'attrs': attrs, 'submods': {}})
        return i

    def walk_chain(self, i, path):
        """Make sure the module objects along `path` (as far as it stays inside modules) are described."""
        if not path:
            return
        mo = self.modobjs[i]
        a = path[0]
        key = mo['key']
        if key[0] == 'dyn' and a not in mo['attrs'] and a not in self._absent.get(key, ()):
            try:
                if hasattr(self.dyn(key), a):        # lazily loaded submodule / module __getattr__
                    mo['attrs'].add(a)
            except Exception:
                pass
        if key[0] == 'src' and a not in mo['attrs'] and '__getattr__' in self.by_name[key[1]].module_names():
            try:                                     # source module with a module-level __getattr__ (PEP 562)
                if hasattr(importlib.import_module(key[1]), a):
                    mo['attrs'].add(a)
            except Exception:
                pass
        if a not in mo['attrs']:
            return
        if a in mo['submods']:
            return self.walk_chain(mo['submods'][a], path[1:])
        sk = self.attr_module_key(key, a)
        if sk is not None:
            j = self.intern_modobj(sk)
            mo['submods'][a] = j
            self.walk_chain(j, path[1:])

    # ---- interning / output ----------------------------------------------------
    def build(self, known_keys=()):
        """Intern names; returns a JSON-able dict describing the whole Lean `Package`."""
        names = {}

        def I(n):
            if n not in names:
                names[n] = len(names)
            return names[n]

        bi = [I(n) for n in sorted(dir(builtins))]
        modules = []
        for m in self.mods:
            scopes = []
            # an annotation scope directly inside a class body sees the class namespace: what it reads without binding
            # it itself resolves exactly as if the class body read it
            moved = {}
            for s in m.scopes:
                if s.kind in ANNOTATION_KINDS and s.sees_class:
                    c = m.scopes[s.parent]
                    while c.kind in ANNOTATION_KINDS:
                        c = m.scopes[c.parent]
                    moved.setdefault(c.idx, []).append(s)
            for s in m.scopes:
                loads = {}
                skip = m.module_unbound if m.import_time(s) else ()
                own = [(n, line, ev) for n, line, ev in s.loads
                       if not (s.kind in ANNOTATION_KINDS and s.sees_class and n not in s.bound)]
                for t in moved.get(s.idx, []):
                    own += [(n, line, ev) for n, line, ev in t.loads if n not in t.bound]
                for n, line, ev in own:
                    if ev and n not in skip:
                        loads.setdefault(n, line)
                o = s
                while o.kind in ('lambda', 'comprehension') + ANNOTATION_KINDS:
                    o = m.scopes[o.parent]
                scopes.append({
                    'kind': 'function' if s.kind in ANNOTATION_KINDS else s.kind, 'parent': s.parent, 'qualname': s.qualname, 'lineno': s.lineno,
                    'owner': o.qualname,       # nearest enclosing def/class ('' = module body)
                    'bound': [I(n) for n in (m.module_names() if s.idx == 0 else s.bound_names())],
                    'globals': [I(n) for n in sorted(s.globals)],
                    'nonlocals': [I(n) for n in sorted(s.nonlocals)],
                    'cells': [I(n) for n in s.cells],
                    'imports': [(I(n), k) for n, k in self.import_idx[(m.name, s.idx)].items()],
                    'loads': [(I(n), line) for n, line in sorted(loads.items(), key=lambda t: (t[1], t[0]))],
                    'all_lines': {n: sorted({l for nn, l, ev in own if nn == n and ev}) for n in loads},
                    'moved_in': {n: t.idx for t in moved.get(s.idx, []) for n, _, _ in t.loads if n not in t.bound},
                    'chains': [(I(b), [I(a) for a in p], line) for b, p, line in
                               sorted(set((b, tuple(p), l) for b, p, l in self.chains[(m.name, s.idx)]),
                                      key=lambda t: (t[2], t[0], t[1]))],
                })
            modules.append({'name': m.name, 'path': m.path, 'scopes': scopes,
                            'from_imports': [(i, I(a), line) for i, a, line in self.from_checks[m.name]]})
        modobjs = []
        for mo in self.modobjs:
            modobjs.append({'key': list(mo['key']),
                            'attrs': [I(a) for a in sorted(mo['attrs'])],
                            'submods': [(I(a), j) for a, j in sorted(mo['submods'].items())]})
        table = [None] * len(names)
        for n, i in names.items():
            table[i] = n
        return {'names': table, 'builtins': bi, 'modobjs': modobjs, 'modules': modules}


def resolve_dynamic(pkg):
    """Module-level names no statement binds but which exist in the module's namespace once it has been imported in a
    pristine interpreter (`exec`, `globals().update`, `setattr(sys.modules[__name__], …)`) are outside the claim:
    count them as bound.  Returns {module: names}; only modules with statically unresolved globals cost anything."""
    from . import c19
    data = pkg.build()
    want = {}
    for mi, si, n, _line in c19.py_failing_loads(data):
        m = data['modules'][mi]
        if not c19.known_id(m['name'], m['scopes'][si]['owner'] or '<module>', data['names'][n]):
            want.setdefault(m['name'], set()).add(data['names'][n])      # (a recorded finding is confirmed already)
    found = {}
    for mod, names in sorted(want.items()):
        got = pkg._fresh(['import importlib, json', f'm = importlib.import_module({mod!r})',
                          f'print(json.dumps([n for n in {sorted(names)!r} if n in vars(m)]))'])
        if got:
            pkg.by_name[mod].add_dynamic(got)
            found[mod] = sorted(got)
    return found


def load_package(repo=None, sources=None, sys_path=None):
    repo = repo or C.REPO
    if sources is None:
        sources = [SourceModule(n, p, k) for n, p, k in discover(repo)]
    pkg = Package(sources, sys_path=sys_path)
    dyn = resolve_dynamic(pkg)
    if dyn:
        old, pkg = pkg, Package(sources, sys_path=sys_path, memo_from=pkg)
    pkg.dynamic_names = dyn
    return pkg


# --------------------------------------------------------------------------
# Lean output
# --------------------------------------------------------------------------

def _nats(l):
    return '[' + ', '.join(str(x) for x in l) + ']'


def _pairs(l):
    return '[' + ', '.join(f'({a}, {b})' for a, b in l) + ']'


def lean_scope(s):
    chains = '[' + ', '.join(f'⟨{b}, {_nats(p)}, {l}⟩' for b, p, l in s['chains']) + ']'
    return (f'{{ kind := .{s["kind"]}, parent := {s["parent"]}, bound := {_nats(s["bound"])}, '
            f'globals := {_nats(s["globals"])}, nonlocals := {_nats(s["nonlocals"])}, '
            f'cells := {_nats(s["cells"])}, imports := {_pairs(s["imports"])},\n'
            f'      loads := {_pairs(s["loads"])},\n      chains := {chains} }}')


def render(data, excused, repo_note):
    out = ['import PsiModel.Scope',
           '/-! GENERATED by harness/translate_names.py — do not edit. Regenerated on every `./check C19`.',
           f'Source: {repo_note}. Scope tables of every module of the package, names interned as naturals',
           '(`nameTable` maps them back; it is documentation, no theorem depends on it). -/',
           'namespace Psi.Gen.Names', 'open Psi.Scope', '']
    out.append(f'def builtins : List Nat := {_nats(data["builtins"])}')
    out.append('')
    for i, mo in enumerate(data['modobjs']):
        out.append(f'/-- module object {i}: {mo["key"][0]} {mo["key"][1]} -/')
        out.append(f'def modobj{i} : ModObj := {{ attrs := {_nats(mo["attrs"])}, submods := {_pairs(mo["submods"])} }}')
    out.append(f'def modobjs : List ModObj := [{", ".join(f"modobj{i}" for i in range(len(data["modobjs"])))}]')
    out.append('')
    for mi, m in enumerate(data['modules']):
        for si, s in enumerate(m['scopes']):
            out.append(f'/-- {m["name"]} scope {si}: {s["kind"]} `{s["qualname"] or "<module>"}` line {s["lineno"]} -/')
            out.append(f'def m{mi}s{si} : Scope :=\n    {lean_scope(s)}')
        fi = '[' + ', '.join(f'({a}, {b}, {c})' for a, b, c in m['from_imports']) + ']'
        out.append(f'/-- module {mi}: {m["name"]} -/')
        out.append(f'def module{mi} : Module := {{ scopes := [{", ".join(f"m{mi}s{si}" for si in range(len(m["scopes"])))}], '
                   f'fromImports := {fi} }}')
        out.append('')
    out.append(f'def package : Package := {{ builtins := builtins, modobjs := modobjs, '
               f'modules := [{", ".join(f"module{i}" for i in range(len(data["modules"])))}] }}')
    out.append('')
    out.append('/-- Loads excused as recorded known findings: (module, scope, name). -/')
    out.append('def excused : List (Nat × Nat × Nat) := [' +
               ', '.join(f'({a}, {b}, {c})' for a, b, c in excused) + ']')
    out.append('')
    names = ', '.join(json.dumps(n, ensure_ascii=True) for n in data['names'])
    out.append(f'def nameTable : Array String := #[{names}]')
    out.append('')
    out.append('end Psi.Gen.Names')
    return '\n'.join(out) + '\n'


def write_if_changed(path, text):
    os.makedirs(os.path.dirname(path), exist_ok=True)
    if os.path.exists(path) and open(path).read() == text:
        return False
    tmp = path + '.tmp'
    open(tmp, 'w').write(text)
    os.replace(tmp, path)
    return True


def main():
    from . import c19
    pkg = load_package()
    data = pkg.build()
    excused = c19.excused_entries(data)
    changed = write_if_changed(OUT, render(data, excused, f'{PKG} ({len(data["modules"])} modules)'))
    print(f'translate_names: {len(data["modules"])} modules, '
          f'{sum(len(m["scopes"]) for m in data["modules"])} scopes, {len(data["names"])} names, '
          f'{len(data["modobjs"])} module objects -> {os.path.relpath(OUT, C.VERIF)}'
          f'{"" if changed else " (unchanged)"}')
    return 0


if __name__ == '__main__':
    sys.exit(main())
