"""C19 translator: Python sources of the package -> scope tables -> lean/PsiGen/Names.lean.

    python -m harness.translate_names            # regenerate lean/PsiGen/Names.lean from $PSI_REPO

The translator walks the AST of every module under $PSI_REPO/psiaudio and records, per
lexical scope (module / function / lambda / comprehension / class): its parent, the names
bound in it, its `global` / `nonlocal` declarations, every evaluated ``Name(Load)`` with its
line, the names bound there solely by an import of a module, and every attribute chain
``base.a.b`` whose base is such an import name somewhere in the module.  Resolution itself
(LEGB) is NOT done here: it is the Lean function ``Psi.Scope.resolve`` (proved sound and
complete w.r.t. the declarative ``BoundAt`` in PsiProofs/C19.lean).  harness/c19.py validates
the tables + ``resolve`` against CPython's ``symtable`` on every run.
"""
import ast
import builtins
import importlib
import json
import os
import sys
import types

from . import common as C

PKG = 'psiaudio'
OUT = os.path.join(C.LEAN, 'PsiGen', 'Names.lean')

KINDS = ['module', 'function', 'lambda', 'comprehension', 'class']
MODULE_IMPLICIT = ['__name__', '__doc__', '__package__', '__loader__', '__spec__', '__file__',
                   '__cached__', '__builtins__', '__annotations__']
CLASS_IMPLICIT = ['__module__', '__qualname__']


class Unsupported(Exception):
    """A construct the translator does not model (reported as an infrastructure failure)."""


class Scope:
    def __init__(self, idx, kind, name, parent, lineno, qualname):
        self.idx = idx
        self.kind = kind
        self.name = name
        self.parent = parent
        self.lineno = lineno
        self.qualname = qualname
        self.bound = {}        # name -> list of binders: ('import', modkey|None) | ('other',)
        self.globals = set()
        self.nonlocals = set()
        self.loads = []        # (name, line, evaluated)
        self.chains = []       # (base, [attrs], line)
        self.children = []
        self.cells = ['__class__'] if kind == 'class' else []
        self.walrus = set()

    def bind(self, name, binder=('other',)):
        self.bound.setdefault(name, []).append(binder)

    def bound_names(self):
        """Names local to this scope (declared global/nonlocal ones are not)."""
        return sorted(n for n in self.bound if n not in self.globals and n not in self.nonlocals)


class Walker(ast.NodeVisitor):
    """Follows the visiting order of CPython's symtable.c so that scopes line up with `symtable`."""

    def __init__(self, modname, is_pkg, tree, resolve_star=True):
        self.resolve_star = resolve_star
        self.has_star = False
        self.modname = modname
        self.is_pkg = is_pkg
        self.scopes = []
        self.class_stack = []
        self.from_imports = []   # (scope idx, absolute module, attr, line)
        self.future_annotations = any(
            isinstance(s, ast.ImportFrom) and s.module == '__future__'
            and any(a.name == 'annotations' for a in s.names) for s in tree.body)
        self.cur = self._new('module', 'top', None, 0)
        for n in MODULE_IMPLICIT + (['__path__'] if is_pkg else []):
            self._bind(n)
        for s in tree.body:
            self.visit(s)

    # ---- scope plumbing ----------------------------------------------------
    def _new(self, kind, name, parent, lineno):
        if parent is None:
            q = ''
        else:
            p = self.scopes[parent]
            qn = f'<{name}>' if kind in ('lambda', 'comprehension') else name
            q = qn if p.kind == 'module' else (
                p.qualname + ('.' if p.kind == 'class' else '.<locals>.') + qn)
        s = Scope(len(self.scopes), kind, name, parent if parent is not None else 0, lineno, q)
        self.scopes.append(s)
        if parent is not None:
            self.scopes[parent].children.append(s.idx)
        return s

    def _mangle(self, name):
        """Private-name mangling inside class bodies (`__x` -> `_Class__x`)."""
        if not self.class_stack or not name.startswith('__') or name.endswith('__') or '.' in name:
            return name
        cls = self.class_stack[-1].lstrip('_')
        return f'_{cls}{name}' if cls else name

    def _bind(self, name, binder=('other',)):
        self.cur.bind(self._mangle(name), binder)

    def _enter(self, kind, name, lineno):
        old = self.cur
        self.cur = self._new(kind, name, old.idx, lineno)
        return old

    def _visit_all(self, nodes):
        for n in nodes:
            if n is not None:
                self.visit(n)

    # ---- package-relative import resolution -------------------------------
    def _absolute(self, module, level):
        if level == 0:
            return module
        parts = self.modname.split('.')
        if not self.is_pkg:
            parts = parts[:-1]
        if level > 1:
            parts = parts[:len(parts) - (level - 1)]
        base = '.'.join(parts)
        return base + ('.' + module if module else '')

    # ---- statements --------------------------------------------------------
    def _function(self, node):
        self._bind(node.name)
        a = node.args
        self._visit_all(a.defaults)
        self._visit_all(a.kw_defaults)
        self._visit_all(node.decorator_list)
        if getattr(node, 'type_params', None):
            raise Unsupported(f'{self.modname}:{node.lineno}: PEP 695 type parameters')
        if not self.future_annotations:
            for arg in a.posonlyargs + a.args:
                self._visit_all([arg.annotation])
            if a.vararg:
                self._visit_all([a.vararg.annotation])
            if a.kwarg:
                self._visit_all([a.kwarg.annotation])
            for arg in a.kwonlyargs:
                self._visit_all([arg.annotation])
            self._visit_all([node.returns])
        old = self._enter('function', node.name, node.lineno)
        self._params(a)
        self._visit_all(node.body)
        self.cur = old

    visit_FunctionDef = _function
    visit_AsyncFunctionDef = _function

    def _params(self, a):
        for arg in a.posonlyargs + a.args + a.kwonlyargs:
            self._bind(arg.arg)
        if a.vararg:
            self._bind(a.vararg.arg)
        if a.kwarg:
            self._bind(a.kwarg.arg)

    def visit_Lambda(self, node):
        a = node.args
        self._visit_all(a.defaults)
        self._visit_all(a.kw_defaults)
        old = self._enter('lambda', 'lambda', node.lineno)
        self._params(a)
        self.visit(node.body)
        self.cur = old

    def visit_ClassDef(self, node):
        self._bind(node.name)
        self._visit_all(node.decorator_list)
        if getattr(node, 'type_params', None):
            raise Unsupported(f'{self.modname}:{node.lineno}: PEP 695 type parameters')
        self._visit_all(node.bases)
        self._visit_all(node.keywords)
        old = self._enter('class', node.name, node.lineno)
        self.class_stack.append(node.name)
        for n in CLASS_IMPLICIT:
            self._bind(n)
        self._visit_all(node.body)
        self.class_stack.pop()
        self.cur = old

    def visit_TypeAlias(self, node):
        raise Unsupported(f'{self.modname}:{node.lineno}: PEP 695 type alias')

    def _comprehension(self, node, name, elts):
        g0 = node.generators[0]
        self.visit(g0.iter)                       # evaluated in the enclosing scope
        old = self._enter('comprehension', name, node.lineno)
        self._bind('.0')
        self.visit(g0.target)
        self._visit_all(g0.ifs)
        for g in node.generators[1:]:
            self.visit(g.target)
            self.visit(g.iter)
            self._visit_all(g.ifs)
        self._visit_all(elts)
        self.cur = old

    def visit_ListComp(self, node):
        self._comprehension(node, 'listcomp', [node.elt])

    def visit_SetComp(self, node):
        self._comprehension(node, 'setcomp', [node.elt])

    def visit_GeneratorExp(self, node):
        self._comprehension(node, 'genexpr', [node.elt])

    def visit_DictComp(self, node):
        self._comprehension(node, 'dictcomp', [node.value, node.key])

    def visit_NamedExpr(self, node):
        self.visit(node.value)
        # a walrus inside a comprehension binds in the nearest enclosing non-comprehension scope
        s = self.cur
        while s.kind == 'comprehension':
            s.walrus.add(self._mangle(node.target.id))      # symtable marks it nonlocal/global in the comprehension
            s = self.scopes[s.parent]
        if s is not self.cur:
            if s.kind == 'class':
                raise Unsupported(f'{self.modname}:{node.lineno}: walrus in class-level comprehension')
            s.bind(self._mangle(node.target.id))
            # inside the comprehension(s) the name is then an ordinary free/global reference
        else:
            self._bind(node.target.id)

    def visit_Global(self, node):
        self.cur.globals.update(self._mangle(n) for n in node.names)

    def visit_Nonlocal(self, node):
        self.cur.nonlocals.update(self._mangle(n) for n in node.names)

    def visit_Import(self, node):
        for a in node.names:
            if a.asname:
                self._bind(a.asname, ('import', ('mod', a.name)))
            else:
                top = a.name.split('.')[0]
                self._bind(top, ('import', ('mod', top, a.name)))

    def visit_ImportFrom(self, node):
        if node.module == '__future__':
            # `from __future__ import annotations` also binds the name (to a _Feature object)
            for a in node.names:
                self._bind(a.asname or a.name)
            return
        absmod = self._absolute(node.module, node.level)
        for a in node.names:
            if a.name == '*':
                self.has_star = True
                if self.resolve_star:
                    for n in star_names(absmod):
                        self._bind(n)
                continue
            self._bind(a.asname or a.name, ('import', ('from', absmod, a.name)))
            self.from_imports.append((self.cur.idx, absmod, a.name, node.lineno))

    def visit_AnnAssign(self, node):
        simple = isinstance(node.target, ast.Name)
        if simple:
            self._bind(node.target.id)
        else:
            self.visit(node.target)
        if not self.future_annotations:
            # annotations of simple names are not evaluated in function scopes (PEP 526);
            # symtable still records them, so keep them as non-evaluated loads
            if self.cur.kind in ('function', 'lambda', 'comprehension'):
                mark = len(self.cur.loads)
                cmark = len(self.cur.chains)
                self.visit(node.annotation)
                self.cur.loads[mark:] = [(n, l, False) for n, l, _ in self.cur.loads[mark:]]
                del self.cur.chains[cmark:]
            else:
                self.visit(node.annotation)
        if node.value is not None:
            self.visit(node.value)

    def _try(self, node):
        # symtable.c order: body, orelse, handlers, finalbody
        self._visit_all(node.body)
        self._visit_all(node.orelse)
        self._visit_all(node.handlers)
        self._visit_all(node.finalbody)

    visit_Try = _try
    visit_TryStar = _try

    def visit_ExceptHandler(self, node):
        self._visit_all([node.type])
        if node.name:
            self._bind(node.name)
        self._visit_all(node.body)

    def visit_MatchAs(self, node):
        self._visit_all([node.pattern])
        if node.name:
            self._bind(node.name)

    def visit_MatchStar(self, node):
        if node.name:
            self._bind(node.name)

    def visit_MatchMapping(self, node):
        self._visit_all(node.keys)
        self._visit_all(node.patterns)
        if node.rest:
            self._bind(node.rest)

    # ---- expressions -------------------------------------------------------
    def visit_Name(self, node):
        if isinstance(node.ctx, ast.Load):
            self.cur.loads.append((self._mangle(node.id), node.lineno, True))
        else:
            self._bind(node.id)

    def visit_Attribute(self, node):
        attrs = []
        n = node
        while isinstance(n, ast.Attribute):
            attrs.append(self._mangle(n.attr))
            n = n.value
        if isinstance(n, ast.Name) and isinstance(n.ctx, ast.Load):
            path = attrs[::-1]
            if not isinstance(node.ctx, ast.Load):
                path = path[:-1]          # `mod.x = …` only reads `mod`
            self.cur.loads.append((self._mangle(n.id), n.lineno, True))
            if path:
                self.cur.chains.append((self._mangle(n.id), path, node.lineno))
        else:
            self.visit(n)


def star_names(absmod):
    m = importlib.import_module(absmod)
    return list(getattr(m, '__all__', [n for n in dir(m) if not n.startswith('_')]))


# --------------------------------------------------------------------------
# package -> tables
# --------------------------------------------------------------------------

class SourceModule:
    def __init__(self, name, path, is_pkg, src=None, resolve_star=True):
        self.name = name
        self.path = path
        self.is_pkg = is_pkg
        self.src = open(path).read() if src is None else src
        self.tree = ast.parse(self.src, path)
        w = Walker(name, is_pkg, self.tree, resolve_star)
        self.has_star = w.has_star
        self.scopes = w.scopes
        self.from_imports = w.from_imports
        # names assigned under a `global` declaration in some function are module globals once that
        # function has run (flow-insensitive, like locals): count them as bound at module level
        self.global_assigned = set()
        for s in self.scopes[1:]:
            for n in s.globals:
                if n in s.bound:
                    self.global_assigned.add(n)
                    self.scopes[0].bind(n)


def discover(repo):
    root = os.path.join(repo, PKG)
    mods = []
    for dirpath, dirs, files in os.walk(root):
        dirs[:] = sorted(d for d in dirs if d != '__pycache__' and
                         os.path.exists(os.path.join(dirpath, d, '__init__.py')))
        rel = os.path.relpath(dirpath, os.path.dirname(root)).replace(os.sep, '.')
        for f in sorted(files):
            if f.endswith('.py'):
                p = os.path.join(dirpath, f)
                if f == '__init__.py':
                    mods.append((rel, p, True))
                else:
                    mods.append((rel + '.' + f[:-3], p, False))
    return sorted(mods)


class Package:
    """Scope tables of all source modules + module objects referenced by attribute chains."""

    def __init__(self, sources, with_imports=True):
        """sources: list of SourceModule.  with_imports=False: scope tables only (no module is
        imported, no chains) — used for the translator-validation corpora."""
        self.with_imports = with_imports
        self.mods = sources
        self.by_name = {m.name: m for m in sources}
        self.modobjs = []          # list of dict(key, attrs:set, submods:dict attr->idx)
        self.modobj_idx = {}       # key -> idx
        self._import_memo = {}
        self._loaded_memo = {}
        self._objs = {}
        self.notes = []
        # imports[(module name, scope idx)] = {name: modobj idx}
        self.imports = {}
        for m in self.mods:
            for s in m.scopes:
                tab = {}
                for n in (s.bound_names() if with_imports else []):
                    k = self.module_bound_to(m, s, n)
                    if k is not None:
                        tab[n] = k
                self.imports[(m.name, s.idx)] = tab
        # only now intern module objects actually used by chains / from-imports
        self.chains = {}           # (module, scope) -> list of (base, path, line)
        for m in self.mods:
            import_names = set()
            for s in m.scopes:
                import_names.update(self.imports[(m.name, s.idx)])
            for s in m.scopes:
                self.chains[(m.name, s.idx)] = [c for c in s.chains if c[0] in import_names]
        self.import_idx = {}
        for m in self.mods:
            for s in m.scopes:
                self.import_idx[(m.name, s.idx)] = {
                    n: self.intern_modobj(self._ref_key(k, m.name))
                    for n, k in sorted(self.imports[(m.name, s.idx)].items())}
        for m in self.mods:
            for s in m.scopes:
                for base, path, line in self.chains[(m.name, s.idx)]:
                    for tab in (self.import_idx[(m.name, t.idx)] for t in m.scopes):
                        if base in tab:
                            self.walk_chain(tab[base], path)
        self.from_checks = {}      # module -> list of (modobj idx, attr, line)
        for m in self.mods:
            out = []
            for sidx, absmod, attr, line in (m.from_imports if with_imports else []):
                k = self.module_key(absmod)
                if k is None:
                    continue       # module not importable here: optional dependency, outside the claim
                i = self.intern_modobj(k)
                self.walk_chain(i, [attr])
                out.append((i, attr, line))
            self.from_checks[m.name] = out

    # ---- which submodules are loaded when a module of the package has been imported? -------------
    def _imported_by(self, m, scopes):
        """Absolute names of the modules that the import statements in `scopes` of source module m load."""
        out = set()

        def add(name):
            parts = name.split('.')
            for i in range(1, len(parts) + 1):
                out.add('.'.join(parts[:i]))
        for s in scopes:
            for binders in s.bound.values():
                for b in binders:
                    if b[0] != 'import':
                        continue
                    spec = b[1]
                    if spec[0] == 'mod':
                        add(spec[2] if len(spec) == 3 else spec[1])
                    else:
                        add(spec[1])
                        add(spec[1] + '.' + spec[2])      # harmless when the attribute is not a module
        return out

    def loaded_by(self, modname):
        """Modules certainly (flow-insensitively) loaded once `modname` runs: the transitive closure of the
        module-level imports of the package's source modules, starting from modname and the __init__ of its
        parent packages, plus the imports anywhere inside modname itself (function-level ones included)."""
        if modname in self._loaded_memo:
            return self._loaded_memo[modname]
        seen, todo = set(), [modname]
        parts = modname.split('.')
        todo += ['.'.join(parts[:i]) for i in range(1, len(parts))]
        first = True
        while todo:
            n = todo.pop()
            if n in seen:
                continue
            seen.add(n)
            m = self.by_name.get(n)
            if m is None:
                continue
            scopes = m.scopes if n == modname else m.scopes[:1]
            for x in self._imported_by(m, scopes):
                if x not in seen:
                    todo.append(x)
        self._loaded_memo[modname] = seen
        return seen

    def _ref_key(self, k, refmod):
        """A source PACKAGE object is described per referencing module: which of its submodules are attributes of
        it depends on what has been imported by then."""
        if k is not None and k[0] == 'src' and len(k) == 2 and self.by_name[k[1]].is_pkg:
            return ('src', k[1], refmod)
        return k

    # ---- which module object does a name denote? ---------------------------
    def module_key(self, absname):
        """('src', name) for a package source module, ('dyn', name) for an importable library module."""
        if absname in self.by_name:
            return ('src', absname)
        if absname in self._import_memo:
            return self._import_memo[absname]
        try:
            mod = importlib.import_module(absname)
            key = self._dyn_key(mod) if isinstance(mod, types.ModuleType) else None
        except Exception:
            key = None
        self._import_memo[absname] = key
        return key

    def _dyn_key(self, mod):
        name = mod.__name__
        if name in self.by_name:
            return ('src', name)
        if self._objs.setdefault(name, mod) is not mod:
            name = f'{name}#{id(mod)}'
            self._objs[name] = mod
        return ('dyn', name)

    def dyn(self, key):
        return self._objs[key[1]]

    def attr_module_key(self, key, attr, _seen=()):
        """If attribute `attr` of module `key` is itself a module, its key; else None."""
        if key[0] == 'src':
            m = self.by_name[key[1]]
            if attr in m.scopes[0].bound:
                if (key, attr) in _seen:
                    return None
                return self.module_bound_to(m, m.scopes[0], attr, _seen + ((key, attr),))
            if m.is_pkg:
                sk = self.module_key(key[1] + '.' + attr)      # submodule (source file or installed)
                return self._ref_key(sk, key[2]) if len(key) > 2 else sk
            return None
        obj = self.dyn(key)
        try:
            v = getattr(obj, attr)
        except Exception:
            if hasattr(obj, '__path__'):
                return self.module_key(obj.__name__ + '.' + attr)   # `from pkg import submodule`
            return None
        return self._dyn_key(v) if isinstance(v, types.ModuleType) else None

    def module_bound_to(self, m, s, name, _seen=()):
        """Module key when `name` is bound in scope s of module m solely by imports of one module."""
        binders = s.bound.get(name)
        if not binders or name in s.globals or name in s.nonlocals:
            return None
        keys = set()
        for b in binders:
            if b[0] != 'import':
                return None
            spec = b[1]
            if spec[0] == 'mod':
                k = self.module_key(spec[1])
                if len(spec) == 3:
                    self.module_key(spec[2])      # `import a.b.c` binds a, and loads a.b.c
            else:
                pk = self.module_key(spec[1])
                k = self.attr_module_key(pk, spec[2], _seen) if pk is not None else None
            if k is None:
                return None
            keys.add(k)
        return keys.pop() if len(keys) == 1 else None

    # ---- module objects ------------------------------------------------------
    def intern_modobj(self, key):
        if key in self.modobj_idx:
            return self.modobj_idx[key]
        i = len(self.modobjs)
        self.modobj_idx[key] = i
        if key[0] == 'src':
            m = self.by_name[key[1]]
            attrs = set(m.scopes[0].bound_names())
            if m.is_pkg:
                d = os.path.dirname(m.path)
                # a submodule is an attribute of the package object only once it has been imported: when the
                # package is reached through a name of referencing module key[2], only the submodules loaded by then
                loaded = self.loaded_by(key[2]) if len(key) > 2 else None
                for f in os.listdir(d):
                    sub = f[:-3] if f.endswith('.py') and f != '__init__.py' else \
                        (f if os.path.exists(os.path.join(d, f, '__init__.py')) else None)
                    if sub and (loaded is None or f'{key[1]}.{sub}' in loaded):
                        attrs.add(sub)
        else:
            attrs = set(dir(self.dyn(key)))
        self.modobjs.append({'key': key, 'attrs': attrs, 'submods': {}})
        return i

    def walk_chain(self, i, path):
        """Make sure the module objects along `path` (as far as it stays inside modules) are described."""
        if not path:
            return
        mo = self.modobjs[i]
        a = path[0]
        key = mo['key']
        if key[0] == 'dyn' and a not in mo['attrs']:
            try:
                if hasattr(self.dyn(key), a):        # lazily loaded submodule / module __getattr__
                    mo['attrs'].add(a)
            except Exception:
                pass
        if a not in mo['attrs']:
            return
        if a in mo['submods']:
            return self.walk_chain(mo['submods'][a], path[1:])
        sk = self.attr_module_key(key, a)
        if sk is not None:
            j = self.intern_modobj(sk)
            mo['submods'][a] = j
            self.walk_chain(j, path[1:])

    # ---- interning / output ----------------------------------------------------
    def build(self, known_keys=()):
        """Intern names; returns a JSON-able dict describing the whole Lean `Package`."""
        names = {}

        def I(n):
            if n not in names:
                names[n] = len(names)
            return names[n]

        bi = [I(n) for n in sorted(dir(builtins))]
        modules = []
        for m in self.mods:
            scopes = []
            for s in m.scopes:
                loads = {}
                for n, line, ev in s.loads:
                    if ev:
                        loads.setdefault(n, line)
                o = s
                while o.kind in ('lambda', 'comprehension'):
                    o = m.scopes[o.parent]
                scopes.append({
                    'kind': s.kind, 'parent': s.parent, 'qualname': s.qualname, 'lineno': s.lineno,
                    'owner': o.qualname,       # nearest enclosing def/class ('' = module body)
                    'bound': [I(n) for n in s.bound_names()],
                    'globals': [I(n) for n in sorted(s.globals)],
                    'nonlocals': [I(n) for n in sorted(s.nonlocals)],
                    'cells': [I(n) for n in s.cells],
                    'imports': [(I(n), k) for n, k in self.import_idx[(m.name, s.idx)].items()],
                    'loads': [(I(n), line) for n, line in sorted(loads.items(), key=lambda t: (t[1], t[0]))],
                    'all_lines': {n: sorted({l for nn, l, ev in s.loads if nn == n and ev}) for n in loads},
                    'chains': [(I(b), [I(a) for a in p], line) for b, p, line in
                               sorted(set((b, tuple(p), l) for b, p, l in self.chains[(m.name, s.idx)]),
                                      key=lambda t: (t[2], t[0], t[1]))],
                })
            modules.append({'name': m.name, 'path': m.path, 'scopes': scopes,
                            'from_imports': [(i, I(a), line) for i, a, line in self.from_checks[m.name]]})
        modobjs = []
        for mo in self.modobjs:
            modobjs.append({'key': list(mo['key']),
                            'attrs': [I(a) for a in sorted(mo['attrs'])],
                            'submods': [(I(a), j) for a, j in sorted(mo['submods'].items())]})
        table = [None] * len(names)
        for n, i in names.items():
            table[i] = n
        return {'names': table, 'builtins': bi, 'modobjs': modobjs, 'modules': modules}


def load_package(repo=None):
    repo = repo or C.REPO
    return Package([SourceModule(n, p, k) for n, p, k in discover(repo)])


# --------------------------------------------------------------------------
# Lean output
# --------------------------------------------------------------------------

def _nats(l):
    return '[' + ', '.join(str(x) for x in l) + ']'


def _pairs(l):
    return '[' + ', '.join(f'({a}, {b})' for a, b in l) + ']'


def lean_scope(s):
    chains = '[' + ', '.join(f'⟨{b}, {_nats(p)}, {l}⟩' for b, p, l in s['chains']) + ']'
    return (f'{{ kind := .{s["kind"]}, parent := {s["parent"]}, bound := {_nats(s["bound"])}, '
            f'globals := {_nats(s["globals"])}, nonlocals := {_nats(s["nonlocals"])}, '
            f'cells := {_nats(s["cells"])}, imports := {_pairs(s["imports"])},\n'
            f'      loads := {_pairs(s["loads"])},\n      chains := {chains} }}')


def render(data, excused, repo_note):
    out = ['import PsiModel.Scope',
           '/-! GENERATED by harness/translate_names.py — do not edit. Regenerated on every `./check C19`.',
           f'Source: {repo_note}. Scope tables of every module of the package, names interned as naturals',
           '(`nameTable` maps them back; it is documentation, no theorem depends on it). -/',
           'namespace Psi.Gen.Names', 'open Psi.Scope', '']
    out.append(f'def builtins : List Nat := {_nats(data["builtins"])}')
    out.append('')
    for i, mo in enumerate(data['modobjs']):
        out.append(f'/-- module object {i}: {mo["key"][0]} {mo["key"][1]} -/')
        out.append(f'def modobj{i} : ModObj := {{ attrs := {_nats(mo["attrs"])}, submods := {_pairs(mo["submods"])} }}')
    out.append(f'def modobjs : List ModObj := [{", ".join(f"modobj{i}" for i in range(len(data["modobjs"])))}]')
    out.append('')
    for mi, m in enumerate(data['modules']):
        for si, s in enumerate(m['scopes']):
            out.append(f'/-- {m["name"]} scope {si}: {s["kind"]} `{s["qualname"] or "<module>"}` line {s["lineno"]} -/')
            out.append(f'def m{mi}s{si} : Scope :=\n    {lean_scope(s)}')
        fi = '[' + ', '.join(f'({a}, {b}, {c})' for a, b, c in m['from_imports']) + ']'
        out.append(f'/-- module {mi}: {m["name"]} -/')
        out.append(f'def module{mi} : Module := {{ scopes := [{", ".join(f"m{mi}s{si}" for si in range(len(m["scopes"])))}], '
                   f'fromImports := {fi} }}')
        out.append('')
    out.append(f'def package : Package := {{ builtins := builtins, modobjs := modobjs, '
               f'modules := [{", ".join(f"module{i}" for i in range(len(data["modules"])))}] }}')
    out.append('')
    out.append('/-- Loads excused as recorded known findings: (module, scope, name). -/')
    out.append('def excused : List (Nat × Nat × Nat) := [' +
               ', '.join(f'({a}, {b}, {c})' for a, b, c in excused) + ']')
    out.append('')
    names = ', '.join(json.dumps(n, ensure_ascii=True) for n in data['names'])
    out.append(f'def nameTable : Array String := #[{names}]')
    out.append('')
    out.append('end Psi.Gen.Names')
    return '\n'.join(out) + '\n'


def write_if_changed(path, text):
    os.makedirs(os.path.dirname(path), exist_ok=True)
    if os.path.exists(path) and open(path).read() == text:
        return False
    tmp = path + '.tmp'
    open(tmp, 'w').write(text)
    os.replace(tmp, path)
    return True


def main():
    from . import c19
    pkg = load_package()
    data = pkg.build()
    excused = c19.excused_entries(data)
    changed = write_if_changed(OUT, render(data, excused, f'{PKG} ({len(data["modules"])} modules)'))
    print(f'translate_names: {len(data["modules"])} modules, '
          f'{sum(len(m["scopes"]) for m in data["modules"])} scopes, {len(data["names"])} names, '
          f'{len(data["modobjs"])} module objects -> {os.path.relpath(OUT, C.VERIF)}'
          f'{"" if changed else " (unchanged)"}')
    return 0


if __name__ == '__main__':
    sys.exit(main())
