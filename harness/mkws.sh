#!/bin/sh
# mkws.sh <name>: scratch worktrees for one work-stream (outside /repo and /verif)
set -e
n="$1"
mkdir -p /tmp/ws/$n
git -C /verif worktree add -q -b ws-$n /tmp/ws/$n/verif HEAD
git -C /repo worktree add -q --detach /tmp/ws/$n/repo HEAD
echo "/tmp/ws/$n ready"
