"""C15 — signal buffer operations are atomic under concurrent use (custom flow; DESIGN.md §6 C15).

Flow of ``./check C15``:
 1. translate $PSI_REPO/psiaudio/buffer.py -> lock footprints -> lean/PsiGen/Locks.lean (every run);
 2. translator validation: (a) the Lean ``atomicByName``/``footprint`` (through ``psidriver conc``) against a
    Python mirror; (b) *dynamic footprint*: every public operation is executed on the real class with an
    access-logging subclass and a depth-counting lock — an operation the table calls atomic must perform
    every access to the shared fields inside exactly one outermost lock span (else exit 2);
    (c) the schedule explorer (harness/sched.py) on the real class: small in the quick tier, ~3 min in the
    thorough tier;
 3. ``lake build PsiProofs.C15`` (``serialisable`` for all schedules + ``buffer_ops_atomic`` by kernel
    evaluation of the regenerated table) + axiom audit;
 4. on break (an operation is no longer atomic / the proof does not build): the explorer searches the real
    class for a torn read on scenarios that use the non-atomic operations; found -> VIOLATION with the
    scenario + schedule string as replay, else ``no-failing-input-found``.
"""
import json
import os
import time
import traceback

import numpy as np

from . import common as C
from . import sched
from . import translate_locks as T
from .translate_names import write_if_changed

PROP = 'C15'
PROOF_MODULES = ['PsiProofs.C15']
PUBLIC_OPS = ['append_data', 'invalidate', 'invalidate_samples', 'resize', 'get_latest', 'get_range',
              'get_range_filled', 'get_range_samples', 'get_samples_lb', 'get_samples_ub', 'get_time_lb',
              'get_time_ub']


# --------------------------------------------------------------------------
# Python mirror of Psi.Conc.footprint / atomicK
# --------------------------------------------------------------------------

def py_footprint(d, m):
    toks = list(d['methods'][m])
    for _ in range(len(d['methods'])):
        out = []
        for t in toks:
            if t[0] == 'call' and t[1] < len(d['methods']):
                out.extend(d['methods'][t[1]])
            else:
                out.append(t)
        toks = out
    return ''.join({'acq': 'a', 'rel': 'r', 'read': 'o', 'write': 'o', 'call': 'b'}[t[0]] for t in toks)


def py_atomic(fp):
    if not fp or fp[0] != 'a':
        return False
    d = 1
    for i, k in enumerate(fp[1:], 1):
        if d == 0:
            return False
        if k == 'a':
            d += 1
        elif k == 'r':
            d -= 1
            if d == 0:
                return i == len(fp) - 1
        elif k == 'b':
            return False
    return False


def driver_verdicts(d):
    def tok(t):
        return {'acq': 'A', 'rel': 'R'}.get(t[0]) or {'read': 'r', 'write': 'w', 'call': 'c'}[t[0]] + str(t[1])
    lines = ['reset', 'names ' + ','.join(d['names'])]
    lines += ['method ' + (','.join(tok(t) for t in m) or '-') for m in d['methods']]
    q = len(lines)
    for n in d['names']:
        lines += [f'atomic {n}', f'footprint {n}']
    out = C.Driver('conc').run(lines)
    if 'bad-op' in out:
        raise RuntimeError('conc driver rejected a line')
    res = {}
    for i, n in enumerate(d['names']):
        res[n] = (out[q + 2 * i] == 'true', '' if out[q + 2 * i + 1] == '-' else out[q + 2 * i + 1])
    return res


# --------------------------------------------------------------------------
# dynamic footprint of the real class
# --------------------------------------------------------------------------

class CountingLock:
    def __init__(self):
        self.depth = 0
        self.spans = 0

    def __enter__(self):
        if self.depth == 0:
            self.spans += 1
        self.depth += 1
        return self

    def __exit__(self, *a):
        self.depth -= 1

    acquire = __enter__

    def release(self):
        self.depth -= 1


def dynamic_calls():
    """Per public operation: calls that together take every branch of the method and of what it calls
    (chunk smaller / larger than the capacity; invalidation before, at the lower bound of, inside and beyond the
    window; resize smaller / same / larger; reads inside, overlapping and outside the window; defaults)."""
    return {
        'append_data': [lambda b, x: b.append_data(x(3)), lambda b, x: b.append_data(x(12)),
                        lambda b, x: b.append_data(x(8)), lambda b, x: b.append_data(x(1))],
        'invalidate': [lambda b, x: b.invalidate(0.5), lambda b, x: b.invalidate(5.0), lambda b, x: b.invalidate(0.0),
                       lambda b, x: b.invalidate(0.2), lambda b, x: b.invalidate(0.1), lambda b, x: b.invalidate(0.9)],
        'invalidate_samples': [lambda b, x: b.invalidate_samples(7), lambda b, x: b.invalidate_samples(50),
                               lambda b, x: b.invalidate_samples(0), lambda b, x: b.invalidate_samples(1),
                               lambda b, x: b.invalidate_samples(2), lambda b, x: b.invalidate_samples(3),
                               lambda b, x: b.invalidate_samples(9), lambda b, x: b.invalidate_samples(4)],
        'resize': [lambda b, x: b.resize(1.6), lambda b, x: b.resize(0.8), lambda b, x: b.resize(0.3)],
        'get_latest': [lambda b, x: b.get_latest(-0.4), lambda b, x: b.get_latest(-0.4, 0, -1.0),
                       lambda b, x: b.get_latest(-0.4, -0.1), lambda b, x: b.get_latest(-3.0, 0, -1.0),
                       lambda b, x: b.get_latest(-3.0)],
        'get_range': [lambda b, x: b.get_range(), lambda b, x: b.get_range(0.5, 0.8), lambda b, x: b.get_range(0.5),
                      lambda b, x: b.get_range(None, 0.7), lambda b, x: b.get_range(-1.0, 0.5),
                      lambda b, x: b.get_range(0.5, 9.0)],
        'get_range_filled': [lambda b, x: b.get_range_filled(0.2, 1.6, -1.0), lambda b, x: b.get_range_filled(0.5, 0.7, -1.0),
                             lambda b, x: b.get_range_filled(-2.0, -1.0, -1.0), lambda b, x: b.get_range_filled(5.0, 6.0, -1.0),
                             lambda b, x: b.get_range_filled(-1.0, 9.0, -1.0)],
        'get_range_samples': [lambda b, x: b.get_range_samples(), lambda b, x: b.get_range_samples(5, 8),
                              lambda b, x: b.get_range_samples(5), lambda b, x: b.get_range_samples(None, 7),
                              lambda b, x: b.get_range_samples(0, 3), lambda b, x: b.get_range_samples(5, 99)],
        'get_samples_lb': [lambda b, x: b.get_samples_lb()],
        'get_samples_ub': [lambda b, x: b.get_samples_ub()],
        'get_time_lb': [lambda b, x: b.get_time_lb()],
        'get_time_ub': [lambda b, x: b.get_time_ub()],
    }


def dynamic_footprint(d, rng):
    """{op: (min depth of any shared-field access, max number of outermost spans per call, calls)} over several
    states of the real class (partly filled, exactly full, wrapped, resized, just invalidated; 1-D and 2 channels)."""
    from psiaudio.buffer import SignalBuffer
    fields = set(d['fields'])
    log = []

    class Probe(SignalBuffer):
        def __getattribute__(self, name):
            if name in fields:
                lock = object.__getattribute__(self, '_lock')
                if isinstance(lock, CountingLock):
                    log.append(lock.depth)
            return object.__getattribute__(self, name)

        def __setattr__(self, name, v):
            if name in fields and '_lock' in self.__dict__ and isinstance(self.__dict__['_lock'], CountingLock):
                log.append(self.__dict__['_lock'].depth)
            object.__setattr__(self, name, v)

    def chunks(nch):
        k = [0]

        def x(n):
            a = np.arange(k[0], k[0] + n, dtype='double')
            k[0] += n
            return a if nch is None else np.vstack([a + 1000 * c for c in range(nch)])
        return x

    # (n_channels, prefill chunks, operations applied before the call under observation)
    states = [(None, [10], []), (None, [5], []), (None, [8], []), (2, [10], []), (2, [3], []),
              (None, [10], [lambda b, x: b.resize(1.6)]), (None, [10], [lambda b, x: b.invalidate_samples(6)]),
              (None, [], []), (1, [9], [lambda b, x: b.resize(0.5), lambda b, x: b.append_data(x(2))])]
    calls = dynamic_calls()
    out = {}
    for op in PUBLIC_OPS:
        mind, spans, n = None, 0, 0
        for nch, pre, setup in states:
            for f in calls[op]:
                x = chunks(nch)
                b = Probe(fs=10.0, size=0.8, n_channels=nch)
                try:
                    for m in pre:
                        b.append_data(x(m))
                    for g in setup:
                        g(b, x)
                except (IndexError, ValueError):
                    continue
                lock = CountingLock()
                object.__setattr__(b, '_lock', lock)
                del log[:]
                try:
                    f(b, x)
                except (IndexError, ValueError):
                    pass
                n += 1
                if log:
                    mind = min(log) if mind is None else min(mind, min(log))
                spans = max(spans, lock.spans)
        out[op] = (mind, spans, n)
    return out


def real_class_problems(d):
    """What the translator cannot see in the source but the model relies on: the lock of a real object is one
    `threading.RLock`, the same object for the whole life of the buffer, and every method the table describes is
    the plain function compiled from the lines the table was made from (not wrapped or replaced after the fact)."""
    import threading
    from psiaudio.buffer import SignalBuffer
    import psiaudio.buffer as B
    out = []
    src = B.__file__[:-1] if B.__file__.endswith('.pyc') else B.__file__
    if os.path.realpath(src) != os.path.realpath(d['path']):
        out.append(f'psiaudio.buffer was imported from {src}, the table was made from {d["path"]}')
    if SignalBuffer.__mro__[1:] != (object,):
        out.append(f'SignalBuffer inherits from {SignalBuffer.__mro__[1:-1]}')
    for hook in ('__getattr__', '__getattribute__', '__setattr__'):
        if hook in SignalBuffer.__dict__:
            out.append(f'SignalBuffer defines {hook}')
    for name in d['names']:
        f = SignalBuffer.__dict__.get(name)
        if isinstance(f, property):
            f = f.fget
        code = getattr(f, '__code__', None)
        if code is None or not isinstance(f, type(real_class_problems)):
            out.append(f'SignalBuffer.{name} is not a plain function ({type(f).__name__})')
        elif code.co_filename != B.__file__ or code.co_firstlineno != d['deflines'][name] or getattr(f, '__wrapped__', None):
            out.append(f'SignalBuffer.{name} is not the function defined at line {d["deflines"][name]} of buffer.py')
    extra = [k for k, v in SignalBuffer.__dict__.items()
             if k not in d['names'] and not k.startswith('__') and (callable(v) or isinstance(v, (property, staticmethod, classmethod)))]
    if extra:
        out.append(f'SignalBuffer has callables the table does not describe: {sorted(extra)}')
    rlock_type = type(threading.RLock())
    for nch in (None, 2):
        b = SignalBuffer(fs=10.0, size=0.8, n_channels=nch)
        lock = b.__dict__.get('_lock')
        if type(lock) is not rlock_type:
            out.append(f'the lock of a new buffer is a {type(lock).__name__}, not a threading.RLock')
            break
        x = (lambda n: np.zeros(n)) if nch is None else (lambda n: np.zeros((2, n)))
        b.append_data(x(10))
        for op, fs in dynamic_calls().items():
            for f in fs:
                try:
                    f(b, x)
                except (IndexError, ValueError):
                    pass
                if b.__dict__.get('_lock') is not lock:
                    out.append(f'{op} replaced the lock object of the buffer')
                    return out
        if not lock.acquire(blocking=False):
            out.append('the lock is still held after the operations returned')
        else:
            lock.release()
            try:
                lock.release()
                out.append('an operation left the lock acquired (recursion level > 0 after it returned)')
            except RuntimeError:
                pass
    return out


# --------------------------------------------------------------------------
# scenarios for an operation that is no longer atomic
# --------------------------------------------------------------------------

def uses(d, op, target):
    """Does the inlined body of `op` contain the body of `target` (call graph reachability)?"""
    seen, todo = set(), [d['names'].index(op)]
    while todo:
        m = todo.pop()
        if m in seen:
            continue
        seen.add(m)
        todo += [t[1] for t in d['methods'][m] if t[0] == 'call' and t[1] < len(d['methods'])]
    return d['names'].index(target) in seen


def targeted(all_sc, d, broken):
    """Scenarios that call a non-atomic method directly first, then those that reach one, then the rest."""
    broken = [b for b in broken if b in d['names']]

    def score(sc):
        ops = [op[0] for op in sc['writer'] + sc['reader'] if op[0] in d['names']]
        if any(o in broken for o in ops):
            return 0
        return 1 if any(uses(d, o, b) for o in ops for b in broken) else 2
    return sorted(all_sc, key=score)


def _first_error(log):
    return [l for l in log.split('\n') if 'error' in l.lower()][:6]


def _explore_job(job):
    i, sc, depth, each, opcode_funcs = job
    return i, sched.explore(sc, max_preempt=depth, budget_s=each, opcode_funcs=opcode_funcs)


def explore_many(scs, depth, each, budget, opcode_funcs=()):
    """explore() on every scenario, in worker processes, in list order; stops at the first torn outcome (first in
    list order among the scenarios finished so far) or when the time budget is used up."""
    import multiprocessing as mp
    t0 = time.time()
    jobs = [(i, sc, depth, each, tuple(opcode_funcs)) for i, sc in enumerate(scs)]
    results, torn = [], None
    ctx = mp.get_context('fork')
    with ctx.Pool(min(12, os.cpu_count() or 1)) as pool:
        for i, res in pool.imap(_explore_job, jobs):
            results.append((i, res))
            if res['torn']:
                torn = res['torn']
                break
            if time.time() - t0 > budget:
                break
        pool.terminate()
    return {'results': results, 'torn': torn}


def main(tier, seed, replay):
    if replay:
        return do_replay(replay)
    t0 = time.time()
    rng = C.Rng(seed)
    infra, breaks, out_lines = [], [], []
    checker_cmds = ['python -m harness.translate_locks']

    # ---- 1. translate -----------------------------------------------------
    try:
        d = T.translate()
    except (T.Unsupported, SyntaxError) as e:
        # the footprint cannot be extracted (class/lock restructured): nothing is proved about this tree
        d = None
        breaks.append(('translator', {'error': f'{type(e).__name__}: {e}'}))
    if d is not None:
        write_if_changed(T.OUT, T.render(d))

    # ---- 2. translator validation -------------------------------------------
    driver_ok, dlog, _ = C.lake_build(['psidriver'])
    if not driver_ok:
        print('INFRA: psidriver does not build: ' + '; '.join(_first_error(dlog)))
        return 2
    verdict, nonatomic, dyn = {}, [], {}
    if d is not None:
        try:
            verdict = driver_verdicts(d)
            for i, n in enumerate(d['names']):
                fp = py_footprint(d, i)
                if (py_atomic(fp), fp) != verdict[n]:
                    infra.append(f'Lean and Python footprint of {n} differ: {verdict[n]} vs {(py_atomic(fp), fp)}')
            nonatomic = [n for n in PUBLIC_OPS if not verdict.get(n, (False,))[0]]
            dyn = dynamic_footprint(d, rng)
            for op, (mind, spans, n) in dyn.items():
                if verdict.get(op, (False,))[0] and not (mind is not None and mind >= 1 and spans == 1):
                    # the table does not describe what the real method does: nothing is proved about this tree
                    breaks.append(('footprint-vs-real-method', {
                        'operation': op, 'detail': f'the table says {op} is atomic but the real method accessed the '
                        f'shared fields at lock depth {mind} in {spans} outermost span(s)'}))
                    if op not in nonatomic:
                        nonatomic.append(op)
            for msg in real_class_problems(d):
                breaks.append(('lock-or-class-not-as-modelled', {'detail': msg}))
                nonatomic = list(PUBLIC_OPS)
        except Exception as e:
            infra.append(f'translator validation crashed: {type(e).__name__}: {e}')
            traceback.print_exc()
    else:
        nonatomic = list(PUBLIC_OPS)

    # ---- 3. proof build + audit ------------------------------------------------
    proof_ok, log, _ = C.lake_build(PROOF_MODULES)
    checker_cmds.append('cd lean && lake build ' + ' '.join(PROOF_MODULES))
    entries = C.registry(PROP)
    axioms, discharged = {}, 0
    if proof_ok:
        hits = C.grep_forbidden()
        if hits:
            infra.append('forbidden constructs in lean/: ' + '; '.join(hits[:5]))
        axioms, _ = C.print_axioms(entries)
        checker_cmds.append('lake env lean <#print axioms of each registered theorem>')
        for _, t in entries:
            ax = axioms.get(t)
            if ax is None:
                breaks.append(('theorem-missing', {'theorem': t}))
            elif not set(ax) <= C.ACCEPTED_AXIOMS:
                infra.append(f'{t} depends on unaccepted axioms {ax}')
            else:
                discharged += 1
        if tier == 'thorough':
            ok, out = C.leanchecker(PROOF_MODULES + ['PsiGen.Locks'])
            checker_cmds.append('lake env leanchecker ' + ' '.join(PROOF_MODULES + ['PsiGen.Locks']))
            if not ok:
                infra.append('leanchecker rejected: ' + out[-300:])
    else:
        breaks.append(('proof', {'modules': PROOF_MODULES, 'errors': _first_error(log),
                                 'non_atomic_operations': nonatomic}))
    if d is not None and [n for n in nonatomic if not verdict.get(n, (False,))[0]] and proof_ok:
        infra.append(f'operations {nonatomic} are not atomic but the proof built')

    # ---- 4. schedule explorer ---------------------------------------------------
    # Iterative deepening over the whole scenario list (first every scenario with one pre-emption, then two, then
    # three), scenarios in parallel worker processes: breadth before depth, because what breaks is usually one
    # operation in one region of the state, and one pre-emption at the right line shows it.
    broken = bool(breaks)
    if not broken:
        all_sc = sched.scenarios(rng, 8 if tier == 'quick' else 60, sysn=40 if tier == 'quick' else None)
        budget = 30 if tier == 'quick' else 240
    else:
        all_sc = sched.scenarios(rng, 40, sysn=None)
        if d is not None:
            all_sc = targeted(all_sc, d, nonatomic)
        budget = 75 if tier == 'quick' else 400
    ts = time.time()
    runs = distinct = 0
    torn = None
    explored = {}
    try:
        for depth, each in ((1, 12.0), (2, 4.0 if tier == 'quick' else 12.0), (3, 4.0 if tier == 'quick' else 12.0)):
            left = budget - (time.time() - ts)
            if left <= 1:
                break
            r = explore_many(all_sc, depth, each, left)
            for i, res in r['results']:
                e = explored.setdefault(i, {'writer': all_sc[i]['writer'], 'reader': all_sc[i]['reader'],
                                            'prefill': all_sc[i]['prefill'], 'n_channels': all_sc[i]['n_channels'],
                                            'runs': 0, 'distinct_schedules': 0, 'max_preempt': 0})
                runs += res['runs'] - e['runs']
                distinct += res['distinct'] - e['distinct_schedules']
                e.update(runs=res['runs'], distinct_schedules=res['distinct'], max_preempt=depth)
            if r['torn']:
                torn = r['torn']
                break
        if broken and torn is None and d is not None and nonatomic:
            # last pass: step the methods reachable from the non-atomic operations bytecode by bytecode
            # (a compound read on one source line is invisible at line granularity)
            fine = sorted({n for n in d['names'] for b in nonatomic if b in d['names'] and uses(d, b, n)})
            r = explore_many(all_sc, 2, 6.0, 25 if tier == 'quick' else 300, opcode_funcs=fine)
            runs += sum(res['runs'] for _, res in r['results'])
            distinct += sum(res['distinct'] for _, res in r['results'])
            torn = r['torn']
    except Exception as e:
        infra.append(f'schedule explorer crashed: {type(e).__name__}: {e}')
        traceback.print_exc()
    explored = [explored[i] for i in sorted(explored)]

    exit_code = 0
    if torn:
        path = C.write_replay(PROP, {'property': PROP, 'kind': 'failing-input', **torn,
                                     'also_broken': [b[0] for b in breaks],
                                     'non_atomic_operations': nonatomic, 'seed': seed, 'tier': tier})
        out_lines.append(f'VIOLATION property={PROP} replay={path}')
        out_lines.append(f'  torn read: writer {torn["scenario"]["writer"]} / reader {torn["scenario"]["reader"]} under '
                         f'schedule {rle(torn["schedule"])}: reader saw {str(torn["observed"]["reader_results"])[:120]}')
        exit_code = 1
    elif breaks:
        path = C.write_replay(PROP, {'property': PROP, 'kind': 'no-failing-input-found',
                                     'no_longer_checks': [{'what': w, 'detail': dd} for w, dd in breaks],
                                     'schedules_run': runs, 'seed': seed, 'tier': tier})
        out_lines.append(f'VIOLATION property={PROP} replay={path} no-failing-input-found')
        exit_code = 1
    if infra and exit_code == 0:
        exit_code = 2

    coverage = {
        'obligations': len(entries), 'discharged': discharged,
        'theorems': [{'name': t, 'module': m, 'axioms': axioms.get(t)} for m, t in entries],
        'checker_cmd': ' && '.join(checker_cmds),
        'trusted_base': C.BASE_TRUST[:2] + TRUST,
        'evaluations': runs, 'distinct_nontrivial': distinct,
        'rule': 'the model (lock footprint of every SignalBuffer method) is regenerated from the AST; atomicity of the '
                '12 public operations is decided by the kernel on it; serialisability is proved for all schedules. '
                'Schedules run on the real class (validation / failing-input search): two threads, line granularity, '
                '<= 3 pre-emptions (iterative deepening over fixed + systematic + random scenarios: every mutation in '
                'every region of the window against every read form, partly filled / full / wrapped / multi-chunk '
                'states, 1-D / 1 / 2 channels), outcome compared with all serial merges; distinct = distinct schedule '
                'strings',
        'footprints': {n: {'atomic': v[0], 'inlined': v[1]} for n, v in verdict.items()},
        'dynamic_footprint': {k: {'min_lock_depth_of_accesses': v[0], 'outermost_spans': v[1], 'calls': v[2]}
                              for k, v in dyn.items()},
        'non_atomic_public_operations': nonatomic,
        'scenarios': explored[:12] + explored[12::max(1, len(explored) // 12)], 'scenarios_run': len(explored),
        'schedules_run': runs,
        'torn_read_found': bool(torn),
        'breaks': [b[0] for b in breaks], 'infrastructure_problems': infra,
        'exhaustive': False,
        'exhaustive_scope': 'the proof covers every schedule; the explorer is bounded (<= 3 pre-emptions, time budget)',
    }
    C.write_evidence(PROP, tier, seed, coverage, ASSUMPTIONS, time.time() - t0, 1 if exit_code == 1 else 0)
    for l in out_lines:
        print(l)
    for i in infra:
        print('INFRA:', i)
    print(f'{PROP} {tier} seed={seed}: theorems {discharged}/{len(entries)}, public operations atomic '
          f'{len(PUBLIC_OPS) - len(nonatomic)}/{len(PUBLIC_OPS)}, explorer {runs} schedules ({distinct} distinct) on '
          f'{len(explored)} scenarios, torn {bool(torn)}, exit {exit_code}, {time.time() - t0:.1f}s')
    return exit_code


def rle(s):
    out, i = [], 0
    while i < len(s):
        j = i
        while j < len(s) and s[j] == s[i]:
            j += 1
        out.append(f'{s[i]}{j - i}')
        i = j
    return ' '.join(out)


TRUST = [
    'harness/translate_locks.py (AST of buffer.py -> lock/access footprint; validated on every run against the '
    'dynamic footprint of the real methods and by the schedule explorer)',
    'CPython semantics assumed as modelled: `with self._lock` on a threading.RLock acquires on entry and releases on '
    'every exit; a thread switch can occur between any two micro-steps but an attribute load/store is indivisible',
    'the abstraction of a method as acq/rel/access micro-steps: what the accesses compute is arbitrary in the theorem',
]
ASSUMPTIONS = [
    'operations listed by the property only; samples_to_index/time_to_index (two unlocked reads) are excluded',
    'get_range/get_latest(fill_value=None) return a view of the live buffer; the result is the snapshot at the '
    'linearisation point (aliasing afterwards is the same in serial executions)',
    'both arms of an if are concatenated and loop bodies doubled in the footprint (over-approximation)',
]


def do_replay(path):
    obj = json.load(open(path if os.path.isabs(path) else os.path.join(C.VERIF, path)))
    if obj.get('kind') != 'failing-input':
        print('replay names what no longer checks (no concrete input):')
        print(json.dumps(obj.get('no_longer_checks'), indent=1))
        return 1
    sc = obj['scenario']
    serial = sched.serial_outcomes(sc)
    out, tr = sched.run_schedule(sc, obj['schedule'], obj.get('opcode_funcs', ()))
    print('scenario:', json.dumps(sc))
    print('schedule:', rle(tr))
    print('reader results:', out[1])
    print('writer results:', out[0])
    print('final state   :', out[2][1:], '(samples, ilb, capacity)')
    if out in serial:
        print(f'outcome equals the serial execution {serial[out]}: property holds on this input')
        return 0
    print('FAILS: outcome equals no serial execution; serial reader results:',
          sorted({str(k[1]) for k in serial}))
    return 1
