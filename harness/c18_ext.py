"""EXT18 — extension of the C18 machinery to integer/boolean helpers of psiaudio/util.py that property C18 does
not name: epochs(x, pad != 0), epochs_contain, epochs_overlap, int_to_TTL, bin_array (model
lean/PsiModel/EpochsExt.lean, theorems lean/PsiProofs/C18Ext.lean, registry lean/registry/EXT18.txt).
NOT part of `./check C18`.

Run:  PYTHONPATH=. PSI_REPO=... /venv/bin/python -m harness.c18_ext [--tier quick|thorough] [--replay path]
Prints `EXT18 ... exit 0`, or `EXT-MISMATCH fn=<name> replay=<path>` (exit 1); `EXT-KNOWN ...` lines name the
recorded behaviours of the unchanged library that were met (notes/EXT18.md).  Never prints `VIOLATION`.

One case = one call of one function.  The same operation goes to the Lean model (`psidriver epochs`, lines
starting with `x`) and to the real function in-process; both sides print integers / bit strings only.  The oracle is
the definition (dilation + maximal runs; "some epoch has start < t <= end"; little-endian round trip), written
directly on what the implementation returned.
"""
import argparse
import itertools
import json
import os
import sys
import time

import numpy as np

from . import common as C
from .framework import Spec
from .c18 import ref_runs, fmt_pairs


def _util():
    from psiaudio import util
    return util


_PAD_FIXED = None


def pad_is_fixed():
    """Does this library clip the slice before a rising edge at the array start (notes/EXT18_fix_1.diff)?
    One probe: epochs([0, 1], pad=2) leaves [1, 1] with the repair, [0, 1] without."""
    global _PAD_FIXED
    if _PAD_FIXED is None:
        x = np.array([False, True])
        try:
            _util().epochs(x, 2)
            _PAD_FIXED = bool(x[0])
        except Exception:
            _PAD_FIXED = False
    return _PAD_FIXED


def bits_of(a):
    a = np.asarray(a).ravel()
    return ''.join('1' if v else '0' for v in a.tolist()) or '-'


def ints(l):
    return ','.join(str(int(v)) for v in l) if len(l) else '-'


def pairs(l):
    return ','.join(f'{int(a)}:{int(b)}' for a, b in l) if len(l) else '-'


def table(l, dtype='int64'):
    return np.array(l, dtype=dtype).reshape((-1, 2))


def col_sorted(e):
    return all(p[0] <= q[0] and p[1] <= q[1] for p, q in zip(e, e[1:]))


def ref_dilate(x, pad):
    """the definition: sample i is high iff some high sample of x lies within distance pad"""
    n = len(x)
    return [any(x[j] for j in range(max(0, i - pad), min(n, i + pad + 1))) for i in range(n)]


class Ext(Spec):
    PROP = 'EXT18'
    MODEL = 'epochs'
    PROOF_MODULES = ['PsiProofs.C18Ext']
    FNS = ['epochs_pad', 'epochs_contain', 'epochs_overlap', 'bin_array', 'int_to_TTL']

    # ------------------------------------------------------------------ cases
    def rand_bits(self, rng, n):
        """runs of random length (not i.i.d. bits: long gaps are what padding is about)"""
        out, v = [], rng.randint(0, 1)
        while len(out) < n:
            out.extend([v] * rng.randint(1, rng.choice([1, 2, 3, 8])))
            v ^= 1
        return ''.join(map(str, out[:n])) or '-'

    def rand_table(self, rng, k, shape):
        """k epochs with both columns non-decreasing and start <= end.  shape: 'disjoint' (gaps >= 1, length >= 1:
        what util.epochs returns), 'touching' (gaps / lengths may be 0), 'overlap' (columns sorted, rows may overlap)"""
        off = rng.choice([0, 0, -5, 2 ** 33])
        if shape == 'overlap':
            s = sorted(rng.randint(0, 3 * k + 2) for _ in range(k))
            e = sorted(rng.randint(0, 3 * k + 4) for _ in range(k))
            rows = [[a, max(a, b)] for a, b in zip(s, e)]
            for i in range(1, k):                       # keep the second column sorted after the max()
                rows[i][1] = max(rows[i][1], rows[i - 1][1])
            return [[a + off, b + off] for a, b in rows]
        lo = 0 if shape == 'touching' else 1
        rows, pos = [], rng.randint(0, 2)
        for _ in range(k):
            ln = rng.randint(lo, 3)
            rows.append([pos + off, pos + ln + off])
            pos += ln + rng.randint(lo, 3)
        return rows

    def times_around(self, rows, rng, extra=2):
        ts = set()
        for a, b in rows:
            for d in range(-2, 3):
                ts.add(a + d)
                ts.add(b + d)
        ts = sorted(ts)
        if not ts:
            ts = [0, 1]
        return ts

    def cases(self, rng, tier):
        thorough = tier == 'thorough'
        # ---- epochs(x, pad): exhaustive small scope
        nmax = 10 if thorough else 8
        for n in range(0, nmax + 1):
            for t in itertools.product('01', repeat=n):
                bits = ''.join(t) or '-'
                for pad in range(-2 if thorough else -1, n + 3):
                    if pad == 0:
                        continue
                    yield {'fn': 'epochs_pad', 'bits': bits, 'pad': pad, 'var': 'bool'}
        for _ in range(1500 if thorough else 300):
            n = rng.randint(0, 70)
            bits = self.rand_bits(rng, n)
            pad = rng.choice([1, 1, 2, 3, rng.randint(1, 12), rng.randint(1, n + 5), -rng.randint(1, 5)])
            yield {'fn': 'epochs_pad', 'bits': bits, 'pad': pad,
                   'var': rng.choice(['bool', 'bool', 'uint8', 'int64', 'np-pad', 'kw'])}
        # ---- epochs_contain / epochs_overlap: tables derived from every small boolean array (what util.epochs returns)
        nmax = 8 if thorough else 6
        for n in range(0, nmax + 1):
            for t in itertools.product((0, 1), repeat=n):
                rows = [list(r) for r in ref_runs(t)]
                yield {'fn': 'epochs_contain', 'e': rows, 'ts': list(range(-1, n + 2)), 'scalar': 0}
                qs = [[a, b] for a in range(0, n + 1) for b in range(a, n + 1)]
                yield {'fn': 'epochs_overlap', 'a': rows, 'b': qs}
        for _ in range(2500 if thorough else 500):
            k = rng.randint(0, 6)
            shape = rng.choice(['disjoint', 'touching', 'overlap'])
            rows = self.rand_table(rng, k, shape)
            ts = self.times_around(rows, rng)
            if rng.random() < 0.3:
                yield {'fn': 'epochs_contain', 'e': rows, 'ts': [rng.choice(ts)], 'scalar': 1}
            else:
                rng.shuffle(ts)
                big = any(abs(v) >= 2 ** 31 - 8 for r in rows for v in r)
                yield {'fn': 'epochs_contain', 'e': rows, 'ts': ts, 'scalar': 0,
                       'dtype': rng.choice(['int64', 'int64', 'float64'] + ([] if big else ['int32']))}
            lo = min([r[0] for r in rows] + [0]) - 2
            hi = max([r[1] for r in rows] + [0]) + 2
            qs = []
            for _ in range(rng.randint(0, 12)):
                a = rng.randint(lo, hi)
                qs.append([a, rng.randint(a, hi)])
            for r in rows:                                 # rows of `a` themselves and their one-off neighbours
                if rng.random() < 0.5:
                    qs.append([r[0] + rng.randint(-1, 1), r[1] + rng.randint(-1, 1)])
            qs = [q for q in qs if q[0] <= q[1]]
            yield {'fn': 'epochs_overlap', 'a': rows, 'b': qs}
        # unsorted columns (outside "Epochs must be sorted"): what np.searchsorted returns there is an internal of NumPy
        # (it is not the textbook binary search: `epochs_contain([[7,9],[7,9],[8,2],[7,8],[8,3],[1,1],[1,0]], 6)` is True) —
        # not generated
        # ---- bin_array
        for number in range(-(70 if thorough else 33), (71 if thorough else 34)):
            for bits in range(-1, 9):
                yield {'fn': 'bin_array', 'number': number, 'bits': bits, 'var': 'int'}
        for _ in range(2000 if thorough else 300):
            mag = rng.choice([8, 16, 31, 32, 33, 62, 63, 64, 65, 100])
            number = rng.choice([1, -1]) * rng.randint(0, 2 ** mag) + rng.choice([0, 0, 1, -1])
            var = 'int'
            if abs(number) < 2 ** 62 and rng.random() < 0.3:
                var = 'np64'
            yield {'fn': 'bin_array', 'number': number, 'bits': rng.randint(-2, mag + 6), 'var': var}
        # ---- int_to_TTL
        for w in range(-1, 5):
            for vals in itertools.chain.from_iterable(itertools.product(range(-4, 9), repeat=m) for m in (0, 1, 2)):
                yield {'fn': 'int_to_TTL', 'a': list(vals), 'width': w, 'var': 'list'}
            yield {'fn': 'int_to_TTL', 'a': [], 'width': w, 'var': 'int64'}
        for _ in range(1500 if thorough else 300):
            var = rng.choice(['list', 'list', 'int64', 'int32', 'int16', 'int8', 'uint8', 'scalar', 'kw'])
            lim = {'int32': 31, 'int16': 15, 'int8': 7, 'uint8': 8}.get(var, 62)
            m = 1 if var == 'scalar' else rng.randint(0, 6)
            vals = []
            for _ in range(m):
                v = rng.randint(0, 2 ** rng.randint(0, lim) - 1)
                if var != 'uint8' and rng.random() < 0.4:
                    v = -v - 1
                vals.append(v)
            yield {'fn': 'int_to_TTL', 'a': vals, 'width': rng.choice([0, 1, 6, 8, 16, lim, lim + 1, lim + 9, -3]),
                   'var': var}

    # ------------------------------------------------------------------ the two sides
    def model_lines(self, c):
        fn = c['fn']
        if fn == 'epochs_pad':
            return [f'{"xepochsf" if pad_is_fixed() else "xepochs"} {c["pad"]} {c["bits"]}']
        if fn == 'epochs_contain':
            if c.get('malformed'):
                return [f'xcontainb {pairs(c["e"])} {ints(c["ts"])}']
            return [f'xcontain {pairs(c["e"])} {ints(c["ts"])}', f'xcontainb {pairs(c["e"])} {ints(c["ts"])}']
        if fn == 'epochs_overlap':
            return [f'xoverlap {pairs(c["a"])} {pairs(c["b"])}', f'xoverlapb {pairs(c["a"])} {pairs(c["b"])}']
        if fn == 'bin_array':
            return [f'xbin {c["number"]} {c["bits"]}']
        if fn == 'int_to_TTL':
            src = 'L' if c['var'] in ('list', 'kw') else 'A'
            return [f'xttl {src} {c["width"]} {ints(c["a"])}']
        raise ValueError(fn)

    def impl_lines(self, c):
        U = _util()
        fn = c['fn']
        if fn == 'epochs_pad':
            b = [ch == '1' for ch in c['bits'].replace('-', '')]
            var = c['var']
            x = np.array(b, dtype=bool)
            if var in ('uint8', 'int64'):
                x = x.astype(var)
            pad = np.int64(c['pad']) if var == 'np-pad' else c['pad']
            try:
                r = U.epochs(x, pad=pad) if var == 'kw' else U.epochs(x, pad)
                return [f'{fmt_pairs(r, table=True)} {bits_of(x)}']
            except Exception as e:
                return [f'err {type(e).__name__} {bits_of(x)}']
        if fn == 'epochs_contain':
            dt = c.get('dtype', 'int64')
            e = table(c['e'], 'int64' if dt == 'float64' else dt)
            ts = c['ts'][0] if c['scalar'] else np.array(c['ts'], dtype=dt)
            try:
                r = U.epochs_contain(e, ts)
                want = () if c['scalar'] else (len(c['ts']),)
                line = f'ok {bits_of(r)}' if np.shape(r) == want and np.asarray(r).dtype == bool \
                    else f'err shape{np.shape(r)}'
            except Exception as ex:
                line = f'err {type(ex).__name__}'
            return [line] * len(self.model_lines(c))
        if fn == 'epochs_overlap':
            try:
                r = U.epochs_overlap(table(c['a']), table(c['b']))
                line = f'ok {bits_of(r)}' if np.shape(r) == (len(c['b']),) and r.dtype == bool else f'err shape{np.shape(r)}'
            except Exception as ex:
                line = f'err {type(ex).__name__}'
            return [line, line]
        if fn == 'bin_array':
            number = np.int64(c['number']) if c['var'] == 'np64' else c['number']
            try:
                r = U.bin_array(number, c['bits'])
                if not isinstance(r, list):
                    return [f'err type {type(r).__name__}']
                return ['ok ' + ints(r)]
            except Exception as ex:
                return [f'err {type(ex).__name__}']
        if fn == 'int_to_TTL':
            var, w, vals = c['var'], c['width'], c['a']
            if var in ('list', 'kw'):
                a = list(vals)
            elif var == 'scalar':
                a = vals[0]
            else:
                a = np.array(vals, dtype=var)
            try:
                r = U.int_to_TTL(a=a, width=w) if var == 'kw' else U.int_to_TTL(a, w)
            except Exception as ex:
                return [f'err {type(ex).__name__}']
            if r.dtype != bool:
                return [f'err dtype {r.dtype}']
            if w <= 0:
                return ['ok none' if r.shape == (0,) else f'err shape{r.shape}']
            want = (w,) if var == 'scalar' else (w, len(vals))
            if r.shape != want:
                return [f'err shape{r.shape}']
            return ['ok ' + '|'.join(bits_of(row) if np.size(row) else '-' for row in r)]
        raise ValueError(fn)

    # ------------------------------------------------------------------ oracle: the definition
    def wellformed(self, c):
        fn = c['fn']
        if fn == 'epochs_pad':
            return c['pad'] > 0
        if fn == 'epochs_contain':
            return not c.get('malformed') and col_sorted(c['e']) and all(a <= b for a, b in c['e'])
        if fn == 'epochs_overlap':
            return col_sorted(c['a'])
        return True

    def known_behaviour(self, c, out):
        """recorded behaviours of the unchanged library (notes/EXT18.md) — narrow matches"""
        fn = c['fn']
        if fn == 'epochs_pad' and c['pad'] > 0 and not pad_is_fixed():
            x = [ch == '1' for ch in c['bits'].replace('-', '')]
            rising = [i for i in range(1, len(x)) if x[i] and not x[i - 1]]
            if any(s < c['pad'] for s in rising):            # `x[s-pad:s]` has a negative start
                y = ref_dilate(x, c['pad'])
                if out and out[0].split()[-1] != bits_of(y):
                    return 'epochs-pad-negative-slice'
        if fn == 'int_to_TTL' and c['var'] in ('list', 'kw') and not c['a'] and c['width'] > 0 \
                and out == ['err TypeError']:
            return 'int_to_TTL-empty-sequence'
        return None

    def oracle(self, c, out):
        if out and out[0].startswith('HARNESS-EXC'):
            return out[0]
        if not self.wellformed(c):
            return None
        if self.known_behaviour(c, out):
            return None
        errs = [l for l in out if l.startswith('err')]
        if errs:
            return f'raised / wrong shape on a legal input: {errs[0]}'
        fn = c['fn']
        if fn == 'epochs_pad':
            x = [ch == '1' for ch in c['bits'].replace('-', '')]
            y = ref_dilate(x, c['pad'])
            _, tab, after = out[0].split()
            want = ref_runs(y)
            got = [] if tab == '-' else [tuple(int(v) for v in p.split(':')) for p in tab.split(',')]
            if got != want:
                return f'returned {got}, the maximal runs of the signal dilated by {c["pad"]} are {want}'
            if after != bits_of(y):
                return f'array after the call is {after}, dilation is {bits_of(y)}'
        elif fn == 'epochs_contain':
            want = ''.join('1' if any(a < t <= b for a, b in c['e']) else '0' for t in c['ts']) or '-'
            if out[0][3:] != want:
                return f'returned {out[0][3:]}; "some epoch has start < t <= end" gives {want}'
        elif fn == 'epochs_overlap':
            want = ''.join('1' if any(p[0] < q[0] and q[1] <= p[1] for p in c['a']) or
                           any(q[0] <= p[0] and p[1] < q[1] for p in c['a']) else '0' for q in c['b']) or '-'
            if out[0][3:] != want:
                return f'returned {out[0][3:]}; "b inside an epoch of a (start strictly) or an epoch of a inside b ' \
                       f'(end strictly)" gives {want}'
        elif fn == 'bin_array':
            r = [] if out[0] == 'ok -' else [int(v) for v in out[0][3:].split(',')]
            w = max(c['bits'], 0)
            if len(r) != w or any(v not in (0, 1) for v in r):
                return f'not a list of {w} bits: {r}'
            if sum(b << k for k, b in enumerate(r)) != c['number'] % (1 << w):
                return f'bits {r} do not sum to {c["number"]} mod 2^{w}'
        elif fn == 'int_to_TTL':
            w = max(c['width'], 0)
            rows = [] if out[0] == 'ok none' else [('' if r == '-' else r) for r in out[0][3:].split('|')]
            if len(rows) != w or any(len(r) != len(c['a']) for r in rows):
                return f'not {w} rows of {len(c["a"])} bits'
            for j, v in enumerate(c['a']):
                if sum(int(rows[k][j]) << k for k in range(w)) != v % (1 << w):
                    return f'column {j} does not sum to {v} mod 2^{w}'
        return None


SPEC = Ext()


def run(tier, seed):
    t0 = time.time()
    spec = SPEC
    infra = []
    ok, log, _ = C.lake_build(spec.PROOF_MODULES + ['psidriver'])
    if not ok:
        print('INFRA: lake build failed: ' + ' | '.join([l for l in log.split('\n') if 'error' in l.lower()][:4]))
        return 2
    hits = [h for h in C.grep_forbidden() if 'EpochsExt' in h or 'C18Ext' in h]
    if hits:
        infra.append('forbidden constructs: ' + '; '.join(hits[:5]))
    entries = C.registry('EXT18')
    axioms, _ = C.print_axioms(entries)
    discharged = 0
    for _, t in entries:
        ax = axioms.get(t)
        if ax is None:
            infra.append(f'theorem missing: {t}')
        elif not set(ax) <= C.ACCEPTED_AXIOMS:
            infra.append(f'{t} depends on unaccepted axioms {ax}')
        else:
            discharged += 1
    if tier == 'thorough':
        okc, outc = C.leanchecker(spec.PROOF_MODULES)
        if not okc:
            infra.append('leanchecker rejected: ' + outc[-300:])

    rng = C.Rng(seed)
    cases = list(spec.cases(rng, tier))
    lines, spans = [], []
    for c in cases:
        ml = spec.model_lines(c)
        spans.append((len(lines), len(ml)))
        lines.extend(ml)
    mout_all = C.Driver(spec.MODEL).run(lines)
    bad = None
    known, hist = {}, {}
    for c, (s, n) in zip(cases, spans):
        hist[c['fn']] = hist.get(c['fn'], 0) + 1
        iout = spec.safe_impl(c)
        mout = mout_all[s:s + n]
        try:
            f = spec.oracle(c, iout)
        except Exception as e:
            f = f'oracle raised {type(e).__name__}: {e}'
        k = spec.known_behaviour(c, iout)
        if k:
            known.setdefault(k, [0, c])[0] += 1
        if bad is None and (f is not None or mout != iout):
            j = next((j for j, (a, b) in enumerate(zip(mout, iout)) if a != b), None)
            bad = (c, f, {'line': j, 'op': spec.model_lines(c)[j] if j is not None else None,
                          'model': mout[j] if j is not None else None, 'impl': iout[j] if j is not None else None},
                   mout, iout)
    for k, (cnt, c) in sorted(known.items()):
        print(f'EXT-KNOWN fn={c["fn"]} {k}: recorded behaviour of the unchanged library met {cnt}x (notes/EXT18.md), '
              f'e.g. {json.dumps(c, sort_keys=True)[:160]}')
    for i in infra:
        print('INFRA:', i)
    rc = 0
    if bad is not None:
        c, f, diff, mout, iout = bad
        path = C.write_replay('EXT18', {'property': 'EXT18', 'kind': 'failing-input', 'case': c, 'failure': f,
                                        'model_vs_impl': diff, 'model': mout, 'impl': iout, 'seed': seed, 'tier': tier})
        print(f'EXT-MISMATCH fn={c["fn"]} replay={path}')
        rc = 1
    elif infra:
        rc = 2
    print(f'EXT18 {tier} seed={seed}: theorems {discharged}/{len(entries)}, cases {len(cases)} '
          f'({", ".join(f"{k} {v}" for k, v in sorted(hist.items()))}), epochs-pad={"repaired" if pad_is_fixed() else "as-is"}, exit {rc}, {time.time() - t0:.1f}s')
    return rc


def replay(path):
    obj = json.load(open(path if os.path.isabs(path) else os.path.join(C.VERIF, path)))
    c = obj['case']
    ml = SPEC.model_lines(c)
    mout = C.Driver(SPEC.MODEL).run(ml)
    iout = SPEC.safe_impl(c)
    print('case  :', json.dumps(c, sort_keys=True))
    for i, l in enumerate(ml):
        print(f'  op {l}\n    model: {mout[i] if i < len(mout) else None}\n    impl : {iout[i] if i < len(iout) else None}')
    f = SPEC.oracle(c, iout)
    print('oracle:', 'the definition holds on this input' if f is None else f'FAILS: {f}')
    return 0 if (f is None and mout == iout) else 1


def main():
    ap = argparse.ArgumentParser()
    ap.add_argument('--tier', default='quick', choices=['quick', 'thorough'])
    ap.add_argument('--replay')
    a = ap.parse_args()
    if a.replay:
        return replay(a.replay)
    return run(a.tier, C.seed_from_env())


if __name__ == '__main__':
    try:
        rc = main()
    except SystemExit:
        raise
    except BaseException:
        import traceback
        traceback.print_exc()
        rc = 2
    sys.exit(rc)
