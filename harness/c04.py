"""C04 — pause/resume conserves trials and reports every cancellation exactly once."""
from . import queue_common as QC
from .framework import Spec


def observe(case):
    """Clock and structural positions after running `case` on the real code."""
    tr = QC.run_case(case)
    ts = 0
    for s in tr.steps:
        if 'ts' in s:
            ts = s['ts']
    trials = [(key, k, tr.lens[key], tr.delays[key][0]) for (key, k, dur, *_) in tr.added]
    return ts, trials, tr


def pause_candidates(ts, trials, earlier, rng):
    """Structurally distinct pause positions (+-1): inside a waveform, at its end, inside the delay,
    at a trial start, around earlier pause points, at / just before the clock."""
    cand = set()
    for (key, k, L, d) in trials[-12:] + trials[:3]:
        for base in (k, k + L // 2, k + L, k + L + max(d // 2, 0), k + L + d):
            for e in (-1, 0, 1):
                cand.add(base + e)
    for p in earlier:
        cand.update((p - 1, p, p + 1))
    cand.update((ts, ts - 1, ts - 2, 0, 1))
    cand = sorted(c for c in cand if 0 <= c <= ts)
    return cand or [0]


def drain_size(case):
    return sum((s['len'] + 9) * (s['trials'] + 2) for s in case['stims']) * 2 + 20


class C04(Spec):
    PROP = 'C04'
    MODEL = 'queue'
    PROOF_MODULES = ['PsiProofs.C04', 'PsiProofs.C04Append', 'PsiProofs.C03Pause']
    DESIGN_REF = 'DESIGN.md §6 C04'
    TRUST = [
        'modelled, not verified: list/dict/Counter semantics used by cancel/requeue; float -> sample conversion of '
        'pause(t)/resume(t) is done by the harness with the code\'s expression int(round((t - t0)*fs)) and the model '
        'works on integer sample positions; "ends after t" is k + round(duration*fs) > m (the trial still had samples to play at m)',
        'the model follows queue.py with notes/C03_fix_1.diff and notes/C04_fix_1..5.diff applied',
        'pop_buffer(decrement=False) and direct calls of cancel()/requeue()/next_trial() from outside are not modelled',
        'a pause made from inside an "added" notification is not an operation of the Lean model: pause(t0 of the notified trial) '
        'is checked against the model through the plain history pop(p-c); pop(1); pause(p); pop(n-(p-c)) (second request\'s '
        'one sample dropped), whose equality with the re-entrant run of the real queue - output, notifications, counters, '
        'clock - is checked on every such case; pause() without a time from inside a notification is checked by the oracle only',
    ]
    ASSUMPTIONS = ['pause/resume times are on the sample grid (t0 + m/fs)',
                   'durations are not within 1e-6 sample of an integer number of samples unless exactly on it']
    RULE = ('histories over {pop n, pause m, pause(), resume m2, resume()} on every policy, ending with a drain; pause '
            'positions drawn from the structurally distinct positions of the run so far (trial start, mid-waveform, '
            'waveform end, inside the delay, delay end, earlier pause points, the clock) -1/0/+1, occasionally in the '
            'future; plus a stream pausing exactly at trial ends (t = (k+n)/fs) across the fs list; every third history '
            'pauses and resumes the queue again after it ran dry; an odd-order stream (pause before anything was generated, '
            'pause() then pause(t), two resumes, resume without pause, resume beyond 2^31 samples, the same pause twice, '
            'single-sample requests around a pause); a re-entrant stream: the consumer of the "added" notifications calls '
            'pause(info[t0]) or pause() from inside the K-th notification, i.e. while pop_buffer is being served (first, last, '
            'any trial of the request), resume / further pauses between requests - pause(t0) compared with the model through '
            'the equivalent plain history pop(p-c); pop(1); pause(p); pop(n-(p-c)), pause() through the oracle only; '
            'half of the histories re-spelled by the caller (see C02). '
            'Non-trivial = at least one trial removed.')
    SEARCH_SECONDS = {'quick': 20, 'thorough': 240}

    # ---- generation ---------------------------------------------------------
    def history(self, rng, c, nrounds):
        ops = []
        earlier = []
        for r in range(nrounds):
            ops.append(['pop', rng.choice([1, 2, 3, 5, 8, 13, 21, 40])])
            if rng.random() < 0.3:
                ops.append(['pop', rng.choice([1, 4, 9])])
            ts, trials, _ = observe(dict(c, ops=ops))
            u = rng.random()
            if u < 0.08:
                ops.append(['pause', None])
                ops.append(['pop', rng.choice([1, 5])])
                ops.append(['resume', rng.choice([None, None, ts + 3])])
                continue
            if u < 0.13:
                m = ts + rng.choice([1, 2, 10])         # in the future: must be rejected
            else:
                m = rng.choice(pause_candidates(ts, trials, earlier, rng))
            ops.append(['pause', m])
            earlier.append(m)
            if rng.random() < 0.5:
                ops.append(['pop', rng.choice([1, 3, 7])])
            if rng.random() < 0.15:
                m2 = rng.choice(pause_candidates(ts, trials, earlier, rng))
                ops.append(['pause', min(m2, m)])
                earlier.append(min(m2, m))
            m2 = rng.choice([m, m, m + 1, m + 4, ts, ts + 6, None, max(m - 2, 0)])
            ops.append(['resume', m2])
        ops.append(['pop', drain_size(c)])
        ops.append(['pop', 7])
        return ops

    def reentrant_history(self, rng, c, nrounds):
        ops, reent, earlier = [], [], []
        for r in range(nrounds):
            if rng.random() < 0.4:
                ops.append(['pop', rng.choice([1, 2, 4, 9])])
            n = rng.choice([1, 2, 3, 5, 8, 13, 21, 40])
            before = QC.run_case(dict(c, ops=list(ops), reent=list(reent)))
            after = QC.run_case(dict(c, ops=ops + [['pop', n]], reent=list(reent)))
            if any(s.get('status') != 'ok' for s in after.steps):
                break
            new = len(after.added) - len(before.added)
            ops.append(['pop', n])
            if not new:
                continue
            # first / last / any trial announced within this request (first = the request begins on a trial onset when
            # the clock stands on one; last = little or nothing of the request is left)
            K = len(before.added) + rng.choice([0, new - 1, rng.randrange(new)])
            how = rng.choice(['pt', 'pt', 'p'])
            reent.append([K, how])
            ts, trials, tr = observe(dict(c, ops=ops, reent=reent))
            pos = tr.reent[-1]['pos'] if tr.reent else ts
            if rng.random() < 0.5:
                ops.append(['pop', rng.choice([1, 3, 7])])
            if how == 'pt' and rng.random() < 0.3:
                m = rng.choice([m_ for m_ in pause_candidates(ts, trials, earlier + [pos], rng) if m_ <= pos] or [pos])
                ops.append(['pause', m])          # a second, ordinary pause at or before the point held
                earlier.append(m)
                pos = m
            ts, _, _ = observe(dict(c, ops=ops, reent=reent))
            if how == 'pt':
                ops.append(['resume', rng.choice([pos, pos, pos + 1, pos + 4, ts, ts + 6, None, None])])
            else:
                ops.append(['resume', rng.choice([None, None, ts + 3])])
        ops.append(['pop', drain_size(c)])
        ops.append(['pop', 7])
        return ops, reent

    def cases(self, rng, tier):
        for c in self.fixed_cases():
            yield c
        for c in self.scale_cases(rng, tier):
            yield c
        n = 150 if tier == 'quick' else 3000
        for it in range(n):
            nst = rng.randint(1, 3)
            c = {'kind': 'history', 'fs': rng.choice(QC.FS_LIST)}
            c.update(QC.policy_fields(rng.choice(QC.POLICIES), rng, nst))
            c['t0'] = rng.choice([0, 0, 0.5, 1.2345])
            c['stims'] = QC.rand_stims(rng, nst, max_len=9, max_trials=3)
            if rng.random() < 0.25:
                # a declared duration longer than the waveform: log entries may then overlap / end out of order
                rng.choice(c['stims'])['xdur'] = rng.choice([1, 3, 10, 25])
            if it % 2:
                QC.spell(rng, c, p=1.0)
            c['ops'] = []
            c['ops'] = self.history(rng, c, rng.randint(1, 4))
            if it % 3 == 0:
                # re-use after completion: pause a queue that has run dry, resume, drain again
                ts, trials, _ = observe(c)
                m = rng.choice(pause_candidates(ts, trials, [], rng))
                c['ops'] = c['ops'] + [['pause', m], ['pop', rng.choice([1, 4])],
                                       ['resume', rng.choice([None, m, m + 5, ts + 3])],
                                       ['pop', drain_size(c)], ['pop', 3]]
            yield c
        # legal but unusual orders: pause before anything was generated, pause() then pause(t), two resumes,
        # resume without a pause, resume far beyond 2^31 samples
        for it in range(60 if tier == 'quick' else 1200):
            nst = rng.randint(1, 3)
            c = {'kind': 'odd-order', 'fs': rng.choice(QC.FS_LIST)}
            c.update(QC.policy_fields(rng.choice(QC.POLICIES), rng, nst))
            c['t0'] = rng.choice([0, 0, 0.5, 1.2345])
            c['stims'] = QC.rand_stims(rng, nst, max_len=9, max_trials=3)
            if it % 2:
                QC.spell(rng, c, p=1.0)
            ops = []
            shape = it % 6
            if shape == 0:        # pause first
                ops += [['pause', rng.choice([None, 0])], ['pop', rng.choice([1, 5])],
                        ['resume', rng.choice([None, 0, 5, 9])]]
            elif shape == 1:      # pause() then pause(t) then two resumes
                ops += [['pop', rng.choice([3, 8, 20])], ['pause', None], ['pop', 2]]
                ts, trials, _ = observe(dict(c, ops=ops))
                m = rng.choice(pause_candidates(ts, trials, [], rng))
                ops += [['pause', m], ['resume', rng.choice([None, m + 2])], ['resume', rng.choice([None, m + 4])]]
            elif shape == 2:      # resume although never paused (the clock is moved, generation goes on)
                ops += [['pop', rng.choice([3, 8, 20])]]
                ts, _, _ = observe(dict(c, ops=ops))
                ops += [['resume', rng.choice([None, ts, ts + 7])]]
            elif shape == 3:      # resume far out: sample positions beyond 2^31
                ops += [['pop', rng.choice([3, 8, 20])]]
                ts, trials, _ = observe(dict(c, ops=ops))
                m = rng.choice(pause_candidates(ts, trials, [], rng))
                far = (1 << 31) + rng.choice([0, 1, 12345])
                ops += [['pause', m], ['resume', far], ['pop', rng.choice([4, 30])]]
                ts, trials, _ = observe(dict(c, ops=ops))
                ops += [['pause', rng.choice([t for t in pause_candidates(ts, trials, [m], rng) if t >= far] or [ts])],
                        ['resume', None]]
            elif shape == 4:      # pause at the same point twice, pause at 0 after a lot was played
                ops += [['pop', rng.choice([10, 30, 60])]]
                ts, trials, _ = observe(dict(c, ops=ops))
                m = rng.choice(pause_candidates(ts, trials, [], rng))
                ops += [['pause', m], ['pause', m], ['resume', m], ['pop', rng.choice([5, 25])], ['pause', 0],
                        ['resume', rng.choice([0, 3])]]
            else:                 # single-sample requests around a pause
                ops += [['pop', 1]] * rng.choice([2, 5])
                ts, trials, _ = observe(dict(c, ops=ops))
                m = rng.choice(pause_candidates(ts, trials, [], rng))
                ops += [['pause', m], ['pop', 1], ['resume', None], ['pop', 1], ['pop', 1]]
            ops += [['pop', drain_size(c)], ['pop', 7]]
            c['ops'] = ops
            yield c
        # a stimulus appended while the queue runs (also while it is paused), with pauses before and after the
        # append: conservation must hold for the late stimulus too (Lean: conservation_append). The append comes
        # before the last trial of the early stimuli can have started (an interleaved / blocked queue that has
        # completed, or a queue that has reported empty, ignores later appends: outside the property).
        for it in range(30 if tier == 'quick' else 500):
            nst = rng.randint(2, 4)
            c = {'kind': 'late-append', 'fs': rng.choice(QC.FS_LIST), 't0': rng.choice([0, 0.5])}
            c.update(QC.policy_fields(rng.choice(QC.POLICIES), rng, nst))
            c.pop('build', None)
            c['stims'] = QC.rand_stims(rng, nst, max_len=9, max_trials=3)
            nlate = rng.randint(1, nst - 1)
            for st in c['stims'][nst - nlate:]:
                st['late'] = 1
            early = c['stims'][:nst - nlate]
            limit = sum(s['len'] * s['trials'] for s in early) - max(s['len'] for s in early)
            if limit < 2:
                continue
            ops, played, earlier, j = [], 0, [], 0
            while j < nlate:
                n = rng.choice([1, 2, 3, 5])
                if played + n < limit:
                    ops.append(['pop', n])
                    played += n
                if ops and rng.random() < 0.5:
                    ts, trials, _ = observe(dict(c, ops=ops))
                    m = rng.choice(pause_candidates(ts, trials, earlier, rng))
                    earlier.append(m)
                    ops.append(['pause', m])
                    if rng.random() < 0.6:
                        ops.append(['append', nst - nlate + j])          # appended while paused
                        j += 1
                    if rng.random() < 0.3:
                        ops.append(['pop', rng.choice([1, 4])])
                    ops.append(['resume', rng.choice([m, m + 1, m + 4, None])])
                else:
                    ops.append(['append', nst - nlate + j])
                    j += 1
            for r in range(rng.randint(1, 3)):
                ops.append(['pop', rng.choice([2, 5, 8, 13, 21, 40])])
                ts, trials, _ = observe(dict(c, ops=ops))
                m = rng.choice(pause_candidates(ts, trials, earlier, rng))
                earlier.append(m)
                ops += [['pause', m], ['resume', rng.choice([m, m + 1, m + 4, ts, None])]]
            ops += [['pop', drain_size(c)], ['pop', 7]]
            c['ops'] = ops
            if it % 2:
                QC.spell(rng, c, p=1.0)
                c.pop('build', None)
            yield c
        # re-entrancy: the consumer of the 'added' notifications holds the queue when the K-th trial starts - it calls
        # q.pause(info['t0']) or q.pause() from inside the notification, i.e. while pop_buffer is being served; resume
        # (and further pauses) between requests
        for it in range(70 if tier == 'quick' else 1400):
            nst = rng.randint(1, 3)
            c = {'kind': 'reentrant', 'fs': rng.choice(QC.FS_LIST)}
            c.update(QC.policy_fields(rng.choice(QC.POLICIES), rng, nst))
            c['t0'] = rng.choice([0, 0, 0.5, 1.2345])
            c['stims'] = QC.rand_stims(rng, nst, max_len=9, max_trials=3)
            if rng.random() < 0.2:
                rng.choice(c['stims'])['xdur'] = rng.choice([1, 3, 10, 25])
            if it % 2:
                QC.spell(rng, c, p=1.0)
            c['ops'], c['reent'] = self.reentrant_history(rng, c, rng.randint(1, 3))
            yield c
        # pauses exactly at trial ends, latest first, across sampling rates
        reps = 1 if tier == 'quick' else 6
        for fs in QC.FS_LIST:
            for n_w in ([5, 13] if tier == 'quick' else [5, 7, 13, 100]):
                for dn in [0, 3, 11]:
                    for _ in range(reps):
                        T = 300
                        ends = sorted(rng.sample(range(T), 25 if tier == 'quick' else 60), reverse=True)
                        period = n_w + dn
                        ops = [['pop', T * period]]
                        for j in ends:
                            ops.append(['pause', j * period + n_w])
                        c = {'kind': 'trial-end', 'policy': 'fifo', 'keep': 1, 'gsize': 0, 'seed': 0, 'fs': fs,
                             't0': rng.choice([0, 0.5]),
                             'stims': [{'src': 'arr', 'len': n_w, 'trials': T + 50, 'delays': [dn]}], 'ops': ops}
                        yield c

    def scale_cases(self, rng, tier):
        """Many trials, then a pause that reaches far back (bounded logs, early-terminated scans)."""
        for T, back in ([(5000, 2400)] if tier == 'quick' else [(5000, 2400), (9000, 100), (4200, 7000)]):
            yield {'kind': 'scale', 'policy': 'fifo', 'keep': 1, 'gsize': 0, 'seed': 0, 'fs': 25000.0, 't0': 0,
                   'stims': [{'src': 'arr', 'len': 2, 'trials': T + 500, 'delays': [0]}],
                   'ops': [['pop', 2 * T + 100], ['pause', back], ['resume', back + 3], ['pop', 40]]}

    def fixed_cases(self):
        b = {'kind': 'scenario', 'policy': 'fifo', 'keep': 1, 'gsize': 0, 'seed': 0, 'fs': 1000.0, 't0': 0}
        a10 = {'src': 'arr', 'len': 10, 'trials': 3, 'delays': [5]}
        yield dict(b, stims=[a10], ops=[['pop', 5], ['pause', 5], ['resume', 20], ['pop', 200]])
        yield dict(b, stims=[a10], ops=[['pop', 10], ['pause', 10], ['resume', 20], ['pop', 200]])
        yield dict(b, stims=[a10], ops=[['pop', 10], ['pause', 4], ['resume', 4], ['pop', 200]])
        yield dict(b, stims=[dict(a10, trials=10)],
                   ops=[['pop', 100], ['pause', 20], ['resume', 40], ['pop', 30], ['pause', 50], ['resume', 60],
                        ['pop', 1000]])
        for pol in ('interleaved', 'blockedrandom', 'blockedfifo', 'grouped'):
            yield dict(b, policy=pol, gsize=2, stims=[dict(a10, trials=1), dict(a10, trials=1)],
                       ops=[['pop', 100], ['pause', 16], ['resume', 200], ['pop', 100]])
        yield dict(b, stims=[dict(a10, trials=1), dict(a10, trials=1)],
                   ops=[['pop', 100], ['pause', 16], ['pop', 3], ['resume', 200], ['pop', 100]])
        yield dict(b, stims=[a10], ops=[['pop', 5], ['pause', 1000], ['pop', 5]])
        yield dict(b, stims=[{'src': 'arr', 'len': 5, 'trials': 40, 'delays': [0]}],
                   ops=[['pop', 60], ['pause', 30]])
        # the notification consumer holds the queue when the second / first / last trial starts
        for pol in ('fifo', 'interleaved', 'random', 'blockedrandom', 'grouped'):
            for how in ('pt', 'p'):
                for K in (0, 1, 2):
                    yield dict(b, kind='reentrant', policy=pol, gsize=2, stims=[a10, dict(a10, src='cos2', trials=1)],
                               ops=[['pop', 40], ['pop', 3], ['resume', None], ['pop', 300], ['pop', 5]], reent=[[K, how]])

    def model_lines(self, c):
        if c.get('reent'):
            return QC.reentrant_lines(c)[0]
        return QC.model_lines(c)

    def impl_lines(self, c):
        if c.get('reent'):
            return QC.reentrant_lines(c)[1]
        return QC.impl_lines(c)

    @staticmethod
    def expand_reentrant(steps):
        """A request during which the consumer paused the queue from inside the 'added' notification of trial K (at
        sample p) is judged as what the property text sees: the request up to p (trial K notified as its last event),
        the pause - pause(p) or pause() - made at that instant, and the rest of the request, served while paused."""
        out, count = [], 0
        for s in steps:
            evs = s.get('re') or []
            adds = s.get('add', [])
            if not evs or s.get('status') != 'ok':
                out.append(s)
                count += len(adds)
                continue
            ev = evs[0]
            a = ev['pos'] - s['c0']
            cut = ev['K'] - count + 1
            n = s['op'][1]
            out.append(dict(s, op=['pop', a], pseudo=True, cells=s['cells'][:a], add=adds[:cut], rm=[], rem=ev['rem0'],
                            ts=ev['ts0'], empty=False, re=[]))
            out.append({'op': ['pause', ev['pos'] if ev['how'] == 'pt' else None], 'status': 'ok', 'pseudo': True,
                        'cells': [], 'add': [], 'rm': list(ev['rm']), 'rem': ev['rem1'], 'ts': ev['ts1'], 'empty': False,
                        'inside': (ev['K'], s['op'])})
            out.append(dict(s, op=['pop', n - a], pseudo=True, cells=s['cells'][a:], add=adds[cut:],
                            rm=list(s['rm'][len(ev['rm']):]), re=evs[1:]))
            count += len(adds)
        return out

    def nontrivial(self, c, out):
        return any(' rm=' in l and ' rm=- ' not in l for l in out)

    # ---- the property -------------------------------------------------------
    def oracle(self, c, out):
        f = self._oracle(c, out)
        if f is not None and c.get('reent'):
            tr = QC.run_case(c)
            calls = '; '.join(f"{'pause(t0 of that trial)' if e['how'] == 'pt' else 'pause()'} from inside the 'added' "
                              f"notification of trial {e['K']} (stimulus {e['key']}, onset sample {e['pos']})" for e in tr.reent)
            f += f' [re-entrant history: the notification consumer called {calls}]'
        return f

    def _oracle(self, c, out):
        if any(l.startswith('HARNESS-EXC') for l in out):
            return out[0]
        tr = QC.run_case(c)
        nst = len(c['stims'])
        durs = [QC.exact_dur(s) for s in c['stims']]
        req = [s['trials'] for s in c['stims']]
        exact = QC.exact_policy(c)
        live = {}            # uid -> (key, k)
        removed = set()
        n_added = 0
        paused = False
        clock = 0
        resume_at = None     # position at which the next trial must start
        cut = False          # a pause(t) put the queue in the "nothing playing" state
        rem = [r for r, st in zip(req, c['stims']) if not st.get('late')]   # late stimuli: keys follow on append
        was_empty = False
        for s in self.expand_reentrant(tr.steps):
            op = s['op']
            if s['status'] == 'dead':
                break
            if s.get('re') and s['status'] != 'ok':
                e = s['re'][0]
                call = "pause(info['t0'])" if e['how'] == 'pt' else 'pause()'
                return (f'{op} raised: {s["status"]} - the consumer called {call} from inside the "added" notification of '
                        f'trial {e["K"]} (stimulus {e["key"]}, sample {e["pos"]})'
                        + ('' if e['status'] == 'ok' else '; the pause call itself raised'))
            if op[0] == 'append':
                if s['status'] != 'ok':
                    return f'{op} raised: {s["status"]}'
                if was_empty or all(r <= 0 for r in rem):
                    # appended to a queue that has finished (reported empty / no counter positive, which is when an
                    # interleaved or blocked queue has completed): it stays finished — outside the property
                    return None
                rem = rem + [req[op[1]]]
                continue
            if op[0] == 'pause' and op[1] is not None and op[1] > clock:
                if s['status'] != 'err ValueError':
                    return f'pause at sample {op[1]} with the clock at {clock} was not rejected with ValueError: {s["status"]}'
                return None      # history leaves the quantifier (t not after the clock)
            if op[0] == 'pop' and op[1] <= 0 and s.get('pseudo'):
                if s['cells']:
                    return 'harness: bad split of a re-entrant request'
            elif op[0] == 'pop' and op[1] <= 0:
                if s['status'] != 'err ValueError':
                    return f'pop_buffer({op[1]}) did not raise ValueError'
                continue
            if s['status'] != 'ok':
                return f'{op} raised: {s["status"]}'
            new = s['add']
            for j, a in enumerate(new):
                live[n_added + j] = (a[0], a[1])
            if op[0] == 'pop':
                if paused:
                    if any(x != ('Z',) for x in s['cells']):
                        return f'non-zero output while paused ({op})'
                    if new:
                        return f'trial {new[0][:2]} started while paused'
                elif new and resume_at is not None:
                    if new[0][1] != resume_at:
                        return f'first trial after resume({resume_at}) starts at sample {new[0][1]}'
                if new and not paused:
                    resume_at = None
            else:
                if new:
                    return f'{op} notified "added"'
            n_added += len(new)
            rm = s['rm']
            if op[0] == 'pause' and op[1] is not None:
                m = op[1]
                want = sorted(u for u, (key, k) in live.items() if u not in removed and k + durs[key] > m)
                if sorted(rm) != want:
                    dup = [u for u in rm if u in removed or rm.count(u) > 1]
                    desc = lambda us: [(live[u][0], live[u][1]) if u in live else u for u in us]
                    if dup:
                        return (f'pause({m}): trial(s) {desc(sorted(set(dup)))} (key, start) received "removed" more than once')
                    return (f'pause({m}): "removed" sent for {desc(sorted(rm))}, trials ending after {m} are {desc(want)} (key, start)')
                for key in range(len(s['rem'])):
                    cnt = sum(1 for u in rm if live[u][0] == key)
                    if s['rem'][key] - rem[key] != cnt:
                        return (f'pause({m}): {cnt} trial(s) of key {key} cancelled but remaining_trials went '
                                f'{rem[key]} -> {s["rem"][key]}')
                removed.update(rm)
                paused, cut, resume_at = True, True, None
            else:
                if rm:
                    return f'{op} notified "removed" {rm}'
                if op[0] == 'pause':
                    paused = True
                elif op[0] == 'resume':
                    if cut or resume_at is not None:     # (a second resume before any trial started moves the point)
                        resume_at = op[1] if op[1] is not None else s['ts']
                    paused, cut = False, False
            rem = s['rem']
            clock = s['ts']
            if s['empty']:
                was_empty = True
                for key in range(len(s['rem'])):
                    kept = sum(1 for u, (k2, _) in live.items() if k2 == key and u not in removed)
                    if (kept != req[key]) if exact else (kept < req[key]):
                        return (f'queue reports empty after {op}: key {key} has {kept} non-cancelled presentations, '
                                f'{req[key]} requested')
        return None

    def known(self, c, failure):
        return None

    def neighbours(self, c, rng):
        for _ in range(20):
            ops = [list(o) for o in c['ops']]
            i = rng.randrange(len(ops))
            if ops[i][1] is not None:
                ops[i][1] = max(1 if ops[i][0] == 'pop' else 0, ops[i][1] + rng.choice([-2, -1, 1, 2]))
            yield dict(c, ops=ops)

    def shrink_candidates(self, c):
        ops = c['ops']
        for i, e in enumerate(c.get('reent') or []):
            yield dict(c, reent=c['reent'][:i] + c['reent'][i + 1:])
            if e[0] > 0:
                yield dict(c, reent=c['reent'][:i] + [[e[0] - 1, e[1]]] + c['reent'][i + 1:])
        for i in range(len(ops) - 1, -1, -1):
            yield dict(c, ops=ops[:i] + ops[i + 1:])
        for i in range(len(ops) - 1):
            if ops[i][0] == 'pop' and ops[i + 1][0] == 'pop':
                yield dict(c, ops=ops[:i] + [['pop', ops[i][1] + ops[i + 1][1]]] + ops[i + 2:])
        for i, o in enumerate(ops):
            if o[0] == 'pop' and o[1] > 1:
                for v in (o[1] // 2, o[1] - 1):
                    yield dict(c, ops=ops[:i] + [['pop', v]] + ops[i + 1:])
        for i in range(len(c['stims'])):
            if len(c['stims']) > 1:
                yield QC.drop_stim(c, i)
        for c2 in QC.unspell_candidates(c):
            yield c2
        for i, st in enumerate(c['stims']):
            for f, v in (('trials', st['trials'] - 1), ('len', st['len'] - 1)):
                if v >= 1:
                    yield dict(c, stims=c['stims'][:i] + [dict(st, **{f: v})] + c['stims'][i + 1:])
            if st['src'] != 'arr':
                s2 = dict(st, src='arr')
                s2.pop('frac', None)
                yield dict(c, stims=c['stims'][:i] + [s2] + c['stims'][i + 1:])
            if len(st['delays']) > 1:
                yield dict(c, stims=c['stims'][:i] + [dict(st, delays=st['delays'][:1])] + c['stims'][i + 1:])
        if c['t0'] != 0:
            yield dict(c, t0=0)
        if c['policy'] != 'fifo':
            yield dict(c, policy='fifo')

    def describe(self, c):
        return (f"{QC.policy_name(c)} gsize={c.get('gsize')} fs={c['fs']} t0={c['t0']} "
                f"stims={c['stims']} ops={c['ops'][:14]}{'...' if len(c['ops']) > 14 else ''}"
                + (f" reent={c['reent']} (the 'added' consumer calls pause(info['t0']) [pt] / pause() [p] from inside the "
                   f"K-th notification; model/impl lines below are those of the equivalent plain history)" if c.get('reent') else ''))


SPEC = C04()
