"""C13 — streaming edge detection (pipeline.edges, Events, combine_events).

Case = one detector life: ``new``, a list of chunks, then queries on the emitted blocks.
Model lines go to ``psidriver edges``; the same operations run on the real coroutine in-process.
"""
import itertools
import json
import os

import numpy as np

from . import common as C
from . import framework
from .framework import Spec

DET = {'r': 'rising', 'f': 'falling', 'b': 'both'}
FS_CHOICES = [1000.0, 44100.0, 3.0, 97656.25]


# ----------------------------------------------------------------------------
# reference definitions used by the oracle (the property, written directly)
# ----------------------------------------------------------------------------

def runs_of(bits):
    """run-length encoding: [(value, length)]"""
    out = []
    for b in bits:
        if out and out[-1][0] == b:
            out[-1][1] += 1
        else:
            out.append([b, 1])
    return out


def in_quantifier(init, x, m):
    """The property's precondition: every high and low run of the stream exceeds m.  The last run is
    exempt: it may still be growing, and what a causal detector has emitted so far cannot depend on
    the future, so the property of every clean continuation already fixes the output on this prefix."""
    r = runs_of(x)
    return all(l > m for _, l in r[:-1])


def transitions(init, x):
    """[(kind, index)] — positions whose value differs from its predecessor."""
    ev, prev = [], init
    for i, v in enumerate(x):
        if v and not prev:
            ev.append(('r', i))
        if prev and not v:
            ev.append(('f', i))
        prev = v
    return ev


def parse_events(s):
    if s == '-':
        return []
    out = []
    for t in s.split(','):
        k, p = t.split('@')
        out.append((k, int(p)))
    return out


def parse_block(line):
    """'ok start end events' -> (start, end, events) or None"""
    w = line.split()
    if len(w) != 4 or w[0] != 'ok':
        return None
    return int(w[1]), int(w[2]), parse_events(w[3])


def fmt_events(ev):
    return ','.join(f'{k}@{p}' for k, p in ev) if ev else '-'


def bits_of(s):
    return [] if s == '-' else [c == '1' for c in s]


def stream_from_runs(first, lengths):
    x, v = [], first
    for l in lengths:
        x += [v] * l
        v = not v
    return x


def chunk_strings(x, sizes):
    out, i = [], 0
    for n in sizes:
        out.append(''.join('1' if b else '0' for b in x[i:i + n]) or '-')
        i += n
    assert i == len(x)
    return out


# ---- hardening: representations of the same stream / parameters, query spellings ------------------------------
# non-zero sample values standing for "high" (docstring of edges: every non-zero value is a logical high)
HIGHS = {'uint8': [1, 2, 255, 128], 'int32': [1, -1, 256, -65536, 7], 'float64': [0.5, -0.25, 1e-300, 3.0, float('inf')]}
REP_OPTIONS = {
    'dtype': ['uint8', 'int32', 'float64'],          # default: bool
    'm_np': [1],                                     # min_samples as a NumPy integer
    'init_rep': ['int', 'npbool', 'int2'],           # initial_state as int 0/1, np.bool_, 0/2 (docstring: {int, bool})
    'spell': ['pos', 'allkw', 'defaults'],           # all positional / all keyword / arguments equal to the default omitted
    'fs_rep': ['int', 'np'],                         # fs as int (when integral) / np.float64
    'chan': ['default'],                             # annotated input without channel labels
    'meta': [1],                                     # annotated input carrying metadata
    's0np': [1],                                     # s0 of the annotated chunks as np.int64
    'fs_explicit': [1],                              # annotated input and fs= given as well (same value)
}
RANGE_OPS = ('range', 'nprange', 'trange', 'rangeS')
LATEST_OPS = ('latest', 'latest1', 'tlatest', 'latestS')
COMBINE_OPS = ('combine', 'combineT', 'combineS')
FLAGS = ('TS-MISMATCH', 'REPEAT-DIFFERS', 'BLOCK-MODIFIED')


def expand(c):
    """compact description of a very long stream -> the plain stream case it stands for"""
    if c.get('kind') != 'big':
        return c
    import random
    r = random.Random(c['seed'])
    m, target = c['m'], c['n']
    runs, total = [], 0
    while total < target:
        if c.get('dense'):
            l = m + 1 + r.choice([0, 0, 1, 2])
        else:
            l = m + 1 + r.choice([0, 0, 1, 2, r.randint(0, 3 * m), r.randint(0, target // 6)])
        runs.append(l)
        total += l
    x = stream_from_runs(r.random() < 0.5, runs)
    sizes, left, tiny = [], len(x), 0
    while left:
        k = r.choice([1, 1, 2, m, m + 1, m + 2, 7, 4096, 50000, r.randint(1, 70000)])
        if k <= m + 1:
            tiny += 1
            if tiny > 120:
                k = 30000
        k = min(k, left)
        sizes.append(k)
        left -= k
    d = {k: v for k, v in c.items() if k not in ('seed', 'n', 'dense')}
    d.update(kind='stream', chunks=chunk_strings(x, sizes),
             queries=[['combine', list(range(len(sizes)))], ['latest', len(sizes) - 1, -sizes[-1], 0],
                      ['combineS', list(range(len(sizes) // 2, len(sizes)))], ['range', len(sizes), c['s0'] - m + sum(sizes) - 5, c['s0'] - m + sum(sizes)]])
    return d


def cuts_to_sizes(n, cuts):
    pts = [0] + sorted(set(c for c in cuts if 0 < c < n)) + [n]
    return [b - a for a, b in zip(pts, pts[1:])]


class C13(Spec):
    PROP = 'C13'
    MODEL = 'edges'
    PROOF_MODULES = ['PsiProofs.C13']
    DESIGN_REF = 'DESIGN.md §6 C13'
    PARALLEL = 16
    TRUST = [
        'modelled, not verified: pandas DataFrame construction / boolean row selection / pd.concat keep row order; '
        'np.tile, concat and negative slicing `samples[..., -m:]` (the model transcribes what they compute; compared on every case)',
        'util.epochs / util.debounce_epochs are the C18 model (PsiModel.Epochs), whose theorems are reused',
        'ts = sample / fs is checked on every emitted block by the harness (exact float equality with the same division), not in Lean',
        'sampling-rate mismatch branch of combine_events is not modelled (all blocks of one detector share fs)',
    ]
    ASSUMPTIONS = [
        'input is plain 1-D boolean or annotated 2-D single-channel (1, n); 1-D annotated input raises TypeError in the code and is outside the quantifier',
        'annotated chunks are contiguous in s0 (the code\'s own concat demands it)',
    ]
    _RULE = ('streams built from alternating run lengths > m (last run free), m in 1..6, both initial states, '
             'first value equal or opposite to the initial state, detect in rising/falling/both, plain and annotated (1, n) input, '
             'several first s0; chunkings: a boundary at every offset 0..m+1 before/after each edge, random compositions, '
             'single-sample chunks, one chunk, empty chunks; plus queries (get_range_samples, get_latest_samples, combine_events) '
             'on the emitted blocks, unclean random streams (correspondence only) and malformed constructions. '
             'Hardening: sample values as uint8/int32/float64 with arbitrary non-zero highs, plain (1, n) input, min_samples / s0 / fs / '
             'initial_state as NumPy scalars or ints, all-positional / all-keyword / defaults-omitted construction, unlabelled or '
             'metadata-carrying annotated input; queries spelled with NumPy integers, in seconds (get_range / get_latest, when the float '
             'round trip is exact), with ub omitted, with a tuple, and queries on query results (range of a merge, merge of ranges); '
             'every query is repeated after the caller overwrote its first result and every emitted block is re-read after all '
             'queries; the caller overwrites each chunk after sending it and each block after receiving it; two detectors differing '
             'in one parameter are fed the same chunk objects alternately; per run four lives of 2^14..2^17 samples (m up to 1000, '
             'thousands of events, 1-sample next to 50000-sample chunks, first s0 beyond 2^31). '
             'Non-trivial = the stream has at least one transition and at least two chunks.')
    exhaustive_note = {
        'thorough': 'all streams of <= 3 runs with lengths in {m+1, m+2} (m = 1, 2; for m = 3: <= 2 runs; both initial states, both first values) '
                    'x ALL ordered compositions of the stream into chunks (every chunk boundary set)',
    }

    def __init__(self):
        self.out_of_span = 0
        self.total_events = 0

    @property
    def RULE(self):
        return (self._RULE + f' Observation (not a violation): {self.out_of_span} of {self.total_events} events emitted in this run '
                'lie outside their block\'s declared [start, end) span (rising at end, falling up to end+m-1).')

    # ---- generation ---------------------------------------------------
    def _queries(self, rng, c, nblocks, starts):
        """queries around the block spans; starts[k] = (start, end) expected of block k.  Spellings vary (sample numbers as
        NumPy integers, the time-based get_range / get_latest, ub of get_latest_samples omitted, a tuple for combine_events);
        the ...S forms keep a successful result as a further block, so that later queries address query results."""
        q = []
        if nblocks == 0:
            return q
        m = c['m']
        spans = list(starts)

        def inside(k, a, b):
            return spans[k][0] <= a <= b <= spans[k][1]
        for _ in range(rng.randint(1, 4)):
            k = rng.randrange(len(spans))
            s, e = spans[k]
            if e < s:
                continue
            a = rng.randint(s - 1, e + 1)
            b = rng.randint(a - 1, e + m + 1)
            op = rng.choice(['range', 'range', 'nprange', 'trange', 'rangeS'])
            if op == 'rangeS':
                if inside(k, a, b):
                    spans.append((a, b))
                else:
                    op = 'range'
            q.append([op, k, a, b])
        k = rng.randrange(len(spans))
        s, e = spans[k]
        q.append([rng.choice(['range', 'nprange', 'trange']), k, s, e])
        lb, ub = -rng.randint(0, max(0, e - s) + 1), rng.choice([0, 0, 0, 1, -1])
        op = rng.choice(['latest', 'latest1', 'tlatest', 'latestS'])
        if op == 'latest1':
            ub = 0
        if op == 'latestS':
            if inside(k, lb + e, ub + e):
                spans.append((lb + e, ub + e))
            else:
                op = 'latest'
        q.append([op, k, lb, ub])
        i = rng.randrange(nblocks)
        j = rng.randint(i, min(nblocks - 1, i + 4))
        op = rng.choice(COMBINE_OPS)
        q.append([op, list(range(i, j + 1))])
        if op == 'combineS':
            spans.append((spans[i][0], spans[j][1]))
            k = len(spans) - 1
            s, e = spans[k]
            a = rng.randint(s, e)
            q.append([rng.choice(['range', 'rangeS']), k, a, rng.randint(a, e)])
            if q[-1][0] == 'rangeS':
                spans.append((q[-1][2], q[-1][3]))
        if rng.random() < 0.3:
            ks = [rng.randrange(len(spans)) for _ in range(rng.randint(0, 3))]
            q.append([rng.choice(['combine', 'combineT']), ks])
        return q

    @staticmethod
    def _rand_rep(rng, p=0.3):
        return {k: rng.choice(v) for k, v in REP_OPTIONS.items() if rng.random() < p}

    def _mk(self, rng, m, init, first, lengths, sizes, detect=None, mode=None, s0=None, queries=True, x=None, rep=None, **extra):
        if x is None:
            x = stream_from_runs(first, lengths)
        mode = mode or rng.choice(['plain', 'pd2'])
        if s0 is None:
            s0 = rng.choice([0, 100, -5, 7, 12345, 2 ** 31 - 3, 2 ** 31 + 11, 2 ** 32 + 5, 2 ** 40])   # incl. beyond 32 bits
        if mode in ('plain', 'plain2'):
            s0 = 0
        c = {'kind': 'stream', 'm': m, 'init': int(init), 's0': s0, 'detect': detect or rng.choice('bbrf'),
             'mode': mode, 'fs': rng.choice(FS_CHOICES), 'chunks': chunk_strings(x, sizes), 'queries': []}
        if rep:
            c['rep'] = rep
        c.update(extra)
        if queries:
            spans, a = [], s0 - m
            for n in sizes:
                spans.append((a, a + n))
                a += n
            c['queries'] = self._queries(rng, c, len(sizes), spans)
        return c

    def _random_lengths(self, rng, m):
        k = rng.randint(1, 6)
        ls = [rng.randint(m + 1, m + 5) for _ in range(k)]
        if rng.random() < 0.5:
            ls[-1] = rng.randint(1, m + 3)        # the last run is free
        if rng.random() < 0.1:
            ls[0] = rng.randint(1, m)             # short first run: outside the quantifier, correspondence only
        return ls

    def cases(self, rng, tier):
        quick = tier == 'quick'
        # -- boundary-targeted: a chunk boundary at every offset around every edge
        reps = 3 if quick else 8
        for m in range(1, 7):
            for _ in range(reps):
                for init in (False, True):
                    ls = self._random_lengths(rng, m)
                    first = rng.choice([True, False])
                    x = stream_from_runs(first, ls)
                    n = len(x)
                    edges = [p for _, p in transitions(init, x)]
                    for p in edges:
                        for o in range(0, m + 2):
                            for side in (-1, 1):
                                cut = p + side * o
                                extra = [rng.randrange(1, n) for _ in range(rng.randint(0, 3))] if n > 1 else []
                                yield self._mk(rng, m, init, first, ls, cuts_to_sizes(n, [cut] + extra))
                                if not quick:
                                    yield self._mk(rng, m, init, first, ls, cuts_to_sizes(n, [cut, cut + 1] + extra))
                    yield self._mk(rng, m, init, first, ls, [1] * n)          # sample by sample
                    yield self._mk(rng, m, init, first, ls, [n])              # one chunk
        # -- random clean streams, random compositions (some empty chunks)
        for _ in range(3000 if quick else 20000):
            m = rng.randint(1, 6)
            init = rng.choice([True, False])
            ls = self._random_lengths(rng, m)
            first = rng.choice([True, False])
            n = sum(ls)
            sizes = rng.chunks(n, max_parts=rng.choice([2, 4, 8, n]))
            if rng.random() < 0.15:
                sizes.insert(rng.randint(0, len(sizes)), 0)
            yield self._mk(rng, m, init, first, ls, sizes)
        # -- unclean random streams: correspondence only (outside the property's quantifier unless they happen to be clean)
        for _ in range(600 if quick else 4000):
            m = rng.randint(1, 5)
            n = rng.randint(0, 24)
            p = rng.random()
            x = [rng.random() < p for _ in range(n)]
            sizes = rng.chunks(n, max_parts=6) if n else [0]
            yield self._mk(rng, m, rng.choice([True, False]), None, None, sizes, x=x)
        yield from self.hardening_cases(rng, tier)
        # -- malformed
        for m in (0, -1, -7):
            yield {'kind': 'stream', 'm': m, 'init': 0, 's0': 0, 'detect': 'b', 'mode': 'plain', 'fs': 1000.0,
                   'chunks': [], 'queries': []}
        c = self._mk(rng, 2, False, True, [3, 4, 5], [2, 3, 0, 4, 3], queries=False, mode='plain')
        c['queries'] = [['combine', []], ['combine', [0, 2]], ['combine', [1, 2, 3]], ['combine', [3, 1]],
                        ['range', 0, -3, -1], ['range', 0, -2, 0], ['range', 0, -2, 1], ['latest', 4, -3, 0],
                        ['latest', 4, -4, 0], ['latest', 4, -1, 1]]
        yield c
        # -- exhaustive small scope (thorough)
        if not quick:
            for m in (1, 2, 3):
                for k in ((1, 2, 3) if m < 3 else (1, 2)):
                    for ls in itertools.product((m + 1, m + 2), repeat=k):
                        for init in (False, True):
                            for first in (False, True):
                                x = stream_from_runs(first, ls)
                                n = len(x)
                                for mask in range(1 << (n - 1)):
                                    cuts = [i + 1 for i in range(n - 1) if mask >> i & 1]
                                    yield self._mk(rng, m, init, first, list(ls), cuts_to_sizes(n, cuts),
                                                   detect='b', mode='plain', queries=False)

    def _clean(self, rng, m=None, **kw):
        m = m or rng.randint(1, 6)
        ls = self._random_lengths(rng, m)
        if len(ls) > 1 and ls[0] <= m:
            ls[0] = m + 1
        n = sum(ls)
        sizes = rng.chunks(n, max_parts=rng.choice([2, 4, 8, n]))
        if rng.random() < 0.2:
            sizes.insert(rng.randint(0, len(sizes)), 0)
        return self._mk(rng, m, rng.choice([True, False]), rng.choice([True, False]), ls, sizes, **kw)

    def hardening_cases(self, rng, tier):
        """HARDENING.md items 1-7 (see notes/C13.md, section "hardening")."""
        quick = tier == 'quick'
        # 1/2. representations of the stream and of the parameters, call spellings, plain (1, n) input
        for _ in range(600 if quick else 6000):
            yield self._clean(rng, rep=self._rand_rep(rng), mode=rng.choice(['plain', 'plain2', 'pd2']))
        for key, opts in REP_OPTIONS.items():            # every option at least a few times on its own
            for o in opts:
                for _ in range(4):
                    yield self._clean(rng, rep={key: o}, mode=rng.choice(['plain', 'plain2', 'pd2', 'pd2']))
        # 5/6. the caller re-uses its buffer (overwrites every chunk after sending it) and overwrites the emitted blocks
        for _ in range(200 if quick else 3000):
            yield self._clean(rng, rep=self._rand_rep(rng, 0.15), scrin=1, mode=rng.choice(['plain', 'plain2', 'pd2']))
            yield self._clean(rng, queries=False, scrin=rng.randint(0, 1), scrout=1)
        # 5/7. two detectors differing in exactly one parameter, fed the same chunk objects alternately
        for _ in range(200 if quick else 3000):
            a = self._clean(rng, queries=False, rep=self._rand_rep(rng, 0.1))
            b = dict(a)
            what = rng.choice(['m', 'detect', 'init'])
            if what == 'm':
                b['m'] = rng.choice([v for v in range(1, 8) if v != a['m']])
            elif what == 'detect':
                b['detect'] = rng.choice([v for v in 'brf' if v != a['detect']])
            else:
                b['init'] = 1 - a['init']
            yield {'kind': 'dual', 'a': a, 'b': b}
        # 3. scale: >= 2^16 samples in one life, thousands of events, debounce lengths in the hundreds,
        #    chunks of 1 sample next to chunks of tens of thousands, first s0 beyond 2^31
        bigs = [(1, 2 ** 14, 1), (3, 2 ** 16, 0), (50, 2 ** 17, 0), (1000, 2 ** 17, 0)]
        if not quick:
            bigs += [(2, 2 ** 16, 1), (7, 2 ** 20, 0), (300, 2 ** 18, 0)]
        for m, n, dense in bigs:
            mode = rng.choice(['plain', 'pd2'])
            yield {'kind': 'big', 'm': m, 'n': n, 'dense': dense, 'seed': rng.randrange(10 ** 6), 'init': rng.randint(0, 1),
                   's0': 0 if mode == 'plain' else rng.choice([2 ** 31 - 70000, 2 ** 32 - 5, 2 ** 40]), 'detect': rng.choice('bbrf'),
                   'mode': mode, 'fs': rng.choice(FS_CHOICES)}

    # ---- both sides ----------------------------------------------------
    def model_lines(self, c):
        if c['kind'] == 'dual':
            return self.model_lines(c['a']) + self.model_lines(c['b'])
        c = expand(c)
        lines = [f"new {c['m']} {c['init']} {c['s0']} {c['detect']}"]
        lines += [f'send {ch}' for ch in c['chunks']]
        for q in c['queries']:
            op = q[0]
            if op in COMBINE_OPS:
                lines.append(('combineS ' if op == 'combineS' else 'combine ') + (','.join(str(k) for k in q[1]) or '-'))
            elif op in RANGE_OPS:
                lines.append(f"{'rangeS' if op == 'rangeS' else 'range'} {q[1]} {q[2]} {q[3]}")
            else:
                lines.append(f"{'latestS' if op == 'latestS' else 'latest'} {q[1]} {q[2]} {q[3]}")
        return lines

    @staticmethod
    def _fmt(ev, fs):
        df = ev.events
        kinds = list(df['event'])
        samples = [int(s) for s in df['sample']]
        line = f'ok {int(ev.start)} {int(ev.end)} ' + fmt_events([(k[0], s) for k, s in zip(kinds, samples)])
        bad = [k for k in kinds if k not in ('rising', 'falling')]
        ts = [float(t) for t in df['ts']]
        if bad or ts != [s / fs for s in samples] or ev.fs != fs:
            line += ' TS-MISMATCH'
        return line

    # -- the real code ------------------------------------------------------
    @staticmethod
    def _fs_obj(c):
        rep = c.get('rep') or {}
        fs = c['fs']
        if rep.get('fs_rep') == 'int' and fs == int(fs):
            return int(fs)
        if rep.get('fs_rep') == 'np':
            return np.float64(fs)
        return fs

    def _detector(self, P, c, target):
        rep = c.get('rep') or {}
        m = np.int64(c['m']) if rep.get('m_np') else c['m']
        init = {'int': int(c['init']), 'npbool': np.bool_(c['init']), 'int2': 2 * int(c['init'])}.get(rep.get('init_rep'), bool(c['init']))
        annotated = c['mode'] == 'pd2'
        fs = self._fs_obj(c) if (not annotated or rep.get('fs_explicit')) else 'auto'
        det = DET[c['detect']]
        spell = rep.get('spell')
        if spell == 'pos':
            return P.edges(m, target, init, fs, det)
        if spell == 'allkw':
            return P.edges(min_samples=m, target=target, initial_state=init, fs=fs, detect=det)
        if spell == 'defaults':
            kw = {}
            if c['init']:
                kw['initial_state'] = init
            if fs != 'auto':
                kw['fs'] = fs
            if det != 'both':
                kw['detect'] = det
            return P.edges(m, target, **kw)
        return P.edges(m, target, initial_state=init, fs=fs, detect=det)

    def _chunk(self, P, c, bits, s0, k):
        rep = c.get('rep') or {}
        b = np.array(bits, dtype=bool)
        dt = rep.get('dtype', 'bool')
        if dt == 'bool':
            a = b
        else:
            hi = HIGHS[dt]
            vals = np.array([hi[(i + k) % len(hi)] for i in range(len(bits))], dtype=dt)
            a = np.where(b, vals, np.zeros(len(bits), dtype=dt)).astype(dt)
        if c['mode'] == 'plain2':
            a = a[np.newaxis]
        elif c['mode'] == 'pd2':
            kw = {}
            if rep.get('chan') != 'default':
                kw['channel'] = ['ttl']
            if rep.get('meta'):
                kw['metadata'] = {'m': 1}
            a = P.PipelineData(a[np.newaxis], self._fs_obj(c), s0=np.int64(s0) if rep.get('s0np') else s0, **kw)
        return a

    @staticmethod
    def _scribble_input(a):
        """the caller re-uses its acquisition buffer: everything in the chunk it sent is overwritten"""
        if a.size:
            a[...] = (np.asarray(a) == 0).astype(a.dtype)
        if hasattr(a, 's0'):
            a.s0 = a.s0 + 999
            a.fs = a.fs * 2
            if isinstance(a.channel, list):
                a.channel[:] = ['x'] * len(a.channel)
            a.metadata['scribbled'] = True

    @staticmethod
    def _scribble_events(ev):
        if len(ev.events):
            ev.events['sample'] = ev.events['sample'] + 1000
            ev.events['ts'] = -1.0
            ev.events['event'] = 'x'

    def _query(self, P, out, q, fs):
        op = q[0]
        if op in COMBINE_OPS:
            if not all(k < len(out) for k in q[1]):
                return None
            bl = [out[k] for k in q[1]]
            return P.combine_events(tuple(bl) if op == 'combineT' else bl)
        if q[1] >= len(out):
            return None
        b = out[q[1]]
        x, y = q[2], q[3]
        # the time-based spellings are used when the float round trip sample -> seconds -> sample is exact
        exact = all(int(np.round((v / fs) * fs)) == v for v in (x, y, x + int(b.end), y + int(b.end)))
        if op in ('range', 'rangeS') or (op == 'trange' and not exact):
            return b.get_range_samples(x, y)
        if op == 'nprange':
            return b.get_range_samples(np.int64(x), np.int64(y))
        if op == 'trange':
            return b.get_range(x / fs, y / fs)
        if op == 'latest1':
            # upper bound omitted: in samples, or (every other one, when the float round trip is exact) in seconds
            if exact and x % 2 == 0:
                return b.get_latest(x / fs)
            return b.get_latest_samples(x)
        if op == 'tlatest' and exact:
            return b.get_latest(x / fs, y / fs)
        return b.get_latest_samples(x, y)

    def _run_stream(self, P, c, chunks=None):
        """one detector life; `chunks`: chunk objects shared with another detector (dual cases)"""
        c = expand(c)
        out, lines = [], []
        fs = c['fs']
        n_ops = len(c['chunks']) + len(c['queries'])
        try:
            st = self._detector(P, c, out.append)
            lines.append('ok')
        except ValueError:
            yield ['err ValueError'] + ['bad-op'] * n_ops
            return
        s0 = c['s0']
        dead = False
        for i, ch in enumerate(c['chunks']):
            if dead:
                lines.append('bad-op')
                yield None
                continue
            a = chunks[i] if chunks is not None else self._chunk(P, c, bits_of(ch), s0, i)
            s0 += a.shape[-1]
            k = len(out)
            try:
                st.send(a)
            except (ValueError, IndexError, TypeError) as e:
                lines.append(f'err {type(e).__name__}')
                dead = True
                yield None
                continue
            if c.get('scrin') and chunks is None:
                self._scribble_input(a)
            if len(out) != k + 1:
                lines.append(f'ok-blocks={len(out) - k}')
                dead = True
                yield None
                continue
            lines.append(self._fmt(out[-1], fs))
            if c.get('scrout'):
                self._scribble_events(out[-1])
                out[-1].start, out[-1].end = out[-1].start - 3, out[-1].end + 3
            yield None
        nblocks = len(out)
        results = []
        for q in c['queries']:
            try:
                r = self._query(P, out, q, fs)
                lines.append('bad-op' if r is None else self._fmt(r, fs))
                if r is not None and q[0].endswith('S'):
                    out.append(r)
                    r = None                       # kept as a block: not overwritten below
                results.append(r)
            except (ValueError, IndexError, TypeError) as e:
                lines.append(f'err {type(e).__name__}')
                results.append(None)
        if c['queries'] and not c.get('scrout'):
            # the caller overwrites what the queries returned; the blocks and the answers must not change
            for r in results:
                if r is not None:
                    self._scribble_events(r)
            base = 1 + len(c['chunks'])
            for j, q in enumerate(c['queries']):
                if q[0].endswith('S'):
                    continue
                try:
                    r2 = self._query(P, out, q, fs)
                    again = 'bad-op' if r2 is None else self._fmt(r2, fs)
                except (ValueError, IndexError, TypeError) as e:
                    again = f'err {type(e).__name__}'
                if again != lines[base + j]:
                    lines[base + j] += ' REPEAT-DIFFERS'
            # emitted blocks unchanged by all the queries / merges
            sent = [i for i, l in enumerate(lines[1:base]) if l.startswith('ok ')]
            for k, i in enumerate(sent[:nblocks]):
                if self._fmt(out[k], fs) != lines[1 + i]:
                    lines[1 + i] += ' BLOCK-MODIFIED'
        yield lines

    def impl_lines(self, c):
        from psiaudio import pipeline as P
        if c['kind'] == 'dual':
            a, b = c['a'], c['b']
            s0, chunks = a['s0'], []
            for i, ch in enumerate(a['chunks']):
                chunks.append(self._chunk(P, a, bits_of(ch), s0, i))
                s0 += chunks[-1].shape[-1]
            ga, gb = self._run_stream(P, a, chunks), self._run_stream(P, b, chunks)
            ra = rb = None
            while ra is None or rb is None:          # alternate: chunk i to detector A, chunk i to detector B, ...
                if ra is None:
                    ra = next(ga)
                if rb is None:
                    rb = next(gb)
            return ra + rb
        *_, lines = self._run_stream(P, c)
        return lines

    # ---- the property, on the implementation's outputs -------------------
    def oracle(self, c, out):
        if c['kind'] == 'dual':
            na = len(self.model_lines(c['a']))
            for name, sub, o in (('A', c['a'], out[:na]), ('B', c['b'], out[na:])):
                f = self.oracle(sub, o)
                if f is not None:
                    return (f'two detectors fed the same chunks alternately (A: m={c["a"]["m"]} {c["a"]["detect"]} init={c["a"]["init"]}; '
                            f'B: m={c["b"]["m"]} {c["b"]["detect"]} init={c["b"]["init"]}), detector {name}: {f}')
            return None
        c = expand(c)
        m = c['m']
        if m < 1:
            return None          # outside the quantifier (debounce lengths >= 1)
        x = [b for ch in c['chunks'] for b in bits_of(ch)]
        init = bool(c['init'])
        if not in_quantifier(init, x, m):
            return None
        for l in out:
            if 'TS-MISMATCH' in l:
                return f'event times are not sample / fs, or fs not propagated: {l[:200]}'
            if 'BLOCK-MODIFIED' in l:
                return f'an emitted block was changed by the queries / merges made on it: {l[:200]}'
            if 'REPEAT-DIFFERS' in l:
                return f'the same query gives another answer after the caller overwrote the first result: {l[:200]}'
        nch = len(c['chunks'])
        sends = out[1:1 + nch]
        blocks = [parse_block(l) for l in sends]
        if out[0] != 'ok' or any(b is None for b in blocks):
            bad = next((l for l in [out[0]] + sends if not l.startswith('ok ') and l != 'ok'), '?')
            return f'no (single) event block for a chunk: {bad}'
        sizes = [len(bits_of(ch)) for ch in c['chunks']]
        # tiling: adjacent, no gap / overlap, total span = samples received
        for (s1, e1, _), (s2, e2, _) in zip(blocks, blocks[1:]):
            if e1 != s2:
                return f'blocks do not tile: [{s1},{e1}) is followed by [{s2},{e2})'
        if blocks:
            if any(e < s for s, e, _ in blocks):
                return 'block with negative span'
            if blocks[-1][1] - blocks[0][0] != sum(sizes):
                return f'blocks span {blocks[-1][1] - blocks[0][0]} samples, {sum(sizes)} were received'
        base = c['s0']
        want = [(k, p + base) for k, p in transitions(init, x) if c['detect'] in ('b', k)]
        got = [ev for _, _, evs in blocks for ev in evs]
        gotset, wantset = set(got), set(want)
        if len(gotset) != len(got):
            dup = sorted(g for g in gotset if got.count(g) > 1)[:5] if len(got) < 2000 else '...'
            return f'an event is reported more than once: {dup}'
        extra = [g for g in got if g not in wantset]
        if extra:
            return f'reported events {extra[:8]} are not transitions of the stream (true transitions {want[:12]}{"..." if len(want) > 12 else ""})'
        if got != [w for w in want if w in gotset]:
            return f'events out of order: {got[:20]}'
        # every transition followed by m further samples must have been reported, by the chunk that delivered them
        cum = list(itertools.accumulate(sizes))
        when = {}
        for j, (_, _, evs) in enumerate(blocks):
            for ev in evs:
                when[ev] = j
        for k, pabs in want:
            p = pabs - base
            due = next((j for j, ce in enumerate(cum) if ce >= p + m + 1), None)
            arrived = next(j for j, ce in enumerate(cum) if ce > p)
            if (k, pabs) in when and when[(k, pabs)] < arrived:
                return f'{k}@{pabs} reported before the sample arrived'
            if due is not None and ((k, pabs) not in when or when[(k, pabs)] > due):
                return (f'transition {k}@{pabs} not reported within {m} further samples '
                        f'(chunks {sizes}, reported in block {when.get((k, pabs))}, due by block {due})')
        # queries (on emitted blocks and, after an ...S query, on earlier query results)
        allb = list(blocks)
        for q, l in zip(c['queries'], out[1 + nch:]):
            r = parse_block(l)
            if q[0] in RANGE_OPS or q[0] in LATEST_OPS:
                if q[1] < len(allb):
                    s, e, evs = allb[q[1]]
                    a, b = (q[2], q[3]) if q[0] in RANGE_OPS else (q[2] + e, q[3] + e)
                    if r is None:
                        if s <= a and b <= e:
                            return f'{q} inside the span [{s},{e}) of the block failed: {l}'
                    else:
                        inside = [ev for ev in evs if a <= ev[1] < b]
                        if r[2] != inside or (r[0], r[1]) != (a, b):
                            return f'{q} on block [{s},{e}) {evs[:20]} returned {r}, events inside the range are {inside}'
            else:
                ks = q[1]
                if all(k < len(allb) for k in ks) and len(ks) >= 1 and all(allb[i][1] == allb[j][0] for i, j in zip(ks, ks[1:])):
                    allev = [ev for k in ks for ev in allb[k][2]]
                    if r is None:
                        return f'merging adjacent blocks {ks[:20]} failed: {l}'
                    if r[2] != allev or r[0] != allb[ks[0]][0] or r[1] != allb[ks[-1]][1]:
                        return (f'merging blocks {ks[:20]} gave [{r[0]},{r[1]}) with {len(r[2])} events {r[2][:10]}, expected span '
                                f'[{allb[ks[0]][0]},{allb[ks[-1]][1]}) with {len(allev)} events {allev[:10]}')
            if q[0].endswith('S') and r is not None:
                allb.append(r)
        return None

    def nontrivial(self, c, out):
        if c['kind'] == 'dual':
            na = len(self.model_lines(c['a']))
            return self.nontrivial(c['a'], out[:na]) and self.nontrivial(c['b'], out[na:])
        c = expand(c)
        # side channel (runs in the parent process): count events outside their block's declared span
        for l in out[1:1 + len(c['chunks'])]:
            b = parse_block(l.replace(' TS-MISMATCH', ''))
            if b:
                self.total_events += len(b[2])
                self.out_of_span += sum(1 for _, p in b[2] if not (b[0] <= p < b[1]))
        x = [b for ch in c['chunks'] for b in bits_of(ch)]
        return len(c['chunks']) >= 2 and len(runs_of([bool(c['init'])] + x)) >= 2

    def kind(self, c):
        if c['kind'] in ('dual', 'big'):
            return c['kind']
        x = [b for ch in c['chunks'] for b in bits_of(ch)]
        if c['m'] < 1:
            return 'malformed'
        tag = '+rep' if c.get('rep') else ''
        tag += '+scribble' if c.get('scrin') or c.get('scrout') else ''
        return ('clean-' if in_quantifier(bool(c['init']), x, c['m']) else 'unclean-') + c['mode'] + tag

    # ---- search / shrink -------------------------------------------------
    def neighbours(self, c, rng):
        if c['kind'] == 'dual':
            yield c['a']
            yield c['b']
            return
        c = expand(c)
        x = [b for ch in c['chunks'] for b in bits_of(ch)]
        n = len(x)
        for cut in range(1, n):
            d = dict(c)
            d['chunks'] = chunk_strings(x, cuts_to_sizes(n, [cut]))
            d['queries'] = []
            yield d
        for det in 'brf':
            d = dict(c)
            d['detect'] = det
            yield d
        if n:
            d = dict(c)
            d['chunks'] = chunk_strings(x, [1] * n)
            d['queries'] = []
            yield d

    def shrink_candidates(self, c):
        if c['kind'] == 'dual':
            yield c['a']
            yield c['b']
            for sa, sb in zip(self.shrink_candidates(c['a']), self.shrink_candidates(c['b'])):
                if sa['chunks'] == sb['chunks']:
                    yield {'kind': 'dual', 'a': sa, 'b': sb}
            return
        if c['kind'] == 'big':
            yield expand(c)
            return
        if c.get('rep'):
            for k in c['rep']:
                d = dict(c)
                d['rep'] = {a: b for a, b in c['rep'].items() if a != k}
                yield d
        if c['queries']:
            for i in range(len(c['queries'])):
                d = dict(c)
                d['queries'] = c['queries'][:i] + c['queries'][i + 1:]
                yield d
            return
        ch = c['chunks']
        # merge two neighbouring chunks
        for i in range(len(ch) - 1):
            d = dict(c)
            a, b = ch[i].replace('-', ''), ch[i + 1].replace('-', '')
            d['chunks'] = ch[:i] + [(a + b) or '-'] + ch[i + 2:]
            yield d
        # shorten a run by one sample
        x = ''.join(s.replace('-', '') for s in ch)
        sizes = [len(s.replace('-', '')) for s in ch]
        pos = 0
        for i, n in enumerate(sizes):
            for j in range(n):
                p = pos + j
                if p + 1 < len(x) and x[p] == x[p + 1]:
                    d = dict(c)
                    s = ch[i].replace('-', '')
                    d['chunks'] = ch[:i] + [(s[:j] + s[j + 1:]) or '-'] + ch[i + 1:]
                    yield d
                    break
            pos += n
        if c['mode'] != 'plain':
            d = dict(c)
            d['mode'], d['s0'] = 'plain', 0
            yield d

    def describe(self, c):
        if c['kind'] == 'dual':
            return 'two detectors, same chunk objects, alternately: A = ' + self.describe(c['a']) + ' ; B = ' + self.describe(c['b'])
        if c['kind'] == 'big':
            return f'long stream (expanded deterministically from) {c}'
        extra = ''.join(f'; {k}={c[k]}' for k in ('rep', 'scrin', 'scrout') if c.get(k))
        return extra.lstrip('; ') + (' ' if extra else '') + (f"edges(min_samples={c['m']}, initial_state={bool(c['init'])}, detect={DET[c['detect']]}, {c['mode']}, "
                f"first s0={c['s0']}, fs={c['fs']}); chunks {c['chunks']}; queries {c['queries']}")


SPEC = C13()


def main(tier, seed, replay):
    if replay:
        return framework.replay(SPEC, replay)
    rc = framework.run_check(SPEC, tier, seed)
    # keep the out-of-span observation visible in the evidence file (DESIGN §6 C13)
    path = os.path.join(C.VERIF, 'evidence', 'C13.json')
    try:
        ev = json.load(open(path))
        ev['coverage']['events_emitted'] = SPEC.total_events
        ev['coverage']['events_outside_declared_span'] = SPEC.out_of_span
        open(path, 'w').write(json.dumps(ev, indent=1, default=str) + '\n')
    except Exception:
        pass
    return rc
