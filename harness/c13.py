"""C13 — streaming edge detection (pipeline.edges, Events, combine_events).

Case = one detector life: ``new``, a list of chunks, then queries on the emitted blocks.
Model lines go to ``psidriver edges``; the same operations run on the real coroutine in-process.
"""
import itertools
import json
import os

import numpy as np

from . import common as C
from . import framework
from .framework import Spec

DET = {'r': 'rising', 'f': 'falling', 'b': 'both'}
FS_CHOICES = [1000.0, 44100.0, 3.0, 97656.25]


# ----------------------------------------------------------------------------
# reference definitions used by the oracle (the property, written directly)
# ----------------------------------------------------------------------------

def runs_of(bits):
    """run-length encoding: [(value, length)]"""
    out = []
    for b in bits:
        if out and out[-1][0] == b:
            out[-1][1] += 1
        else:
            out.append([b, 1])
    return out


def in_quantifier(init, x, m):
    """The property's precondition: every high and low run of the stream exceeds m.  The last run is
    exempt: it may still be growing, and what a causal detector has emitted so far cannot depend on
    the future, so the property of every clean continuation already fixes the output on this prefix."""
    r = runs_of(x)
    return all(l > m for _, l in r[:-1])


def transitions(init, x):
    """[(kind, index)] — positions whose value differs from its predecessor."""
    ev, prev = [], init
    for i, v in enumerate(x):
        if v and not prev:
            ev.append(('r', i))
        if prev and not v:
            ev.append(('f', i))
        prev = v
    return ev


def parse_events(s):
    if s == '-':
        return []
    out = []
    for t in s.split(','):
        k, p = t.split('@')
        out.append((k, int(p)))
    return out


def parse_block(line):
    """'ok start end events' -> (start, end, events) or None"""
    w = line.split()
    if len(w) != 4 or w[0] != 'ok':
        return None
    return int(w[1]), int(w[2]), parse_events(w[3])


def fmt_events(ev):
    return ','.join(f'{k}@{p}' for k, p in ev) if ev else '-'


def bits_of(s):
    return [] if s == '-' else [c == '1' for c in s]


def stream_from_runs(first, lengths):
    x, v = [], first
    for l in lengths:
        x += [v] * l
        v = not v
    return x


def chunk_strings(x, sizes):
    out, i = [], 0
    for n in sizes:
        out.append(''.join('1' if b else '0' for b in x[i:i + n]) or '-')
        i += n
    assert i == len(x)
    return out


def cuts_to_sizes(n, cuts):
    pts = [0] + sorted(set(c for c in cuts if 0 < c < n)) + [n]
    return [b - a for a, b in zip(pts, pts[1:])]


class C13(Spec):
    PROP = 'C13'
    MODEL = 'edges'
    PROOF_MODULES = ['PsiProofs.C13']
    DESIGN_REF = 'DESIGN.md §6 C13'
    PARALLEL = 16
    TRUST = [
        'modelled, not verified: pandas DataFrame construction / boolean row selection / pd.concat keep row order; '
        'np.tile, concat and negative slicing `samples[..., -m:]` (the model transcribes what they compute; compared on every case)',
        'util.epochs / util.debounce_epochs are the C18 model (PsiModel.Epochs), whose theorems are reused',
        'ts = sample / fs is checked on every emitted block by the harness (exact float equality with the same division), not in Lean',
        'sampling-rate mismatch branch of combine_events is not modelled (all blocks of one detector share fs)',
    ]
    ASSUMPTIONS = [
        'input is plain 1-D boolean or annotated 2-D single-channel (1, n); 1-D annotated input raises TypeError in the code and is outside the quantifier',
        'annotated chunks are contiguous in s0 (the code\'s own concat demands it)',
    ]
    _RULE = ('streams built from alternating run lengths > m (last run free), m in 1..6, both initial states, '
             'first value equal or opposite to the initial state, detect in rising/falling/both, plain and annotated (1, n) input, '
             'several first s0; chunkings: a boundary at every offset 0..m+1 before/after each edge, random compositions, '
             'single-sample chunks, one chunk, empty chunks; plus queries (get_range_samples, get_latest_samples, combine_events) '
             'on the emitted blocks, unclean random streams (correspondence only) and malformed constructions. '
             'Non-trivial = the stream has at least one transition and at least two chunks.')
    exhaustive_note = {
        'thorough': 'all streams of <= 3 runs with lengths in {m+1, m+2} (m = 1, 2; for m = 3: <= 2 runs; both initial states, both first values) '
                    'x ALL ordered compositions of the stream into chunks (every chunk boundary set)',
    }

    def __init__(self):
        self.out_of_span = 0
        self.total_events = 0

    @property
    def RULE(self):
        return (self._RULE + f' Observation (not a violation): {self.out_of_span} of {self.total_events} events emitted in this run '
                'lie outside their block\'s declared [start, end) span (rising at end, falling up to end+m-1).')

    # ---- generation ---------------------------------------------------
    def _queries(self, rng, c, nblocks, starts):
        """queries around the block spans; starts[k] = (start, end) expected of block k"""
        q = []
        if nblocks == 0:
            return q
        m = c['m']
        for _ in range(rng.randint(1, 3)):
            k = rng.randrange(nblocks)
            s, e = starts[k]
            a = rng.randint(s - 1, e + 1)
            b = rng.randint(a - 1, e + m + 1)
            q.append(['range', k, a, b])
        k = rng.randrange(nblocks)
        s, e = starts[k]
        q.append(['range', k, s, e])
        q.append(['latest', k, -rng.randint(0, e - s + 1), rng.choice([0, 0, 0, 1, -1])])
        i = rng.randrange(nblocks)
        j = rng.randint(i, min(nblocks - 1, i + 4))
        q.append(['combine', list(range(i, j + 1))])
        if rng.random() < 0.3:
            ks = [rng.randrange(nblocks) for _ in range(rng.randint(0, 3))]
            q.append(['combine', ks])
        return q

    def _mk(self, rng, m, init, first, lengths, sizes, detect=None, mode=None, s0=None, queries=True, x=None):
        if x is None:
            x = stream_from_runs(first, lengths)
        mode = mode or rng.choice(['plain', 'pd2'])
        if s0 is None:
            s0 = rng.choice([0, 100, -5, 7, 12345, 2 ** 31 - 3, 2 ** 31 + 11, 2 ** 32 + 5, 2 ** 40])   # incl. beyond 32 bits
        if mode == 'plain':
            s0 = 0
        c = {'kind': 'stream', 'm': m, 'init': int(init), 's0': s0, 'detect': detect or rng.choice('bbrf'),
             'mode': mode, 'fs': rng.choice(FS_CHOICES), 'chunks': chunk_strings(x, sizes), 'queries': []}
        if queries:
            spans, a = [], s0 - m
            for n in sizes:
                spans.append((a, a + n))
                a += n
            c['queries'] = self._queries(rng, c, len(sizes), spans)
        return c

    def _random_lengths(self, rng, m):
        k = rng.randint(1, 6)
        ls = [rng.randint(m + 1, m + 5) for _ in range(k)]
        if rng.random() < 0.5:
            ls[-1] = rng.randint(1, m + 3)        # the last run is free
        if rng.random() < 0.1:
            ls[0] = rng.randint(1, m)             # short first run: outside the quantifier, correspondence only
        return ls

    def cases(self, rng, tier):
        quick = tier == 'quick'
        # -- boundary-targeted: a chunk boundary at every offset around every edge
        reps = 3 if quick else 8
        for m in range(1, 7):
            for _ in range(reps):
                for init in (False, True):
                    ls = self._random_lengths(rng, m)
                    first = rng.choice([True, False])
                    x = stream_from_runs(first, ls)
                    n = len(x)
                    edges = [p for _, p in transitions(init, x)]
                    for p in edges:
                        for o in range(0, m + 2):
                            for side in (-1, 1):
                                cut = p + side * o
                                extra = [rng.randrange(1, n) for _ in range(rng.randint(0, 3))] if n > 1 else []
                                yield self._mk(rng, m, init, first, ls, cuts_to_sizes(n, [cut] + extra))
                                if not quick:
                                    yield self._mk(rng, m, init, first, ls, cuts_to_sizes(n, [cut, cut + 1] + extra))
                    yield self._mk(rng, m, init, first, ls, [1] * n)          # sample by sample
                    yield self._mk(rng, m, init, first, ls, [n])              # one chunk
        # -- random clean streams, random compositions (some empty chunks)
        for _ in range(3000 if quick else 20000):
            m = rng.randint(1, 6)
            init = rng.choice([True, False])
            ls = self._random_lengths(rng, m)
            first = rng.choice([True, False])
            n = sum(ls)
            sizes = rng.chunks(n, max_parts=rng.choice([2, 4, 8, n]))
            if rng.random() < 0.15:
                sizes.insert(rng.randint(0, len(sizes)), 0)
            yield self._mk(rng, m, init, first, ls, sizes)
        # -- unclean random streams: correspondence only (outside the property's quantifier unless they happen to be clean)
        for _ in range(600 if quick else 4000):
            m = rng.randint(1, 5)
            n = rng.randint(0, 24)
            p = rng.random()
            x = [rng.random() < p for _ in range(n)]
            sizes = rng.chunks(n, max_parts=6) if n else [0]
            yield self._mk(rng, m, rng.choice([True, False]), None, None, sizes, x=x)
        # -- malformed
        for m in (0, -1, -7):
            yield {'kind': 'stream', 'm': m, 'init': 0, 's0': 0, 'detect': 'b', 'mode': 'plain', 'fs': 1000.0,
                   'chunks': [], 'queries': []}
        c = self._mk(rng, 2, False, True, [3, 4, 5], [2, 3, 0, 4, 3], queries=False, mode='plain')
        c['queries'] = [['combine', []], ['combine', [0, 2]], ['combine', [1, 2, 3]], ['combine', [3, 1]],
                        ['range', 0, -3, -1], ['range', 0, -2, 0], ['range', 0, -2, 1], ['latest', 4, -3, 0],
                        ['latest', 4, -4, 0], ['latest', 4, -1, 1]]
        yield c
        # -- exhaustive small scope (thorough)
        if not quick:
            for m in (1, 2, 3):
                for k in ((1, 2, 3) if m < 3 else (1, 2)):
                    for ls in itertools.product((m + 1, m + 2), repeat=k):
                        for init in (False, True):
                            for first in (False, True):
                                x = stream_from_runs(first, ls)
                                n = len(x)
                                for mask in range(1 << (n - 1)):
                                    cuts = [i + 1 for i in range(n - 1) if mask >> i & 1]
                                    yield self._mk(rng, m, init, first, list(ls), cuts_to_sizes(n, cuts),
                                                   detect='b', mode='plain', queries=False)

    # ---- both sides ----------------------------------------------------
    def model_lines(self, c):
        lines = [f"new {c['m']} {c['init']} {c['s0']} {c['detect']}"]
        lines += [f'send {ch}' for ch in c['chunks']]
        for q in c['queries']:
            if q[0] == 'combine':
                lines.append('combine ' + (','.join(str(k) for k in q[1]) or '-'))
            else:
                lines.append(' '.join(str(v) for v in q))
        return lines

    @staticmethod
    def _fmt(ev, fs):
        df = ev.events
        kinds = list(df['event'])
        samples = [int(s) for s in df['sample']]
        line = f'ok {int(ev.start)} {int(ev.end)} ' + fmt_events([(k[0], s) for k, s in zip(kinds, samples)])
        bad = [k for k in kinds if k not in ('rising', 'falling')]
        ts = [float(t) for t in df['ts']]
        if bad or ts != [s / fs for s in samples] or ev.fs != fs:
            line += ' TS-MISMATCH'
        return line

    def impl_lines(self, c):
        from psiaudio import pipeline as P
        out, lines = [], []
        fs = c['fs']
        try:
            st = P.edges(c['m'], out.append, initial_state=bool(c['init']),
                         fs=fs if c['mode'] == 'plain' else 'auto', detect=DET[c['detect']])
            lines.append('ok')
        except ValueError:
            return ['err ValueError'] + ['bad-op'] * (len(c['chunks']) + len(c['queries']))
        s0 = c['s0']
        dead = False
        for ch in c['chunks']:
            if dead:
                lines.append('bad-op')
                continue
            a = np.array(bits_of(ch), dtype=bool)
            if c['mode'] == 'pd2':
                a = P.PipelineData(a[np.newaxis], fs, s0=s0, channel=['ttl'])
            s0 += a.shape[-1]
            k = len(out)
            try:
                st.send(a)
            except (ValueError, IndexError, TypeError) as e:
                lines.append(f'err {type(e).__name__}')
                dead = True
                continue
            if len(out) != k + 1:
                lines.append(f'ok-blocks={len(out) - k}')
                dead = True
                continue
            lines.append(self._fmt(out[-1], fs))
        for q in c['queries']:
            try:
                if q[0] == 'range':
                    r = out[q[1]].get_range_samples(q[2], q[3]) if q[1] < len(out) else None
                elif q[0] == 'latest':
                    r = out[q[1]].get_latest_samples(q[2], q[3]) if q[1] < len(out) else None
                else:
                    r = P.combine_events([out[k] for k in q[1]]) if all(k < len(out) for k in q[1]) else None
                lines.append('bad-op' if r is None else self._fmt(r, fs))
            except (ValueError, IndexError, TypeError) as e:
                lines.append(f'err {type(e).__name__}')
        return lines

    # ---- the property, on the implementation's outputs -------------------
    def oracle(self, c, out):
        m = c['m']
        if m < 1:
            return None          # outside the quantifier (debounce lengths >= 1)
        x = [b for ch in c['chunks'] for b in bits_of(ch)]
        init = bool(c['init'])
        if not in_quantifier(init, x, m):
            return None
        for l in out:
            if 'TS-MISMATCH' in l:
                return f'event times are not sample / fs, or fs not propagated: {l}'
        nch = len(c['chunks'])
        sends = out[1:1 + nch]
        blocks = [parse_block(l) for l in sends]
        if out[0] != 'ok' or any(b is None for b in blocks):
            bad = next((l for l in [out[0]] + sends if not l.startswith('ok ') and l != 'ok'), '?')
            return f'no (single) event block for a chunk: {bad}'
        sizes = [len(bits_of(ch)) for ch in c['chunks']]
        # tiling: adjacent, no gap / overlap, total span = samples received
        for (s1, e1, _), (s2, e2, _) in zip(blocks, blocks[1:]):
            if e1 != s2:
                return f'blocks do not tile: [{s1},{e1}) is followed by [{s2},{e2})'
        if blocks:
            if any(e < s for s, e, _ in blocks):
                return 'block with negative span'
            if blocks[-1][1] - blocks[0][0] != sum(sizes):
                return f'blocks span {blocks[-1][1] - blocks[0][0]} samples, {sum(sizes)} were received'
        base = c['s0']
        want = [(k, p + base) for k, p in transitions(init, x) if c['detect'] in ('b', k)]
        got = [ev for _, _, evs in blocks for ev in evs]
        if len(set(got)) != len(got):
            return f'an event is reported more than once: {got}'
        extra = [g for g in got if g not in want]
        if extra:
            return f'reported events {extra} are not transitions of the stream (true transitions {want})'
        if got != [w for w in want if w in got]:
            return f'events out of order: {got}'
        # every transition followed by m further samples must have been reported, by the chunk that delivered them
        cum = list(itertools.accumulate(sizes))
        when = {}
        for j, (_, _, evs) in enumerate(blocks):
            for ev in evs:
                when[ev] = j
        for k, pabs in want:
            p = pabs - base
            due = next((j for j, ce in enumerate(cum) if ce >= p + m + 1), None)
            arrived = next(j for j, ce in enumerate(cum) if ce > p)
            if (k, pabs) in when and when[(k, pabs)] < arrived:
                return f'{k}@{pabs} reported before the sample arrived'
            if due is not None and ((k, pabs) not in when or when[(k, pabs)] > due):
                return (f'transition {k}@{pabs} not reported within {m} further samples '
                        f'(chunks {sizes}, reported in block {when.get((k, pabs))}, due by block {due})')
        # queries
        for q, l in zip(c['queries'], out[1 + nch:]):
            if q[0] in ('range', 'latest'):
                s, e, evs = blocks[q[1]]
                a, b = (q[2], q[3]) if q[0] == 'range' else (q[2] + e, q[3] + e)
                r = parse_block(l)
                if r is None:
                    if s <= a and b <= e:
                        return f'{q} inside the span [{s},{e}) of the block failed: {l}'
                    continue
                inside = [ev for ev in evs if a <= ev[1] < b]
                if r[2] != inside or (r[0], r[1]) != (a, b):
                    return f'{q} on block [{s},{e}) {evs} returned {r}, events inside the range are {inside}'
            else:
                ks = q[1]
                adjacent = len(ks) >= 1 and all(blocks[i][1] == blocks[j][0] for i, j in zip(ks, ks[1:]))
                if not adjacent:
                    continue
                r = parse_block(l)
                allev = [ev for k in ks for ev in blocks[k][2]]
                if r is None:
                    return f'merging adjacent blocks {ks} failed: {l}'
                if r[2] != allev or r[0] != blocks[ks[0]][0] or r[1] != blocks[ks[-1]][1]:
                    return f'merging blocks {ks} gave {r}, expected span [{blocks[ks[0]][0]},{blocks[ks[-1]][1]}) events {allev}'
        return None

    def nontrivial(self, c, out):
        # side channel (runs in the parent process): count events outside their block's declared span
        for l in out[1:1 + len(c['chunks'])]:
            b = parse_block(l.replace(' TS-MISMATCH', ''))
            if b:
                self.total_events += len(b[2])
                self.out_of_span += sum(1 for _, p in b[2] if not (b[0] <= p < b[1]))
        x = [b for ch in c['chunks'] for b in bits_of(ch)]
        return len(c['chunks']) >= 2 and len(runs_of([bool(c['init'])] + x)) >= 2

    def kind(self, c):
        x = [b for ch in c['chunks'] for b in bits_of(ch)]
        if c['m'] < 1:
            return 'malformed'
        return ('clean-' if in_quantifier(bool(c['init']), x, c['m']) else 'unclean-') + c['mode']

    # ---- search / shrink -------------------------------------------------
    def neighbours(self, c, rng):
        x = [b for ch in c['chunks'] for b in bits_of(ch)]
        n = len(x)
        for cut in range(1, n):
            d = dict(c)
            d['chunks'] = chunk_strings(x, cuts_to_sizes(n, [cut]))
            d['queries'] = []
            yield d
        for det in 'brf':
            d = dict(c)
            d['detect'] = det
            yield d
        if n:
            d = dict(c)
            d['chunks'] = chunk_strings(x, [1] * n)
            d['queries'] = []
            yield d

    def shrink_candidates(self, c):
        if c['queries']:
            for i in range(len(c['queries'])):
                d = dict(c)
                d['queries'] = c['queries'][:i] + c['queries'][i + 1:]
                yield d
            return
        ch = c['chunks']
        # merge two neighbouring chunks
        for i in range(len(ch) - 1):
            d = dict(c)
            a, b = ch[i].replace('-', ''), ch[i + 1].replace('-', '')
            d['chunks'] = ch[:i] + [(a + b) or '-'] + ch[i + 2:]
            yield d
        # shorten a run by one sample
        x = ''.join(s.replace('-', '') for s in ch)
        sizes = [len(s.replace('-', '')) for s in ch]
        pos = 0
        for i, n in enumerate(sizes):
            for j in range(n):
                p = pos + j
                if p + 1 < len(x) and x[p] == x[p + 1]:
                    d = dict(c)
                    s = ch[i].replace('-', '')
                    d['chunks'] = ch[:i] + [(s[:j] + s[j + 1:]) or '-'] + ch[i + 1:]
                    yield d
                    break
            pos += n
        if c['mode'] != 'plain':
            d = dict(c)
            d['mode'], d['s0'] = 'plain', 0
            yield d

    def describe(self, c):
        return (f"edges(min_samples={c['m']}, initial_state={bool(c['init'])}, detect={DET[c['detect']]}, {c['mode']}, "
                f"first s0={c['s0']}, fs={c['fs']}); chunks {c['chunks']}; queries {c['queries']}")


SPEC = C13()


def main(tier, seed, replay):
    if replay:
        return framework.replay(SPEC, replay)
    rc = framework.run_check(SPEC, tier, seed)
    # keep the out-of-span observation visible in the evidence file (DESIGN §6 C13)
    path = os.path.join(C.VERIF, 'evidence', 'C13.json')
    try:
        ev = json.load(open(path))
        ev['coverage']['events_emitted'] = SPEC.total_events
        ev['coverage']['events_outside_declared_span'] = SPEC.out_of_span
        open(path, 'w').write(json.dumps(ev, indent=1, default=str) + '\n')
    except Exception:
        pass
    return rc
