"""Shared machinery of the psiaudio proof checks.

Every ``./check <ID>`` run does, in this order (DESIGN.md section 2):

 1. regenerate generated Lean data from /repo (only C15/C19 have any);
 2. ``lake build`` of the property's proof module and of the model driver;
 3. audit: no sorry/admit/axiom/native_decide/... in lean/, and ``#print axioms``
    of every registered theorem is a subset of {propext, Classical.choice, Quot.sound};
 4. correspondence: the executable Lean model (``psidriver``) and the real
    psiaudio code are run on the same cases and their canonical outputs diffed;
 5. the property's direct oracle is evaluated on the implementation outputs;
 6. on any break (proof, audit, correspondence) a failing-input search runs on
    the real code; found -> VIOLATION with that replay, else VIOLATION ...
    no-failing-input-found naming what no longer checks;
 7. evidence/<ID>.json is rewritten.

Exit codes: 0 held, 1 violation, 2 infrastructure failure.
"""
import hashlib
import json
import os
import random
import re
import subprocess
import sys
import time

VERIF = os.path.dirname(os.path.dirname(os.path.abspath(__file__)))
REPO = os.environ.get('PSI_REPO', '/repo')
LEAN = os.path.join(VERIF, 'lean')
DRIVER = os.path.join(LEAN, '.lake', 'build', 'bin', 'psidriver')
ACCEPTED_AXIOMS = {'propext', 'Classical.choice', 'Quot.sound'}

if REPO not in sys.path:
    sys.path.insert(0, REPO)


class Rng(random.Random):
    """Single source of randomness: everything derives from VERIF_SEED."""

    def chunks(self, n, max_parts=None):
        """Random ordered partition of n into parts >= 1."""
        if n <= 0:
            return []
        k = self.randint(1, min(n, max_parts or n))
        if k == 1:
            return [n]
        cuts = sorted(self.sample(range(1, n), k - 1))
        pts = [0] + cuts + [n]
        return [b - a for a, b in zip(pts, pts[1:])]


def seed_from_env():
    try:
        return int(os.environ.get('VERIF_SEED', '0'))
    except ValueError:
        return 0


# --------------------------------------------------------------------------
# Lean side
# --------------------------------------------------------------------------

def lake_build(targets, timeout=3000):
    """Build targets; return (ok, log)."""
    t0 = time.time()
    p = subprocess.run(['lake', 'build'] + list(targets), cwd=LEAN,
                       capture_output=True, text=True, timeout=timeout)
    return p.returncode == 0, (p.stdout + p.stderr), time.time() - t0


FORBIDDEN = re.compile(
    r'\b(sorry|admit|native_decide|bv_decide|implemented_by|unsafe)\b|^\s*axiom\s|maxHeartbeats\s+0\b')


def strip_comments(src):
    """Remove Lean block comments (nested) and line comments."""
    out = []
    i, depth, n = 0, 0, len(src)
    while i < n:
        if src.startswith('/-', i):
            depth += 1
            i += 2
        elif depth and src.startswith('-/', i):
            depth -= 1
            i += 2
        elif depth:
            if src[i] == '\n':
                out.append('\n')
            i += 1
        elif src.startswith('--', i):
            while i < n and src[i] != '\n':
                i += 1
        else:
            out.append(src[i])
            i += 1
    return ''.join(out)


def grep_forbidden():
    """Scan every .lean file of the project (outside .lake) for forbidden constructs."""
    hits = []
    for root, dirs, files in os.walk(LEAN):
        dirs[:] = [d for d in dirs if d != '.lake']
        for f in files:
            if not f.endswith('.lean'):
                continue
            path = os.path.join(root, f)
            src = strip_comments(open(path).read())
            # string literals may legitimately mention words; drop them
            src = re.sub(r'"(\\.|[^"\\])*"', '""', src)
            for ln, line in enumerate(src.split('\n'), 1):
                if FORBIDDEN.search(line):
                    hits.append(f'{os.path.relpath(path, LEAN)}:{ln}: {line.strip()[:100]}')
    return hits


def registry(prop):
    """Theorem names registered for a property: lean/registry/<ID>.txt.

    Format: one ``<module> <theorem>`` per line; '#' comments."""
    path = os.path.join(LEAN, 'registry', f'{prop}.txt')
    out = []
    for line in open(path):
        line = line.split('#')[0].strip()
        if line:
            mod, thm = line.split()
            out.append((mod, thm))
    return out


def print_axioms(entries, timeout=1200):
    """Run `#print axioms` on every registered theorem. Returns {thm: [axioms] | None(if missing)}."""
    mods = sorted({m for m, _ in entries})
    src = ''.join(f'import {m}\n' for m in mods)
    for _, t in entries:
        src += f'#print axioms {t}\n'
    tmp = os.path.join(LEAN, '.lake', f'audit_{os.getpid()}.lean')
    os.makedirs(os.path.dirname(tmp), exist_ok=True)
    open(tmp, 'w').write(src)
    try:
        p = subprocess.run(['lake', 'env', 'lean', tmp], cwd=LEAN, capture_output=True,
                           text=True, timeout=timeout)
    finally:
        os.unlink(tmp)
    text = p.stdout + p.stderr
    res = {t: None for _, t in entries}
    # "'name' depends on axioms: [a, b]" (possibly wrapped over lines) / "'name' does not depend on any axioms"
    flat = re.sub(r'\s+', ' ', text)
    for m in re.finditer(r"'([^']+)' depends on axioms: \[([^\]]*)\]", flat):
        res[m.group(1)] = [a.strip() for a in m.group(2).split(',') if a.strip()]
    for m in re.finditer(r"'([^']+)' does not depend on any axioms", flat):
        res[m.group(1)] = []
    return res, text


def leanchecker(mods, timeout=3000):
    p = subprocess.run(['lake', 'env', 'leanchecker'] + list(mods), cwd=LEAN,
                       capture_output=True, text=True, timeout=timeout)
    return p.returncode == 0, (p.stdout + p.stderr)[-2000:]


class Driver:
    """Pipe many lines through one psidriver process; one output line per input line."""

    def __init__(self, model):
        self.model = model

    def run(self, lines, timeout=1200):
        if not lines:
            return []
        for l in lines:
            assert '\n' not in l
        p = subprocess.run([DRIVER, self.model], input='\n'.join(lines) + '\n',
                           capture_output=True, text=True, timeout=timeout)
        if p.returncode != 0:
            raise RuntimeError(f'psidriver {self.model} failed: {p.stderr[-500:]}')
        out = p.stdout.split('\n')
        if out and out[-1] == '':
            out.pop()
        if len(out) != len(lines):
            raise RuntimeError(f'psidriver {self.model}: {len(lines)} lines in, {len(out)} out')
        return out


# --------------------------------------------------------------------------
# Known findings, replays, evidence
# --------------------------------------------------------------------------

def known_findings(prop):
    path = os.path.join(VERIF, 'known_findings.json')
    if not os.path.exists(path):
        return []
    data = json.load(open(path))
    return [f for f in data.get('findings', []) if f['property'] == prop]


def write_replay(prop, obj):
    d = os.path.join(VERIF, 'replays', prop)
    os.makedirs(d, exist_ok=True)
    blob = json.dumps(obj, sort_keys=True, indent=1, default=str)
    h = hashlib.sha1(blob.encode()).hexdigest()[:12]
    path = os.path.join(d, f'{h}.json')
    open(path, 'w').write(blob + '\n')
    return os.path.relpath(path, VERIF)


def case_hash(obj):
    return hashlib.sha1(json.dumps(obj, sort_keys=True, default=str).encode()).hexdigest()


def write_evidence(prop, tier, seed, coverage, assumptions, wall_s, violations, level='proof'):
    d = os.path.join(VERIF, 'evidence')
    os.makedirs(d, exist_ok=True)
    ev = {
        'property_id': prop, 'tier': tier, 'seed': seed, 'level': level,
        'coverage': coverage, 'assumptions': assumptions,
        'wall_s': round(wall_s, 2), 'violations': violations,
    }
    path = os.path.join(d, f'{prop}.json')
    tmp = path + '.tmp'
    open(tmp, 'w').write(json.dumps(ev, indent=1, default=str) + '\n')
    os.replace(tmp, path)
    return path


BASE_TRUST = [
    'Lean 4.33 kernel (thorough tier re-checks the compiled modules with leanchecker)',
    'axioms: propext, Classical.choice, Quot.sound only (checked by #print axioms on every registered theorem); no native_decide, no bv_decide, no own axioms, no sorry',
    'the Python correspondence harness (generators, canonicalisation, driver parser/printer) that ties the hand-written model to /repo',
]
