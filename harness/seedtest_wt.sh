#!/bin/sh
# seedtest_wt.sh <patch.diff> <ID> [<ID>...]: like seedtest.sh but never touches /repo: the change is applied in a
# scratch worktree of /repo's HEAD and the checks are pointed at it with PSI_REPO. Evidence files are restored.
patch="$1"; shift
cd /verif || exit 2
w=/tmp/seedwt_$$
git -C /repo worktree add -q --detach $w HEAD || exit 2
if ! git -C $w apply "$patch"; then echo "patch does not apply"; git -C /repo worktree remove --force $w; exit 2; fi
for id in "$@"; do
  cp "evidence/$id.json" "/tmp/seedwt_ev_$$_$id.json" 2>/dev/null
  out=$(PSI_REPO=$w ./check "$id" --tier ${TIER:-quick} 2>&1); rc=$?
  v=$(echo "$out" | grep '^VIOLATION' | head -1)
  case $rc in
    1) echo "CAUGHT $id: $v";;
    0) echo "MISSED $id";;
    *) echo "ERROR $id rc=$rc: $(echo "$out" | tail -2)";;
  esac
  [ -f "/tmp/seedwt_ev_$$_$id.json" ] && mv "/tmp/seedwt_ev_$$_$id.json" "evidence/$id.json"
done
git -C /repo worktree remove --force $w
