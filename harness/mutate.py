"""Systematic mutation run: how many small syntactic changes of the anchored code do the checks catch?

    python -m harness.mutate [--per-target N] [--workers W] [--seed S] [--only C14,C02] --out mutation/results.jsonl

For every target (a property and the functions it is anchored in) the AST of the library file is mutated by the
operators below (one change per mutant), the mutant is written into a scratch copy of /repo, byte-compiled, run
through the pinned test suite (only mutants that still pass it count: the interesting ones are those the tests miss),
and then the quick check of every property mapped to the target is run with PSI_REPO pointing at the copy.
One JSON line per mutant: target, operator, location, diff, suite verdict, per-check verdict (caught / missed / error).
/repo itself is never touched. Survivors are candidates for triage: equivalent, outside the property, or a gap.
"""
import argparse
import ast
import difflib
import fcntl
import json
import multiprocessing as mp
import os
import random
import shutil
import subprocess
import sys
import tempfile
import time

VERIF = os.path.dirname(os.path.dirname(os.path.abspath(__file__)))
REPO = '/repo'

# property -> [(file, [function / Class.method / Class names ...])]
TARGETS = {
    'C01': [('psiaudio/stim.py', ['envelope', '_sam_envelope', 'square_wave', 'FixedWaveform.next', 'Transform.next',
                                  'GateFactory.next', 'EnvelopeFactory.next', 'ToneFactory.next', 'SAMToneFactory.next',
                                  'SquareWaveFactory.next', 'SAMEnvelopeFactory', 'SquareWaveEnvelopeFactory',
                                  'BroadbandNoiseFactory.next', 'NotchFilterFactory', 'BandlimitedNoiseFactory.next',
                                  'repeat', 'RepeatFactory'])],
    'C09': [('psiaudio/stim.py', ['GateFactory', 'FixedWaveform', 'envelope', 'EnvelopeFactory', 'Waveform'])],
    'C02': [('psiaudio/queue.py', ['AbstractSignalQueue.pop_buffer', 'AbstractSignalQueue._pop_buffer',
                                   'AbstractSignalQueue._get_samples_waveform', 'AbstractSignalQueue._get_samples_generator',
                                   'AbstractSignalQueue.next_trial', 'AbstractSignalQueue.get_ts'])],
    'C03': [('psiaudio/queue.py', ['AbstractSignalQueue.pop_next', 'AbstractSignalQueue.pop_key',
                                   'AbstractSignalQueue.decrement_key', 'AbstractSignalQueue.remove_key',
                                   'AbstractSignalQueue.count_trials', 'AbstractSignalQueue.extend',
                                   'FIFOSignalQueue', 'InterleavedFIFOSignalQueue', 'RandomSignalQueue',
                                   'BlockedRandomSignalQueue', 'GroupedFIFOSignalQueue', 'BlockedFIFOSignalQueue'])],
    'C04': [('psiaudio/queue.py', ['AbstractSignalQueue.pause', 'AbstractSignalQueue.cancel', 'AbstractSignalQueue.requeue',
                                   'AbstractSignalQueue.resume', 'AbstractSignalQueue.rewind_samples',
                                   'AbstractSignalQueue._ends_after', 'InterleavedFIFOSignalQueue.requeue'])],
    'C05': [('psiaudio/pipeline.py', ['capture_epoch', 'extract_epochs'])],
    'C07': [('psiaudio/calibration.py', ['BaseCalibration', 'FlatCalibration', 'BaseFrequencyCalibration',
                                         'InterpCalibration', 'PointCalibration']),
            ('psiaudio/util.py', ['db', 'dbi', 'dbtopa', 'patodb'])],
    'C08': [('psiaudio/stim.py', ['tone', 'ToneFactory', 'sam_tone', 'SAMToneFactory', 'chirp', 'ClickFactory',
                                  'BroadbandNoiseFactory', 'load_wav', '_load_wav', 'apply_max_correction'])],
    'C10': [('psiaudio/stim.py', ['fast_cache', '_copy_result', 'BroadbandNoiseFactory.reset', 'BandlimitedNoiseFactory.reset',
                                  'Transform.reset', 'FixedWaveform.reset', 'NotchFilterFactory.reset']),
            ('psiaudio/queue.py', ['AbstractSignalQueue._add_source', 'AbstractSignalQueue.clone'])],
    'C11': [('psiaudio/pipeline.py', ['normalize_index', 'PipelineData', 'ensure_dim', 'dim_axis', 'concat'])],
    'C12': [('psiaudio/pipeline.py', ['rms', 'iirfilter', 'blocked', 'downsample', 'decimate', 'discard', 'derivative',
                                      'auto_th', 'event_rate', 'mc_reference', 'transform'])],
    'C13': [('psiaudio/pipeline.py', ['edges', 'Events', 'combine_events'])],
    'C14': [('psiaudio/buffer.py', ['SignalBuffer'])],
    'C16': [('psiaudio/util.py', ['csd', 'csd_to_signal', 'psd', 'phase', 'tone_conv', 'tone_power_conv', 'tone_phase_conv',
                                  'spectrum_to_band_level', 'band_to_spectrum_level', 'rms', 'rms_rfft'])],
    'C17': [('psiaudio/pipeline.py', ['reject_epochs'])],
    'C18': [('psiaudio/util.py', ['edge_rising', 'edge_falling', 'epochs', 'smooth_epochs', 'debounce_epochs', 'ts'])],
}
# further checks to run for a target (a mutant of C04's code is also C06's business, ...)
ALSO = {'C02': ['C06'], 'C04': ['C06'], 'C05': ['C06'], 'C14': ['C15'], 'C01': ['C09', 'C10'], 'C09': ['C01', 'C10'],
        'C17': ['C11'], 'C07': ['C08'], 'C03': ['C04'], 'C13': ['C12'], 'C10': ['C01', 'C09'], 'C08': ['C01']}
# run 1 triage: (C03) InterleavedFIFOSignalQueue.requeue belongs to C04; (C13) Events is also what event_rate consumes

SWAP_CMP = {ast.Lt: ast.LtE, ast.LtE: ast.Lt, ast.Gt: ast.GtE, ast.GtE: ast.Gt, ast.Eq: ast.NotEq, ast.NotEq: ast.Eq}


def find_targets(tree, names):
    """AST nodes (FunctionDef / ClassDef) named by `names` ('f', 'Class', 'Class.method')."""
    out = []
    for node in tree.body:
        if isinstance(node, (ast.FunctionDef, ast.ClassDef)) and node.name in names:
            out.append(node)
        if isinstance(node, ast.ClassDef):
            for sub in node.body:
                if isinstance(sub, ast.FunctionDef) and f'{node.name}.{sub.name}' in names:
                    out.append(sub)
    return out


class Mutator(ast.NodeTransformer):
    """Applies exactly one mutation: the k-th candidate site."""

    def __init__(self, k=None):
        self.k = k
        self.count = 0
        self.applied = None

    def site(self, desc):
        hit = self.k is not None and self.count == self.k
        self.count += 1
        if hit:
            self.applied = desc
        return hit

    def visit_Compare(self, node):
        self.generic_visit(node)
        if len(node.ops) == 1 and type(node.ops[0]) in SWAP_CMP:
            if self.site(f'compare {type(node.ops[0]).__name__}->{SWAP_CMP[type(node.ops[0])].__name__} line {node.lineno}'):
                node.ops = [SWAP_CMP[type(node.ops[0])]()]
        return node

    def visit_BinOp(self, node):
        self.generic_visit(node)
        strs = any(isinstance(x, (ast.JoinedStr,)) or (isinstance(x, ast.Constant) and isinstance(x.value, str))
                   for x in (node.left, node.right))
        if isinstance(node.op, (ast.Add, ast.Sub)) and not strs:
            new = ast.Sub if isinstance(node.op, ast.Add) else ast.Add
            if self.site(f'binop {type(node.op).__name__}->{new.__name__} line {node.lineno}'):
                node.op = new()
        return node

    def visit_Constant(self, node):
        if isinstance(node.value, int) and not isinstance(node.value, bool) and abs(node.value) < 1000:
            if self.site(f'const {node.value}->{node.value + 1} line {node.lineno}'):
                return ast.copy_location(ast.Constant(node.value + 1), node)
        return node

    def visit_Call(self, node):
        self.generic_visit(node)
        if isinstance(node.func, ast.Name) and node.func.id in ('min', 'max'):
            other = 'max' if node.func.id == 'min' else 'min'
            if self.site(f'call {node.func.id}->{other} line {node.lineno}'):
                node.func = ast.copy_location(ast.Name(other, ast.Load()), node.func)
        elif isinstance(node.func, ast.Name) and node.func.id == 'round' and len(node.args) == 1:
            if self.site(f'call round->int line {node.lineno}'):
                node.func = ast.copy_location(ast.Name('int', ast.Load()), node.func)
        return node

    def visit_If(self, node):
        self.generic_visit(node)
        if self.site(f'if-negate line {node.lineno}'):
            node.test = ast.copy_location(ast.UnaryOp(ast.Not(), node.test), node.test)
        return node

    def _self_target(self, t):
        return isinstance(t, ast.Attribute) and isinstance(t.value, ast.Name) and t.value.id == 'self'

    def visit_Assign(self, node):
        self.generic_visit(node)
        if len(node.targets) == 1 and self._self_target(node.targets[0]):
            if self.site(f'delete-stmt self.{node.targets[0].attr} = ... line {node.lineno}'):
                return ast.copy_location(ast.Pass(), node)
        return node

    def visit_AugAssign(self, node):
        self.generic_visit(node)
        if self.site(f'delete-stmt augassign line {node.lineno}'):
            return ast.copy_location(ast.Pass(), node)
        return node


def mutants_of(src, names):
    """[(description, mutated source)] for every candidate site inside the named functions/classes."""
    tree = ast.parse(src)
    lines = src.split('\n')
    out = []
    for tnode in find_targets(tree, names):
        seg = '\n'.join(lines[tnode.lineno - 1:tnode.end_lineno])
        indent = len(lines[tnode.lineno - 1]) - len(lines[tnode.lineno - 1].lstrip())
        import textwrap
        sub = ast.parse(textwrap.dedent(seg))
        counter = Mutator()
        counter.visit(ast.parse(textwrap.dedent(seg)))
        for k in range(counter.count):
            m = Mutator(k)
            new = m.visit(ast.parse(textwrap.dedent(seg)))
            ast.fix_missing_locations(new)
            try:
                text = ast.unparse(new)
            except Exception:
                continue
            text = textwrap.indent(text, ' ' * indent)
            # keep decorators: ast.unparse prints them; node.lineno excludes decorator lines
            first = tnode.lineno - 1
            if getattr(tnode, 'decorator_list', None):
                first = min(d.lineno for d in tnode.decorator_list) - 1
            mutated = '\n'.join(lines[:first] + text.split('\n') + lines[tnode.end_lineno:])
            # description carries the line relative to the file
            desc = m.applied.replace('line ', f'{tnode.name}+') if m.applied else '?'
            out.append((f'{tnode.name}: {desc}', mutated))
    return out


def run(cmd, cwd, env=None, timeout=900):
    try:
        p = subprocess.run(cmd, cwd=cwd, env=env, capture_output=True, text=True, timeout=timeout)
        return p.returncode, p.stdout + p.stderr
    except subprocess.TimeoutExpired:
        return 124, 'TIMEOUT'


def suite_passes(repo):
    env = dict(os.environ, PYTHONPATH=repo, PYTHONDONTWRITEBYTECODE='1')
    rc, out = run(['/venv/bin/python', '-m', 'pytest', '-q', '-p', 'no:cacheprovider', '--timeout=300',
                   '--continue-on-collection-errors', '-n', '2'], repo, env, timeout=900)
    last = out.strip().split('\n')[-1] if out.strip() else ''
    return ('192 passed' in last), last[-120:]


def check(prop, repo):
    """Run a quick check against `repo` under a per-property lock. Returns (verdict, detail)."""
    lock = open(os.path.join(tempfile.gettempdir(), f'psimut_{prop}.lock'), 'w')
    fcntl.flock(lock, fcntl.LOCK_EX)
    try:
        ev = os.path.join(VERIF, 'evidence', f'{prop}.json')
        keep = open(ev).read() if os.path.exists(ev) else None
        env = dict(os.environ, PSI_REPO=repo, VERIF_SEED=str(random.randint(0, 5)))
        rc, out = run(['./check', prop, '--tier', 'quick'], VERIF, env, timeout=1500)
        if keep is not None:
            open(ev, 'w').write(keep)
        v = [l for l in out.split('\n') if l.startswith('VIOLATION')]
        detail = v[0] if v else out.strip().split('\n')[-1][-160:]
        verdict = {0: 'missed', 1: 'caught'}.get(rc, f'error{rc}')
        if rc == 1 and v and 'no-failing-input-found' in v[0]:
            verdict = 'caught-no-input'
        return verdict, detail
    finally:
        fcntl.flock(lock, fcntl.LOCK_UN)
        lock.close()


def work(job):
    prop, relfile, desc, mutated, orig = job
    t0 = time.time()
    d = tempfile.mkdtemp(prefix='psimut_')
    repo = os.path.join(d, 'repo')
    rec = {'target': prop, 'file': relfile, 'mutation': desc}
    try:
        shutil.copytree(REPO, repo, ignore=shutil.ignore_patterns('.git', '__pycache__', '*.pyc', '.pytest_cache'))
        open(os.path.join(repo, relfile), 'w').write(mutated)
        norm = lambda t: ast.unparse(ast.parse(t)).split('\n')      # formatting-insensitive diff
        rec['diff'] = [l for l in difflib.unified_diff(norm(orig), norm(mutated), lineterm='', n=0)][2:10]
        rc, out = run(['/venv/bin/python', '-m', 'py_compile', os.path.join(repo, relfile)], repo)
        if rc != 0:
            rec['suite'] = 'does-not-compile'
            return rec
        ok, last = suite_passes(repo)
        rec['suite'] = 'pass' if ok else 'fail'
        rec['suite_tail'] = last
        if not ok:
            return rec
        rec['checks'] = {}
        for p in [prop] + ALSO.get(prop, []):
            v, detail = check(p, repo)
            rec['checks'][p] = {'verdict': v, 'detail': detail}
        own = rec['checks'][prop]['verdict']
        rec['killed_by'] = [p for p, r in rec['checks'].items() if r['verdict'].startswith('caught')]
        rec['survived'] = not rec['killed_by']
        return rec
    except Exception as e:  # noqa
        rec['error'] = f'{type(e).__name__}: {e}'
        return rec
    finally:
        rec['wall_s'] = round(time.time() - t0, 1)
        shutil.rmtree(d, ignore_errors=True)


def main():
    ap = argparse.ArgumentParser()
    ap.add_argument('--per-target', type=int, default=25)
    ap.add_argument('--workers', type=int, default=6)
    ap.add_argument('--seed', type=int, default=0)
    ap.add_argument('--only', default='')
    ap.add_argument('--out', default='mutation/results.jsonl')
    a = ap.parse_args()
    rng = random.Random(a.seed)
    jobs = []
    only = set(a.only.split(',')) if a.only else None
    for prop, files in TARGETS.items():
        if only and prop not in only:
            continue
        cands = []
        for relfile, names in files:
            src = open(os.path.join(REPO, relfile)).read()
            for desc, mutated in mutants_of(src, names):
                if mutated != src:
                    cands.append((prop, relfile, desc, mutated, src))
        rng.shuffle(cands)
        jobs += cands[:a.per_target]
        print(f'{prop}: {len(cands)} candidate mutants, {min(len(cands), a.per_target)} selected', flush=True)
    rng.shuffle(jobs)
    os.makedirs(os.path.dirname(os.path.join(VERIF, a.out)), exist_ok=True)
    outp = os.path.join(VERIF, a.out)
    n = 0
    with mp.get_context('fork').Pool(a.workers) as pool, open(outp, 'a') as f:
        for rec in pool.imap_unordered(work, jobs):
            n += 1
            f.write(json.dumps(rec) + '\n')
            f.flush()
            print(f"[{n}/{len(jobs)}] {rec['target']} {rec['mutation']} suite={rec.get('suite')} "
                  f"killed_by={rec.get('killed_by')} {rec.get('error', '')}", flush=True)


if __name__ == '__main__':
    main()
