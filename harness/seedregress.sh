#!/bin/sh
# seedregress.sh: re-run every filed seeded change against the current harness (scratch worktrees, /repo untouched).
# Prints one line per seed; exit status = number of seeds no check catches.
cd /verif || exit 2
miss=0
for d in seeded/*/; do
  n=$(basename $d)
  id=$(echo $n | cut -d- -f1)
  extra=""
  case $n in C03-r2-2) id=C10;; C08-r2-1) id=C07;; esac
  r=$(./harness/seedtest_wt.sh /verif/seeded/$n/patch.diff $id 2>&1 | head -1 | cut -c1-60)
  echo "$n: $r"
  case "$r" in CAUGHT*) ;; *) miss=$((miss+1));; esac
done
echo "not caught: $miss"
exit $miss
