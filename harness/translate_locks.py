"""C15 translator: lock footprint of SignalBuffer (psiaudio/buffer.py) -> lean/PsiGen/Locks.lean.

    python -m harness.translate_locks

For every method of ``SignalBuffer`` the body is turned into a list of tokens in program
(evaluation) order:

    acq / rel      entering / leaving a ``with self._lock:`` block (nesting depth d of DESIGN §6 =
                   number of unmatched acq)
    read f         load of ``self.f``
    write f        store to ``self.f``, to ``self.f[...]`` (subscript store), augmented assignment
                   (read + write), or an in-place mutator call ``self.f.fill(...)``
    call m         ``self.m(...)`` where m is a method of the class (arguments first)

where f ranges over the *mutable shared fields*: attributes of ``self`` assigned in some method
other than ``__init__``.  Over-approximations (they can only make a method look *less* atomic):
both arms of an ``if`` are emitted one after the other, loop bodies twice (a lock span inside a loop
is several spans), ``try`` bodies, handlers and ``finally`` in sequence.
"""
import ast
import os
import sys

from . import common as C

CLASS = 'SignalBuffer'
LOCK = '_lock'
OUT = os.path.join(C.LEAN, 'PsiGen', 'Locks.lean')
MUTATORS = {'fill', 'sort', 'put', 'itemset', 'resize', 'partition', 'setfield', 'byteswap', 'clear',
            'append', 'extend', 'pop', 'insert', 'remove', 'update', 'setflags'}


class Unsupported(Exception):
    pass


def is_self_attr(node, name=None):
    return (isinstance(node, ast.Attribute) and isinstance(node.value, ast.Name) and node.value.id == 'self'
            and (name is None or node.attr == name))


def find_class(tree):
    for n in tree.body:
        if isinstance(n, ast.ClassDef) and n.name == CLASS:
            return n
    raise Unsupported(f'class {CLASS} not found')


def mutable_fields(cls):
    """Attributes of self stored to (plainly, augmented, or through a subscript) outside __init__."""
    out = set()
    for fn in cls.body:
        if not isinstance(fn, (ast.FunctionDef, ast.AsyncFunctionDef)) or fn.name == '__init__':
            continue
        for n in ast.walk(fn):
            targets = []
            if isinstance(n, ast.Assign):
                targets = n.targets
            elif isinstance(n, (ast.AugAssign, ast.AnnAssign)):
                targets = [n.target]
            elif isinstance(n, ast.Delete):
                targets = n.targets
            elif isinstance(n, (ast.For, ast.AsyncFor)):
                targets = [n.target]
            elif isinstance(n, ast.withitem) and n.optional_vars is not None:
                targets = [n.optional_vars]
            for t in targets:
                for e in ast.walk(t):
                    if is_self_attr(e) and isinstance(e.ctx, (ast.Store, ast.Del)):
                        out.add(e.attr)
                    elif isinstance(e, ast.Subscript) and isinstance(e.ctx, (ast.Store, ast.Del)):
                        b = e.value
                        while isinstance(b, ast.Subscript):
                            b = b.value
                        if is_self_attr(b):
                            out.add(b.attr)
    out.discard(LOCK)
    return sorted(out)


class Footprint(ast.NodeVisitor):
    def __init__(self, fields, methods):
        self.fields = fields
        self.methods = methods
        self.toks = []

    # ---- statements ---------------------------------------------------------
    def visit_With(self, node):
        n_lock = 0
        for item in node.items:
            if is_self_attr(item.context_expr, LOCK):
                self.toks.append(('acq',))
                n_lock += 1
            else:
                self.visit(item.context_expr)
            if item.optional_vars is not None:
                self._store(item.optional_vars)
        for s in node.body:
            self.visit(s)
        for _ in range(n_lock):
            self.toks.append(('rel',))

    def visit_AsyncWith(self, node):
        raise Unsupported('async with')

    def visit_Assign(self, node):
        self.visit(node.value)
        for t in node.targets:
            self._store(t)

    def visit_AnnAssign(self, node):
        if node.value is not None:
            self.visit(node.value)
            self._store(node.target)

    def visit_AugAssign(self, node):
        t = node.target
        if is_self_attr(t):
            self._field('read', t.attr)
            self.visit(node.value)
            self._field('write', t.attr)
        elif isinstance(t, ast.Subscript):
            self.visit(t.value)
            self.visit(t.slice)
            self.visit(node.value)
            self._store(t)
        else:
            self.visit(node.value)

    def visit_Delete(self, node):
        for t in node.targets:
            self._store(t)

    def _loop(self, node, head):
        head()
        for _ in range(2):             # a lock span inside a loop is (at least) two spans
            for s in node.body:
                self.visit(s)
        for s in node.orelse:
            self.visit(s)

    def visit_For(self, node):
        self._loop(node, lambda: (self.visit(node.iter), self._store(node.target)))

    def visit_While(self, node):
        self._loop(node, lambda: self.visit(node.test))

    def visit_FunctionDef(self, node):
        pass                            # nested definitions are not executed here

    visit_AsyncFunctionDef = visit_FunctionDef
    visit_Lambda = visit_FunctionDef
    visit_ClassDef = visit_FunctionDef

    # ---- expressions -----------------------------------------------------------
    def _field(self, kind, name):
        if name in self.fields:
            self.toks.append((kind, self.fields.index(name)))

    def _store(self, t):
        if is_self_attr(t):
            self._field('write', t.attr)
        elif isinstance(t, ast.Subscript):
            b = t.value
            while isinstance(b, ast.Subscript):
                self.visit(b.slice)
                b = b.value
            self.visit(t.slice)
            if is_self_attr(b):
                self._field('write', b.attr)
            else:
                self.visit(b)
        elif isinstance(t, (ast.Tuple, ast.List)):
            for e in t.elts:
                self._store(e)
        elif isinstance(t, ast.Starred):
            self._store(t.value)
        elif isinstance(t, ast.Attribute):
            self.visit(t.value)

    def visit_Attribute(self, node):
        if is_self_attr(node):
            if isinstance(node.ctx, ast.Load):
                if node.attr == LOCK:
                    # the lock object used other than in `with self._lock:` (acquire()/release() calls,
                    # passing it around): not modelled
                    raise Unsupported(f'line {node.lineno}: self.{LOCK} used outside a with statement')
                self._field('read', node.attr)
            else:
                self._field('write', node.attr)
        else:
            self.visit(node.value)

    def visit_Call(self, node):
        f = node.func
        if is_self_attr(f) and f.attr in self.methods:
            for a in node.args:
                self.visit(a)
            for k in node.keywords:
                self.visit(k.value)
            self.toks.append(('call', self.methods.index(f.attr)))
            return
        if isinstance(f, ast.Attribute) and is_self_attr(f.value) and f.attr in MUTATORS:
            for a in node.args:
                self.visit(a)
            for k in node.keywords:
                self.visit(k.value)
            self._field('read', f.value.attr)
            self._field('write', f.value.attr)
            return
        self.generic_visit(node)


def translate(repo=None):
    repo = repo or C.REPO
    path = os.path.join(repo, 'psiaudio', 'buffer.py')
    tree = ast.parse(open(path).read(), path)
    cls = find_class(tree)
    fields = mutable_fields(cls)
    fns = [n for n in cls.body if isinstance(n, (ast.FunctionDef, ast.AsyncFunctionDef))]
    names = [f.name for f in fns]
    methods = []
    for f in fns:
        fp = Footprint(fields, names)
        for s in f.body:
            fp.visit(s)
        methods.append(fp.toks)
    return {'path': path, 'fields': fields, 'names': names, 'methods': methods,
            'lines': {f.name: f.lineno for f in fns}}


def tok_lean(t, fields, names):
    if t[0] in ('acq', 'rel'):
        return '.' + t[0]
    return f'.{t[0]} {t[1]}'


def render(d):
    out = ['import PsiModel.Conc',
           '/-! GENERATED by harness/translate_locks.py from psiaudio/buffer.py — do not edit.',
           f'Lock footprint of every method of `{CLASS}`; fields: ' +
           ', '.join(f'{i} = {f}' for i, f in enumerate(d['fields'])) + '. -/',
           'namespace Psi.Gen.Locks', 'open Psi.Conc', '']
    out.append('def fields : List String := [' + ', '.join(f'"{f}"' for f in d['fields']) + ']')
    out.append('def names : List String := [' + ', '.join(f'"{n}"' for n in d['names']) + ']')
    for i, (n, toks) in enumerate(zip(d['names'], d['methods'])):
        pretty = ' '.join(t[0] if len(t) == 1 else
                          (f'{t[0]}:{d["fields"][t[1]]}' if t[0] != 'call' else f'call:{d["names"][t[1]]}')
                          for t in toks)
        out.append(f'/-- method {i} `{n}` (line {d["lines"][n]}): {pretty or "(no shared state)"} -/')
        out.append(f'def m{i} : List Tok := [' + ', '.join(tok_lean(t, d['fields'], d['names']) for t in toks) + ']')
    out.append('def methods : List (List Tok) := [' + ', '.join(f'm{i}' for i in range(len(d['methods']))) + ']')
    out.append('')
    out.append('end Psi.Gen.Locks')
    return '\n'.join(out) + '\n'


def main():
    from .translate_names import write_if_changed
    d = translate()
    changed = write_if_changed(OUT, render(d))
    print(f'translate_locks: {len(d["names"])} methods, fields {d["fields"]} -> '
          f'{os.path.relpath(OUT, C.VERIF)}{"" if changed else " (unchanged)"}')
    return 0


if __name__ == '__main__':
    sys.exit(main())
