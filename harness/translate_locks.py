"""C15 translator: lock footprint of SignalBuffer (psiaudio/buffer.py) -> lean/PsiGen/Locks.lean.

    python -m harness.translate_locks

For every method of ``SignalBuffer`` the body is turned into a list of tokens in program
(evaluation) order:

    acq / rel      entering / leaving a ``with self._lock:`` block (nesting depth d of DESIGN §6 =
                   number of unmatched acq)
    read f         load of ``self.f``
    write f        store to ``self.f``, to ``self.f[...]`` (subscript store), augmented assignment
                   (read + write), or an in-place mutator call ``self.f.fill(...)``
    call m         ``self.m(...)`` where m is a method of the class (arguments first)

where f ranges over the *mutable shared fields*: attributes of ``self`` assigned in some method
other than ``__init__``.  Over-approximations (they can only make a method look *less* atomic):
both arms of an ``if`` are emitted one after the other, loop bodies twice (a lock span inside a loop
is several spans), ``try`` bodies, handlers and ``finally`` in sequence.

The table is only meaningful if every access to the shared state is visible in it and the lock is the lock
the model assumes.  Whatever could hide an access or change the lock raises ``Unsupported`` (the check then
reports that nothing is proved about this tree and searches the real class for a torn read):
  * ``self._lock`` must be bound exactly once, in ``__init__``, to ``threading.RLock()``; any other store,
    load (``acquire()``/``release()``, aliasing) or use outside ``with self._lock:`` is rejected;
  * ``self`` may only occur as ``self.<attr>``: passing it to a helper, aliasing it, ``getattr(self, ...)``,
    ``vars(self)`` would move accesses out of sight;
  * ``self.m(...)``/``self.m`` where ``m`` is not defined in the class body (inherited, injected), base classes,
    decorators other than ``property``, ``__getattr__``-style hooks, nested functions / lambdas / generator
    expressions that use ``self`` (they run later, possibly after the lock was released), ``yield``;
  * module-level statements that mention the class after its definition (monkey-patching).
"""
import ast
import os
import sys

from . import common as C

CLASS = 'SignalBuffer'
LOCK = '_lock'
OUT = os.path.join(C.LEAN, 'PsiGen', 'Locks.lean')
MUTATORS = {'fill', 'sort', 'put', 'itemset', 'resize', 'partition', 'setfield', 'byteswap', 'clear',
            'append', 'extend', 'pop', 'insert', 'remove', 'update', 'setflags'}


class Unsupported(Exception):
    pass


def is_self_attr(node, name=None):
    return (isinstance(node, ast.Attribute) and isinstance(node.value, ast.Name) and node.value.id == 'self'
            and (name is None or node.attr == name))


def find_class(tree):
    for n in tree.body:
        if isinstance(n, ast.ClassDef) and n.name == CLASS:
            return n
    raise Unsupported(f'class {CLASS} not found')


HOOKS = {'__getattr__', '__getattribute__', '__setattr__', '__delattr__', '__init_subclass__', '__new__',
         '__enter__', '__exit__', '__del__'}


def rlock_names(tree):
    """Expressions that denote threading.RLock at module level: ('attr', <module alias>) / ('name', <alias>)."""
    out = set()
    for n in tree.body:
        if isinstance(n, ast.Import):
            for a in n.names:
                if a.name == 'threading':
                    out.add(('attr', a.asname or 'threading'))
        elif isinstance(n, ast.ImportFrom) and n.module == 'threading' and n.level == 0:
            for a in n.names:
                if a.name == 'RLock':
                    out.add(('name', a.asname or 'RLock'))
    return out


def check_structure(tree, cls):
    """The assumptions under which the token table describes the class (see the module docstring)."""
    if any(not (isinstance(b, ast.Name) and b.id == 'object') for b in cls.bases) or cls.keywords:
        raise Unsupported(f'line {cls.lineno}: {CLASS} has base classes / a metaclass (inherited code is not modelled)')
    if cls.decorator_list:
        raise Unsupported(f'line {cls.lineno}: {CLASS} is decorated')
    rl = rlock_names(tree)
    # names that must keep their module-level meaning
    guarded = {a for _, a in rl} | {CLASS}
    seen_class = False
    for n in tree.body:
        if n is cls:
            seen_class = True
            continue
        binds = set()
        if isinstance(n, (ast.Import, ast.ImportFrom)):
            binds = {(a.asname or a.name).split('.')[0] for a in n.names}
            if isinstance(n, ast.Import) and all(a.name == 'threading' for a in n.names):
                binds = set()
            if isinstance(n, ast.ImportFrom) and n.module == 'threading' and n.level == 0:
                binds -= {a.asname or a.name for a in n.names if a.name == 'RLock'}
        elif isinstance(n, (ast.FunctionDef, ast.AsyncFunctionDef, ast.ClassDef)):
            binds = {n.name}
        else:
            binds = {e.id for e in ast.walk(n) if isinstance(e, ast.Name) and isinstance(e.ctx, (ast.Store, ast.Del))}
        if binds & guarded:
            raise Unsupported(f'line {n.lineno}: module level rebinds {sorted(binds & guarded)}')
        if seen_class and any(isinstance(e, ast.Name) and e.id == CLASS for e in ast.walk(n)):
            raise Unsupported(f'line {n.lineno}: module-level code uses {CLASS} after its definition')
    # the class body: plain methods only
    inits = 0
    for n in cls.body:
        if isinstance(n, (ast.FunctionDef, ast.AsyncFunctionDef)):
            if isinstance(n, ast.AsyncFunctionDef):
                raise Unsupported(f'line {n.lineno}: async method {n.name}')
            if n.name in HOOKS or n.name == LOCK:
                raise Unsupported(f'line {n.lineno}: {CLASS} defines {n.name}')
            for dec in n.decorator_list:
                if not (isinstance(dec, ast.Name) and dec.id == 'property'):
                    raise Unsupported(f'line {n.lineno}: decorator on {n.name} (only @property is understood)')
            if not n.args.args or n.args.args[0].arg != 'self':
                raise Unsupported(f'line {n.lineno}: first parameter of {n.name} is not `self`')
            for e in ast.walk(n):
                if isinstance(e, (ast.Yield, ast.YieldFrom, ast.Await)):
                    raise Unsupported(f'line {e.lineno}: {n.name} is a generator / coroutine')
                if isinstance(e, (ast.Global, ast.Nonlocal)) and set(e.names) & guarded:
                    raise Unsupported(f'line {e.lineno}: {n.name} rebinds {sorted(set(e.names) & guarded)}')
                if isinstance(e, ast.Name) and isinstance(e.ctx, (ast.Store, ast.Del)) and e.id in (guarded - {CLASS}) | {'self'}:
                    raise Unsupported(f'line {e.lineno}: {n.name} rebinds {e.id}')
                if isinstance(e, ast.arg) and e is not n.args.args[0] and e.arg in (guarded - {CLASS}) | {'self'}:
                    raise Unsupported(f'line {n.lineno}: a parameter of {n.name} shadows {e.arg}')
        elif isinstance(n, ast.Expr) and isinstance(n.value, ast.Constant):
            pass                                    # docstring
        elif isinstance(n, ast.Pass):
            pass
        else:
            # class-level assignments could inject callables or a shared `_lock`
            names = {e.id for e in ast.walk(n) if isinstance(e, ast.Name) and isinstance(e.ctx, ast.Store)}
            simple = isinstance(n, (ast.Assign, ast.AnnAssign)) and isinstance(getattr(n, 'value', None), ast.Constant)
            if not simple or LOCK in names:
                raise Unsupported(f'line {n.lineno}: statement in the body of {CLASS} other than a method or a constant')
    # the lock: bound once, in __init__, at the top level of its body, to threading.RLock()
    for fn in cls.body:
        if not isinstance(fn, ast.FunctionDef):
            continue
        for e in ast.walk(fn):
            if is_self_attr(e, LOCK) and isinstance(e.ctx, (ast.Store, ast.Del)):
                ok = False
                if fn.name == '__init__':
                    for st in fn.body:
                        if (isinstance(st, ast.Assign) and len(st.targets) == 1 and st.targets[0] is e
                                and isinstance(st.value, ast.Call) and not st.value.args and not st.value.keywords):
                            f = st.value.func
                            if isinstance(f, ast.Attribute) and f.attr == 'RLock' and isinstance(f.value, ast.Name) \
                                    and ('attr', f.value.id) in rl:
                                ok = True
                            if isinstance(f, ast.Name) and ('name', f.id) in rl:
                                ok = True
                if not ok:
                    raise Unsupported(f'line {e.lineno}: self.{LOCK} is bound in {fn.name} to something other than '
                                      f'a fresh threading.RLock() (or outside __init__)')
                inits += 1
    if inits != 1:
        raise Unsupported(f'self.{LOCK} is bound {inits} times (expected exactly once, in __init__)')


def mutable_fields(cls):
    """Attributes of self stored to (plainly, augmented, or through a subscript) outside __init__."""
    out = set()
    for fn in cls.body:
        if not isinstance(fn, (ast.FunctionDef, ast.AsyncFunctionDef)) or fn.name == '__init__':
            continue
        for n in ast.walk(fn):
            targets = []
            if isinstance(n, ast.Assign):
                targets = n.targets
            elif isinstance(n, (ast.AugAssign, ast.AnnAssign)):
                targets = [n.target]
            elif isinstance(n, ast.Delete):
                targets = n.targets
            elif isinstance(n, (ast.For, ast.AsyncFor)):
                targets = [n.target]
            elif isinstance(n, ast.withitem) and n.optional_vars is not None:
                targets = [n.optional_vars]
            for t in targets:
                for e in ast.walk(t):
                    if is_self_attr(e) and isinstance(e.ctx, (ast.Store, ast.Del)):
                        out.add(e.attr)
                    elif isinstance(e, ast.Subscript) and isinstance(e.ctx, (ast.Store, ast.Del)):
                        b = e.value
                        while isinstance(b, ast.Subscript):
                            b = b.value
                        if is_self_attr(b):
                            out.add(b.attr)
    out.discard(LOCK)
    return sorted(out)


class Footprint(ast.NodeVisitor):
    def __init__(self, fields, methods, properties=(), data_attrs=(), in_init=False):
        self.fields = fields
        self.methods = methods
        self.properties = set(properties)
        self.data_attrs = set(data_attrs)       # attributes of self assigned somewhere in the class (plain data)
        self.in_init = in_init
        self.toks = []

    # ---- statements ---------------------------------------------------------
    def visit_With(self, node):
        n_lock = 0
        for item in node.items:
            if is_self_attr(item.context_expr, LOCK):
                self.toks.append(('acq',))
                n_lock += 1
            else:
                self.visit(item.context_expr)
            if item.optional_vars is not None:
                self._store(item.optional_vars)
        for s in node.body:
            self.visit(s)
        for _ in range(n_lock):
            self.toks.append(('rel',))

    def visit_AsyncWith(self, node):
        raise Unsupported('async with')

    def visit_Assign(self, node):
        self.visit(node.value)
        for t in node.targets:
            self._store(t)

    def visit_AnnAssign(self, node):
        if node.value is not None:
            self.visit(node.value)
            self._store(node.target)

    def visit_AugAssign(self, node):
        t = node.target
        if is_self_attr(t):
            self._field('read', t.attr)
            self.visit(node.value)
            self._field('write', t.attr)
        elif isinstance(t, ast.Subscript):
            self.visit(t.value)
            self.visit(t.slice)
            self.visit(node.value)
            self._store(t)
        else:
            self.visit(node.value)

    def visit_Delete(self, node):
        for t in node.targets:
            self._store(t)

    def _loop(self, node, head):
        head()
        for _ in range(2):             # a lock span inside a loop is (at least) two spans
            for s in node.body:
                self.visit(s)
        for s in node.orelse:
            self.visit(s)

    def visit_For(self, node):
        self._loop(node, lambda: (self.visit(node.iter), self._store(node.target)))

    def visit_While(self, node):
        self._loop(node, lambda: self.visit(node.test))

    def visit_FunctionDef(self, node):
        # nested definitions are not executed here — and must not touch the object later, out of sight
        for e in ast.walk(node):
            if isinstance(e, ast.Name) and e.id == 'self':
                raise Unsupported(f'line {node.lineno}: a nested function / lambda / class uses self')

    visit_AsyncFunctionDef = visit_FunctionDef
    visit_Lambda = visit_FunctionDef
    visit_ClassDef = visit_FunctionDef

    def visit_GeneratorExp(self, node):
        # evaluated lazily: only the first iterable is computed here
        for e in ast.walk(node):
            if isinstance(e, ast.Name) and e.id == 'self':
                raise Unsupported(f'line {node.lineno}: a generator expression uses self (evaluated later)')

    def visit_Name(self, node):
        if node.id == 'self':
            # every legitimate occurrence (`self.<attr>`) is consumed by visit_Attribute/_store/visit_Call
            raise Unsupported(f'line {node.lineno}: self escapes (used other than as self.<attribute>)')

    # ---- expressions -----------------------------------------------------------
    def _field(self, kind, name):
        if name in self.fields:
            self.toks.append((kind, self.fields.index(name)))

    def _store(self, t):
        if is_self_attr(t):
            self._field('write', t.attr)
        elif isinstance(t, ast.Subscript):
            b = t.value
            while isinstance(b, ast.Subscript):
                self.visit(b.slice)
                b = b.value
            self.visit(t.slice)
            if is_self_attr(b):
                self._field('write', b.attr)
            else:
                self.visit(b)
        elif isinstance(t, (ast.Tuple, ast.List)):
            for e in t.elts:
                self._store(e)
        elif isinstance(t, ast.Starred):
            self._store(t.value)
        elif isinstance(t, ast.Attribute):
            self.visit(t.value)
        elif isinstance(t, ast.Name) and t.id == 'self':
            raise Unsupported(f'line {t.lineno}: self rebound')

    def visit_Attribute(self, node):
        if is_self_attr(node):
            if isinstance(node.ctx, ast.Load):
                if node.attr == LOCK:
                    # the lock object used other than in `with self._lock:` (acquire()/release() calls,
                    # passing it around): not modelled
                    raise Unsupported(f'line {node.lineno}: self.{LOCK} used outside a with statement')
                if node.attr in self.methods:
                    if node.attr in self.properties:
                        self.toks.append(('call', self.methods.index(node.attr)))      # a property runs its getter
                        return
                    raise Unsupported(f'line {node.lineno}: bound method self.{node.attr} taken without calling it')
                self._field('read', node.attr)
            else:
                if node.attr == LOCK and not self.in_init:
                    raise Unsupported(f'line {node.lineno}: self.{LOCK} rebound')
                self._field('write', node.attr)
        else:
            self.visit(node.value)

    def visit_Call(self, node):
        f = node.func
        if is_self_attr(f) and f.attr in self.methods:
            for a in node.args:
                self.visit(a)
            for k in node.keywords:
                self.visit(k.value)
            self.toks.append(('call', self.methods.index(f.attr)))
            return
        if is_self_attr(f) and f.attr not in self.data_attrs:
            raise Unsupported(f'line {node.lineno}: self.{f.attr}(...) is not a method defined in the class body')
        if isinstance(f, ast.Attribute) and is_self_attr(f.value) and f.attr in MUTATORS:
            for a in node.args:
                self.visit(a)
            for k in node.keywords:
                self.visit(k.value)
            self._field('read', f.value.attr)
            self._field('write', f.value.attr)
            return
        self.generic_visit(node)


def translate(repo=None):
    repo = repo or C.REPO
    path = os.path.join(repo, 'psiaudio', 'buffer.py')
    tree = ast.parse(open(path).read(), path)
    cls = find_class(tree)
    check_structure(tree, cls)
    fields = mutable_fields(cls)
    fns = [n for n in cls.body if isinstance(n, (ast.FunctionDef, ast.AsyncFunctionDef))]
    names = [f.name for f in fns]
    if len(set(names)) != len(names):
        raise Unsupported('a method is defined twice in the class body')
    props = [f.name for f in fns if f.decorator_list]
    data_attrs = {e.attr for f in fns for e in ast.walk(f)
                  if is_self_attr(e) and isinstance(e.ctx, ast.Store)} - set(names)
    methods = []
    for f in fns:
        fp = Footprint(fields, names, props, data_attrs, in_init=f.name == '__init__')
        for a in f.args.defaults + [k for k in f.args.kw_defaults if k is not None]:
            fp.visit(a)
        for s in f.body:
            fp.visit(s)
        methods.append(fp.toks)
    return {'path': path, 'fields': fields, 'names': names, 'methods': methods,
            'lines': {f.name: f.lineno for f in fns},
            # first line of the code object: the first decorator, if any
            'deflines': {f.name: min([f.lineno] + [x.lineno for x in f.decorator_list]) for f in fns}}


def tok_lean(t, fields, names):
    if t[0] in ('acq', 'rel'):
        return '.' + t[0]
    return f'.{t[0]} {t[1]}'


def render(d):
    out = ['import PsiModel.Conc',
           '/-! GENERATED by harness/translate_locks.py from psiaudio/buffer.py — do not edit.',
           f'Lock footprint of every method of `{CLASS}`; fields: ' +
           ', '.join(f'{i} = {f}' for i, f in enumerate(d['fields'])) + '. -/',
           'namespace Psi.Gen.Locks', 'open Psi.Conc', '']
    out.append('def fields : List String := [' + ', '.join(f'"{f}"' for f in d['fields']) + ']')
    out.append('def names : List String := [' + ', '.join(f'"{n}"' for n in d['names']) + ']')
    for i, (n, toks) in enumerate(zip(d['names'], d['methods'])):
        pretty = ' '.join(t[0] if len(t) == 1 else
                          (f'{t[0]}:{d["fields"][t[1]]}' if t[0] != 'call' else f'call:{d["names"][t[1]]}')
                          for t in toks)
        out.append(f'/-- method {i} `{n}` (line {d["lines"][n]}): {pretty or "(no shared state)"} -/')
        out.append(f'def m{i} : List Tok := [' + ', '.join(tok_lean(t, d['fields'], d['names']) for t in toks) + ']')
    out.append('def methods : List (List Tok) := [' + ', '.join(f'm{i}' for i in range(len(d['methods']))) + ']')
    out.append('')
    out.append('end Psi.Gen.Locks')
    return '\n'.join(out) + '\n'


def main():
    from .translate_names import write_if_changed
    d = translate()
    changed = write_if_changed(OUT, render(d))
    print(f'translate_locks: {len(d["names"])} methods, fields {d["fields"]} -> '
          f'{os.path.relpath(OUT, C.VERIF)}{"" if changed else " (unchanged)"}')
    return 0


if __name__ == '__main__':
    sys.exit(main())
