"""C02 — queue output is a faithful, chunk-invariant timeline of the notified trials."""
from . import queue_common as QC
from .framework import Spec


def structural_positions(case):
    """Sample positions where something starts or ends, from a one-chunk run of the real code."""
    N = QC.total_pop(case)
    one = dict(case, ops=[['pop', N]])
    tr = QC.run_case(one)
    pos = set()
    for (key, k, dur, *_) in tr.added:
        pos.update((k, k + tr.lens[key]))
    pos = sorted(p for p in pos if 0 < p < N)
    return pos


def merged_ops(ops):
    """The same history with adjacent requests merged into one (the reference chunking)."""
    out = []
    for op in ops:
        if out and op[0] in ('pop', 'popnd') and out[-1][0] == op[0]:
            out[-1] = [op[0], out[-1][1] + op[1]]
        else:
            out.append(list(op))
    return out


def chunks_at(N, cuts):
    cuts = sorted({c for c in cuts if 0 < c < N})
    pts = [0] + cuts + [N]
    return [['pop', b - a] for a, b in zip(pts, pts[1:])]


class C02(Spec):
    PROP = 'C02'
    MODEL = 'queue'
    PROOF_MODULES = ['PsiProofs.C02', 'PsiProofs.C02ND']
    DESIGN_REF = 'DESIGN.md §6 C02'
    TRUST = [
        'modelled, not verified: ndarray slicing/np.concatenate/np.zeros semantics in pop_buffer; the generator '
        'protocol (reset/next/n_samples_remaining/is_complete) of stim factories is modelled as "a waveform of '
        'n_samples() samples consumed front to back" (chunk invariance of the factories themselves is C01)',
        'zero-length waveforms are outside the model (driver refuses them); pop_buffer(decrement=False) is modelled '
        '(popBufferND) and covered for pause-free histories mixing both kinds of request (PsiProofs.C02ND); the log '
        'entry\'s `decrement` flag that `requeue` consults is not modelled (no pauses after a decrement=False request)',
        'the model follows queue.py with notes/C03_fix_1.diff and notes/C04_fix_*.diff applied',
    ]
    ASSUMPTIONS = ['every stimulus has at least one sample', 'delays are >= 0 (negative: ValueError, checked)',
                   'generator durations are not within 1e-6 of a half sample off the grid']
    RULE = ('histories of pop_buffer sizes over every policy, fs in the RZ6/integer list, start offsets on and off '
            'the grid, array / FixedWaveform / Cos2Envelope(Tone) sources; boundary stream: request boundaries at '
            'every waveform start/end and delay end, -1/0/+1; each case is also compared with its one-chunk run. '
            'Half of the random cases are re-spelled by the caller (constructor routes incl. set_fs / registry / positional, '
            'extend() with broadcast scalars and tuple/ndarray containers, NumPy-typed fs/t0/n/trials, delays as None / '
            'scalar / generator / finite list / ndarray, metadata, explicit duration=, float32/int/strided source arrays, '
            'a clone() of the loaded queue, a bystander queue fed with the same source objects, a caller that overwrites '
            'every array it passed in or got back); plus requests with decrement=False, stimuli appended while running, '
            'waveforms >= 2^16 samples fetched in 1..65536-sample requests, start offsets beyond 2^31 samples. '
            'Non-trivial = at least two trials notified and at least two requests.')
    SEARCH_SECONDS = {'quick': 20, 'thorough': 240}

    def cases(self, rng, tier):
        nrand = 260 if tier == 'quick' else 6000
        for it in range(nrand):
            nst = rng.randint(1, 4)
            c = {'kind': 'random', 'fs': rng.choice(QC.FS_LIST)}
            c.update(QC.policy_fields(rng.choice(QC.POLICIES), rng, nst))
            c['t0'] = rng.choice([0, 0, 0.5, 1.2345, 7 / c['fs'], 100.25])
            c['stims'] = QC.rand_stims(rng, nst)
            need = sum((s['len'] + 8) * (s['trials'] + 1) for s in c['stims'])
            N = rng.choice([need + 5, need + 5, max(3, need // 2), rng.randint(2, need + 5)])
            c['ops'] = [['pop', n] for n in rng.chunks(N, max_parts=rng.choice([2, 3, 8, 40]))]
            if it % 4 == 0:
                c['via'] = 'tick'
            if it % 2:
                for st in c['stims']:
                    if rng.random() < 0.2:
                        st['xdur'] = rng.choice([-1, 1, 3, 25])       # append(..., duration=) other than the waveform's
                QC.spell(rng, c, finite_delays=True, p=1.0)
            yield c
        # all stimuli built by the caller in one scratch object that is re-filled / re-parametrised before each append,
        # or one unchanged object appended under two keys: each notified trial plays the waveform queued under its key
        for it in range(20 if tier == 'quick' else 400):
            nst = rng.randint(2, 5)
            c = {'kind': 'shared-source', 'fs': rng.choice(QC.FS_LIST), 't0': rng.choice([0, 0.5]), 'share': 'scratch'}
            c.update(QC.policy_fields(rng.choice(QC.POLICIES), rng, nst))
            c.pop('build', None)
            c['stims'] = QC.shared_stims(rng, nst)
            need = sum((s['len'] + 8) * (s['trials'] + 1) for s in c['stims'])
            c['ops'] = [['pop', n] for n in rng.chunks(need + 5, max_parts=rng.choice([2, 3, 8]))]
            yield c
        # requests with decrement=False (trial counters untouched: the policy keeps cycling), alone and mixed with
        # ordinary requests
        for it in range(40 if tier == 'quick' else 700):
            nst = rng.randint(1, 4)
            c = {'kind': 'no-decrement', 'fs': rng.choice(QC.FS_LIST), 't0': rng.choice([0, 0.5, 1.2345])}
            c.update(QC.policy_fields(rng.choice(QC.POLICIES), rng, nst))
            c['stims'] = QC.rand_stims(rng, nst)
            need = sum((s['len'] + 8) * (s['trials'] + 1) for s in c['stims'])
            N = rng.choice([need + 5, max(3, need // 2)])
            mixed = it % 3 == 0
            c['ops'] = [['popnd' if (not mixed or rng.random() < 0.5) else 'pop', n]
                        for n in rng.chunks(N, max_parts=rng.choice([2, 3, 8]))]
            if it % 2:
                QC.spell(rng, c, p=1.0)
            yield c
        # a stimulus appended while the queue is running (before the earlier ones can have finished)
        for it in range(30 if tier == 'quick' else 500):
            nst = rng.randint(2, 4)
            c = {'kind': 'late-append', 'fs': rng.choice(QC.FS_LIST), 't0': rng.choice([0, 0.5])}
            c.update(QC.policy_fields(rng.choice(QC.POLICIES), rng, nst))
            c.pop('build', None)
            c['stims'] = QC.rand_stims(rng, nst)
            nlate = rng.randint(1, nst - 1)
            early = c['stims'][:nst - nlate]
            for st in c['stims'][nst - nlate:]:
                st['late'] = 1
            limit = sum(s['len'] * s['trials'] for s in early)       # nothing can have run dry before that
            need = sum((s['len'] + 8) * (s['trials'] + 1) for s in c['stims'])
            at = sorted(rng.randint(1, limit) if limit > 1 else 1 for _ in range(nlate))
            at = [a for a in at if a < limit] or [max(1, limit - 1)]
            ops, pos = [], 0
            for j in range(nlate):
                a = at[min(j, len(at) - 1)]
                if a > pos:
                    ops += [['pop', n] for n in rng.chunks(a - pos, max_parts=3)]
                    pos = a
                ops.append(['append', nst - nlate + j])
            ops += [['pop', n] for n in rng.chunks(need + 5, max_parts=rng.choice([1, 3, 8]))]
            if ops[0][0] != 'pop':
                continue
            c['ops'] = ops
            if it % 2:
                QC.spell(rng, c, p=1.0)
                c.pop('build', None)
            yield c
        # large-scale stream: inter-trial delays and requests around 2^16 samples (block sizes of buffered
        # implementations), the same history once in big requests and once in small ones
        big = [65535, 65536, 65537, 100000, 204800]
        for it in range(4 if tier == 'quick' else 40):
            nst = rng.randint(1, 2)
            c = {'kind': 'large', 'fs': rng.choice(QC.FS_LIST), 't0': rng.choice([0, 0.5])}
            c.update(QC.policy_fields(rng.choice(QC.POLICIES), rng, nst))
            c['stims'] = QC.rand_stims(rng, nst, max_len=6, max_trials=2)
            for st in c['stims']:
                st['delays'] = [rng.choice([65536, 65537, 70000, 98304, 131073])]
            if it == 0:
                # one history with an inter-trial interval beyond 2^20 samples, fetched in one request
                c['stims'] = c['stims'][:1]
                c['stims'][0].update(trials=2, delays=[1048576 + rng.choice([1, 577, 100000])])
                big = [2300000]
            N = sum((s['len'] + s['delays'][0]) * s['trials'] for s in c['stims']) + 10
            ops, left = [], N
            while left > 0:
                n = min(left, rng.choice(big + [1, 100]))
                ops.append(['pop', n])
                left -= n
            yield dict(c, ops=ops)
        # long waveforms (>= 2^16 samples) fetched in a mixture of tiny and huge requests; start offsets that put
        # the sample index beyond 2^31
        for it in range(2 if tier == 'quick' else 12):
            L = rng.choice([65536, 65537, 70001, 131072])
            c = {'kind': 'long-waveform', 'fs': rng.choice(QC.FS_LIST), 't0': rng.choice([0, 30000.5]),
                 'enc': 1 << 20}
            c.update(QC.policy_fields(rng.choice(QC.POLICIES), rng, 2))
            c['stims'] = [{'src': rng.choice(['arr', 'fixed']), 'len': L, 'trials': 1, 'delays': [rng.choice([0, 3])]},
                          {'src': 'arr', 'len': 3, 'trials': 2, 'delays': [1]}]
            rng.shuffle(c['stims'])
            N = L + 40
            ops, left = [], N
            while left > 0:
                n = min(left, rng.choice([1, 2, 7, 65536, 65535, 40000]))
                ops.append(['pop', n])
                left -= n
            c['ops'] = ops
            QC.spell(rng, c, p=0.5)
            yield c
        for it in range(6 if tier == 'quick' else 60):
            # start offset far out: t0*fs beyond 2^31 (and beyond 2^40) samples
            nst = rng.randint(1, 3)
            c = {'kind': 'far-offset', 'fs': rng.choice(QC.FS_LIST),
                 't0': rng.choice([30000.5, 86400.0, 1234567.25, 2.0 ** 24 + 0.5])}
            c.update(QC.policy_fields(rng.choice(QC.POLICIES), rng, nst))
            c['stims'] = QC.rand_stims(rng, nst, max_len=6, max_trials=2)
            N = sum((s['len'] + 8) * (s['trials'] + 1) for s in c['stims'])
            c['ops'] = [['pop', n] for n in rng.chunks(N, max_parts=6)]
            yield c
        # boundary stream: cuts at every structural position -1/0/+1
        nb = 25 if tier == 'quick' else 400
        for it in range(nb):
            nst = rng.randint(1, 3)
            c = {'kind': 'boundary', 'fs': rng.choice(QC.FS_LIST), 't0': rng.choice([0, 0.5])}
            c.update(QC.policy_fields(rng.choice(QC.POLICIES), rng, nst))
            c['stims'] = QC.rand_stims(rng, nst, max_len=6, max_trials=2)
            N = sum((s['len'] + 8) * (s['trials'] + 1) for s in c['stims']) + 4
            c['ops'] = [['pop', N]]
            try:
                pos = structural_positions(c)
            except Exception:
                pos = []
            for p in pos[:12]:
                for d in (-1, 0, 1):
                    yield dict(c, ops=chunks_at(N, [p + d]))
            yield dict(c, ops=chunks_at(N, pos))
            yield dict(c, ops=chunks_at(N, [p + 1 for p in pos] + [p - 1 for p in pos]))
        # malformed
        base = {'kind': 'malformed', 'policy': 'fifo', 'keep': 1, 'gsize': 0, 'seed': 0, 'fs': 1000.0, 't0': 0}
        yield dict(base, stims=[{'src': 'arr', 'len': 4, 'trials': 2, 'delays': [2]}],
                   ops=[['pop', 0], ['pop', 3], ['pop', -2], ['pop', 20]])
        yield dict(base, stims=[{'src': 'arr', 'len': 4, 'trials': 2, 'delays': [-3]}],
                   ops=[['pop', 3], ['pop', 3]])
        yield dict(base, stims=[], ops=[['pop', 3]])

    def model_lines(self, c):
        return QC.model_lines(c, use_tick=c.get('via') == 'tick')

    def impl_lines(self, c):
        return QC.impl_lines(c)

    def nontrivial(self, c, out):
        return len(c['ops']) >= 2 and sum(l.count('@') for l in out) >= 2

    # ---- the property -------------------------------------------------------
    def oracle(self, c, out):
        if any(l.startswith('HARNESS-EXC') for l in out):
            return out[0]
        tr = QC.run_case(c)
        if c['kind'] == 'malformed':
            for s in tr.steps:
                if s['op'][0] == 'pop' and s['op'][1] <= 0 and s['status'] != 'err ValueError':
                    return f"pop_buffer({s['op'][1]}) did not raise ValueError: {s['status']}"
            return None
        for s in tr.steps:
            if s['status'] != 'ok':
                return f"{s['op']} raised: {s['status']} (no output for a well-formed queue)"
        dry = False
        for s in tr.steps:
            if s['op'][0] == 'append' and dry:
                return None     # a stimulus added to a queue that had already run dry: not a history of the property
            dry = dry or s.get('empty', False)
        N = QC.total_pop(c)
        cells = QC.flat_cells(tr)
        if len(cells) != N:
            return f'{len(cells)} samples returned for {N} requested'
        emitted = 0
        for s in tr.steps:
            emitted += s['n_out']
            if s['ts'] != emitted or not s['ts_exact']:
                return (f"clock get_ts()*fs = {s['ts']}{'' if s['ts_exact'] else ' (not exactly: get_ts() != n/fs)'} "
                        f"after {emitted} samples")
            if s.get('aliased'):
                return f"{s['op']} changed the buffer returned by an earlier request"
        if tr.added2 != [a[:2] for a in tr.added]:
            return f'a second "added" consumer saw {tr.added2[:6]}, the first {[a[:2] for a in tr.added][:6]}'
        # chunk invariance against the run with all adjacent requests merged into one
        ref_ops = merged_ops(c['ops'])
        if len(c['ops']) > len(ref_ops):
            one = QC.run_case(dict(c, ops=ref_ops))
            if any(s['status'] != 'ok' for s in one.steps):
                return 'one-chunk run raised'
            if QC.flat_cells(one) != cells:
                i = next(i for i, (a, b) in enumerate(zip(QC.flat_cells(one), cells)) if a != b)
                return f'output depends on chunking: sample {i} differs between pop({N}) and {c["ops"][:6]}'
            if one.added != tr.added:
                return f'"added" notifications depend on chunking: {one.added[:6]} vs {tr.added[:6]}'
        if 'X' in {x[0] for x in cells}:
            i = next(i for i, x in enumerate(cells) if x[0] == 'X')
            return f'sample {i} is neither zero nor the sample of a notified waveform'
        covered = [False] * N
        uses = {}
        prev = None
        for (key, k, dur, ongrid, payload_ok) in tr.added:
            if not ongrid:
                return f'notified t0 of key {key} is not t0 + {k}/fs'
            if not payload_ok:
                return f'notification of the trial of key {key} at sample {k} does not carry the metadata queued with that stimulus'
            L = tr.lens[key]
            for i in range(L):
                if k + i >= N:
                    break
                want = ('Z',) if i in tr.zero_at[key] else ('W', key, i)
                if k + i < 0 or cells[k + i] != want:
                    return f'trial of key {key} notified at sample {k}: output[{k + i}] is {cells[k + i]}, waveform sample {i} expected'
                covered[k + i] = True
            if prev is not None:
                pk, pend, pdelay = prev
                if k - pend != pdelay:
                    return f'gap before trial at {k} is {k - pend} samples, delay of previous trial is {pdelay}'
            u = uses.get(key, 0)
            uses[key] = u + 1
            prev = (key, k + L, tr.delays[key][u % len(tr.delays[key])])
        for i in range(N):
            if not covered[i] and cells[i] != ('Z',):
                return f'sample {i} is outside every notified trial but is {cells[i]}'
        return None

    def known(self, c, failure):
        return None

    def neighbours(self, c, rng):
        N = QC.total_pop(c)
        if N <= 1:
            return
        for _ in range(30):
            ops = []
            for op in merged_ops(c['ops']):
                if op[0] in ('pop', 'popnd') and op[1] > 1:
                    ops += [[op[0], n] for n in rng.chunks(op[1], max_parts=6)]
                else:
                    ops.append(op)
            yield dict(c, ops=ops, via='pop')

    def shrink_candidates(self, c):
        ops = c['ops']
        # merge adjacent pops
        for i in range(len(ops) - 1):
            if ops[i][0] in ('pop', 'popnd') and ops[i + 1][0] == ops[i][0]:
                yield dict(c, ops=ops[:i] + [[ops[i][0], ops[i][1] + ops[i + 1][1]]] + ops[i + 2:])
        if len(ops) > 1:
            yield dict(c, ops=ops[:-1])
        for i in range(len(c['stims'])):
            if len(c['stims']) > 1:
                yield QC.drop_stim(c, i)
        for c2 in QC.unspell_candidates(c):
            yield c2
        for i, st in enumerate(c['stims']):
            for f, v in (('trials', st['trials'] - 1), ('len', st['len'] - 1)):
                if v >= 1:
                    s2 = dict(st, **{f: v})
                    yield dict(c, stims=c['stims'][:i] + [s2] + c['stims'][i + 1:])
            if st['src'] != 'arr':
                s2 = dict(st, src='arr')
                s2.pop('frac', None)
                yield dict(c, stims=c['stims'][:i] + [s2] + c['stims'][i + 1:])
        if c['t0'] != 0:
            yield dict(c, t0=0)
        if c['fs'] != 1000.0:
            yield dict(c, fs=1000.0)

    def describe(self, c):
        return (f"{QC.policy_name(c)} gsize={c.get('gsize')} fs={c['fs']} t0={c['t0']} "
                f"stims={c['stims']} ops={c['ops'][:12]}{'...' if len(c['ops']) > 12 else ''}")


SPEC = C02()
