"""C19 — no code path can fail on an unresolved name (custom flow; DESIGN.md §6 C19).

Flow of ``./check C19``:
 1. translate $PSI_REPO/psiaudio -> scope tables -> lean/PsiGen/Names.lean (regenerated every run);
 2. translator validation ("correspondence"): the tables are streamed to the Lean model through
    ``psidriver scope``; the Lean ``resolve`` classification of every (scope, name) — and the Python
    mirror used to compute the excused list — is compared with CPython's ``symtable`` for the repo
    modules, a corpus of scoping corner cases (hand-written expected verdicts, every binding form with a resolving
    and a non-resolving variant) and a sample of the standard library; a synthetic package exercising every import
    spelling / attribute chain / star-import / dynamic name is decided by the model and compared with hand-written
    verdicts AND with what a pristine interpreter does; a disagreement is an infrastructure failure (exit 2);
 3. ``lake build PsiProofs.C19`` (kernel-evaluates ``checkEx package excused``) + axiom audit;
 4. every failing load/chain reported by the Lean ``failures`` is either a recorded known finding
    (KNOWN-FINDING, keyed by (module, function, name)) or is probed on the real module
    (NameError / AttributeError = concrete replay) -> VIOLATION.
"""
import ast
import builtins
import copy
import importlib
import json
import os
import symtable
import sys
import sysconfig
import time
import traceback

from . import common as C
from . import translate_names as T

PROP = 'C19'
PROOF_MODULES = ['PsiProofs.C19']

# Recorded known findings (proposed known_findings.json entries, see notes/C19.md); entries of
# known_findings.json with property C19 and a `key` are honoured too.
KNOWN = [
    {'id': 'C19-util-iir-fs', 'module': 'psiaudio.util', 'function': 'iir', 'name': 'fs',
     'what': 'util.iir(truncate=...) reads `fs`, which is neither a parameter nor a global; the function '
             'has no way to know the sampling rate (repair needs an API decision)'},
]


def known_list():
    out = list(KNOWN)
    for f in C.known_findings(PROP):
        k = f.get('key')
        if isinstance(k, dict) and {'module', 'function', 'name'} <= set(k):
            out.append({'id': f['id'], **k})
    return out


def known_id(module, function, name):
    for k in known_list():
        if (k['module'], k['function'], k['name']) == (module, function, name):
            return k['id']
    return None


# --------------------------------------------------------------------------
# Python mirror of Psi.Scope.resolve (only used to compute the excused list without the driver,
# and cross-checked against the driver on every run)
# --------------------------------------------------------------------------

def py_global(bi, scopes, n):
    if n in scopes[0]['bound']:
        return 'global'
    return 'builtin' if n in bi else 'none'


def py_enclosing(bi, scopes, n, j):
    while True:
        s = scopes[j]
        if s['kind'] == 'module':
            return py_global(bi, scopes, n) if j == 0 else 'none'
        if s['kind'] == 'class':
            if n in s['cells']:
                return f'cell:{j}'
        else:
            if n in s['bound']:
                return f'free:{j}'
            if n in s['globals']:
                return py_global(bi, scopes, n)
        if not s['parent'] < j:
            return 'none'
        j = s['parent']


def py_resolve(bi, scopes, i, n):
    s = scopes[i]
    if n in s['globals']:
        return py_global(bi, scopes, n)
    if s['kind'] == 'module':
        return py_global(bi, scopes, n) if i == 0 else 'none'
    if n in s['nonlocals']:
        if not s['parent'] < i:
            return 'none'
        r = py_enclosing(bi, scopes, n, s['parent'])
        return r if r.startswith('free:') else 'none'
    if n in s['bound']:
        return 'local'
    if not s['parent'] < i:
        return 'none'
    return py_enclosing(bi, scopes, n, s['parent'])


def py_failing_loads(data):
    bi = set(data['builtins'])
    out = []
    for mi, m in enumerate(data['modules']):
        for si, s in enumerate(m['scopes']):
            for n, line in s['loads']:
                if py_resolve(bi, m['scopes'], si, n) == 'none':
                    out.append((mi, si, n, line))
    return out


def excused_entries(data):
    """(module idx, scope idx, name id) of the failing loads that are recorded known findings."""
    out = []
    for mi, si, n, line in py_failing_loads(data):
        m = data['modules'][mi]
        if known_id(m['name'], m['scopes'][si]['owner'] or '<module>', data['names'][n]):
            out.append((mi, si, n))
    return out


# --------------------------------------------------------------------------
# driver protocol
# --------------------------------------------------------------------------

def _l(xs):
    return ','.join(str(x) for x in xs) if xs else '-'


def _p(xs):
    return ','.join(f'{a}:{b}' for a, b in xs) if xs else '-'


def driver_lines(data):
    """Lines that load `data` into the driver, then one `resolve` per load, `check`, `failures`.
    Returns (lines, queries) where queries[k] = (line index, module idx, scope idx, name id)."""
    lines = [f'builtins {_l(data["builtins"])}']
    for mo in data['modobjs']:
        lines.append(f'modobj {_l(mo["attrs"])} {_p(mo["submods"])}')
    for m in data['modules']:
        lines.append('module')
        for s in m['scopes']:
            lines.append(f'scope {s["kind"]} {s["parent"]} {_l(s["bound"])} {_l(s["globals"])} '
                         f'{_l(s["nonlocals"])} {_l(s["cells"])} {_p(s["imports"])}')
            if s['loads']:
                lines.append(f'loads {_p(s["loads"])}')
            for b, path, line in s['chains']:
                lines.append(f'chain {b} {line} {_l(path)}')
        for mo, a, line in m['from_imports']:
            lines.append(f'fromimport {mo} {a} {line}')
    queries = []
    for mi, m in enumerate(data['modules']):
        for si, s in enumerate(m['scopes']):
            for n, _line in s['loads']:
                queries.append((len(lines), mi, si, n))
                lines.append(f'resolve {mi} {si} {n}')
    return lines, queries


def run_driver(data):
    """-> (classification {(mi, si, n): str}, check bool, failures list of tuples)."""
    lines, queries = driver_lines(data)
    lines += ['check', 'failures']
    out = C.Driver('scope').run(['reset'] + lines)[1:]
    bad = [(l, o) for l, o in zip(lines, out) if o == 'bad-op']
    if bad:
        raise RuntimeError(f'driver rejected {bad[0][0][:80]!r}')
    cls = {(mi, si, n): out[k] for k, mi, si, n in queries}
    fails = []
    if out[-1] != '-':
        for f in out[-1].split(','):
            parts = f.split(':')
            fails.append((parts[0],) + tuple(int(x) for x in parts[1:]))
    return cls, out[-2] == 'true', fails


# --------------------------------------------------------------------------
# symtable oracle
# --------------------------------------------------------------------------

class _CompToGen(ast.NodeTransformer):
    """list/set/dict comprehensions -> generator expressions: identical scoping, but never inlined by
    the compiler (PEP 709), so `symtable` shows their scope."""

    def _gen(self, node, elt):
        node = self.generic_visit(node)
        return ast.copy_location(ast.GeneratorExp(elt=elt(node), generators=node.generators), node)

    def visit_ListComp(self, node):
        return self._gen(node, lambda n: n.elt)

    def visit_SetComp(self, node):
        return self._gen(node, lambda n: n.elt)

    def visit_DictComp(self, node):
        # the translator visits value before key (as symtable.c does); order is irrelevant for scoping
        return self._gen(node, lambda n: ast.Tuple(elts=[n.value, n.key], ctx=ast.Load()))


class Disagreement(Exception):
    pass


# implicit symbols of PEP 695 annotation scopes / generic classes
PEP695_IMPLICIT = {'.defaults', '.kwdefaults', '.type_params', '.generic_base', '__classdict__'}


def _class3(r):
    if r == 'local':
        return 'L'
    if r.startswith('free:') or r.startswith('cell:'):
        return 'F'
    return 'G'


def symtable_compare(sm, mi, data, cls):
    """Compare translator tables + Lean classification of module `sm` (index mi in data) with symtable.
    Returns (number of (scope, name) pairs compared, set of unresolved (scope idx, name) per symtable)."""
    names = data['names']
    dm = data['modules'][mi]
    tree2 = ast.fix_missing_locations(_CompToGen().visit(copy.deepcopy(sm.tree)))
    src2 = ast.unparse(tree2)
    w2 = T.Walker(sm.name, sm.is_pkg, ast.parse(src2), resolve_star=False)
    if len(w2.scopes) != len(sm.scopes):
        raise Disagreement(f'{sm.name}: scope count changes under comprehension->genexpr rewrite')
    for a, b in zip(sm.scopes, w2.scopes):
        same = (a.kind == b.kind and a.parent == b.parent and a.globals == b.globals
                and a.nonlocals == b.nonlocals and {n for n, _, _ in a.loads} == {n for n, _, _ in b.loads})
        if not same:
            raise Disagreement(f'{sm.name}: scope {a.idx} `{a.qualname}` changes under the rewrite')
    top = symtable.symtable(src2, sm.path, 'exec')
    tables = {}

    def match(si, t):
        s = w2.scopes[si]
        ttype = str(t.get_type()).split('.')[-1].lower().replace('_', ' ')
        ttype = {'type parameters': 'type parameter', 'type variable': 'typevar bound'}.get(ttype, ttype)
        want = {'module': 'module', 'class': 'class', 'typeparams': 'type parameter',
                'typevarbound': 'typevar bound', 'typealias': 'type alias'}.get(s.kind, 'function')
        tname = t.get_name()
        sname = {'module': 'top', 'comprehension': 'genexpr'}.get(s.kind, s.name)
        if ttype != want or tname != sname:
            raise Disagreement(f'{sm.name}: scope {si} is {s.kind} `{sname}` but symtable has {ttype} `{tname}`')
        tables[si] = t
        kids = t.get_children()
        if len(kids) != len(s.children):
            raise Disagreement(f'{sm.name}: scope {si} `{s.qualname}` has {len(s.children)} children, '
                               f'symtable {len(kids)}')
        # siblings are paired in source order (stable for equal lines: both sides follow symtable.c's visiting order)
        mine = sorted(s.children, key=lambda c: w2.scopes[c].lineno)
        kids = sorted(kids, key=lambda k: k.get_lineno())
        for c, k in zip(mine, kids):
            match(c, k)

    match(0, top)
    modsyms = {s.get_name(): s for s in top.get_symbols()}
    compared = 0
    unresolved = set()
    for si, s in enumerate(sm.scopes):
        t = tables[si]
        syms = {x.get_name(): x for x in t.get_symbols()}
        where = f'{sm.name} scope {si} `{s.qualname or "<module>"}`'
        # (a) bound names
        mine = set(s.bound_names())
        theirs = {n for n, x in syms.items() if x.is_local()}
        if s.kind == 'module':
            extra = set(T.MODULE_IMPLICIT) | {'__path__'} | sm.global_assigned | sm.star_bound | sm.dynamic_bound
        elif s.kind == 'class':
            extra = set(T.CLASS_IMPLICIT) | {'__type_params__'}
            theirs -= {'__class__', '__classdict__', '.type_params'}
        else:
            extra = set()
            theirs -= PEP695_IMPLICIT
        if not (theirs <= mine and mine - theirs <= extra):
            raise Disagreement(f'{where}: bound names differ: translator-only {sorted(mine - theirs - extra)}, '
                               f'symtable-only {sorted(theirs - mine)}')
        # (b) referenced names
        mine_ref = {n for n, _, _ in s.loads}
        their_ref = {n for n, x in syms.items() if x.is_referenced()}
        diff = (mine_ref ^ their_ref) - PEP695_IMPLICIT
        if 'super' in mine_ref or s.kind == 'class':
            diff -= {'__class__', '__classdict__'} - mine_ref     # implicit (zero-argument super / class cell)
        if diff:
            raise Disagreement(f'{where}: loads differ: translator-only {sorted(mine_ref - their_ref)}, '
                               f'symtable-only {sorted(their_ref - mine_ref)}')
        # (c) declarations
        walrus = w2.scopes[si].walrus
        if {n for n, x in syms.items() if x.is_declared_global()} - walrus != s.globals and s.kind != 'module':
            raise Disagreement(f'{where}: global declarations differ')
        if {n for n, x in syms.items() if x.is_nonlocal()} - walrus != s.nonlocals:
            raise Disagreement(f'{where}: nonlocal declarations differ')
        # (d)/(e) classification of every evaluated load by the Lean model
        for nid, _line in dm['scopes'][si]['loads']:
            n = names[nid]
            r = cls[(mi, si, nid)]
            x = syms.get(n)
            if x is None and n in dm['scopes'][si].get('moved_in', ()):
                # read by a PEP 695 annotation scope inside this class body and not bound by the class: resolved as if
                # the class body read it; symtable files it under the annotation scope
                x = {y.get_name(): y for y in tables[dm['scopes'][si]['moved_in'][n]].get_symbols()}[n]
            if s.kind == 'class' and n in T.CLASS_IMPLICIT and r == 'local' and not x.is_local():
                compared += 1      # `__module__`/`__qualname__` read in a class body: set by the class-creation
                continue           # protocol before the body runs; symtable sees no binding and says "global"
            # (is_local before is_global: symtable.py reports every bound symbol of a function that
            # happens to be called `top` as global too)
            if s.kind == 'module' or x.is_declared_global():
                want = 'G'
            elif x.is_free():
                want = 'F'
            elif x.is_local():
                want = 'L'
            elif x.is_global():
                want = 'G'
            else:
                raise Disagreement(f'{where}: symtable gives no scope for `{n}`')
            if _class3(r) != want:
                raise Disagreement(f'{where}: `{n}` is {want} for symtable but the model says {r}')
            if want == 'F':
                j = int(r.split(':')[1])
                tj = {y.get_name(): y for y in tables[j].get_symbols()}
                ok = (r.startswith('free:') and n in tj and tj[n].is_local()
                      and w2.scopes[j].kind not in ('class', 'module')) or \
                     (r.startswith('cell:') and w2.scopes[j].kind == 'class')
                if not ok:
                    raise Disagreement(f'{where}: `{n}` captured from scope {j}, which does not bind it')
            if want == 'G':
                g = modsyms.get(n)
                defined = (g is not None and g.is_local()) or n in sm.global_assigned \
                    or n in T.MODULE_IMPLICIT or (sm.is_pkg and n == '__path__') \
                    or n in sm.star_bound or n in sm.dynamic_bound
                # translator refinement of symtable's flow-insensitive answer: a module-level name whose last
                # top-level statement is `del name`, or which is only ever bound by `except … as name`
                defined = defined and n not in sm.module_unbound
                expect = 'global' if defined else ('builtin' if n in vars(builtins) else 'none')
                if sm.has_star and not w2.resolve_star and expect != 'global':
                    pass       # `from x import *` not expanded in corpus mode: definedness not comparable
                elif r != expect:
                    raise Disagreement(f'{where}: global `{n}`: symtable+builtins say {expect}, model says {r}')
                if expect == 'none':
                    unresolved.add((si, n))
            compared += 1
    return compared, unresolved


# --------------------------------------------------------------------------
# corpora for translator validation
# --------------------------------------------------------------------------

CORNER_CASES = {
    'class_scope_skipping': '''
x = 1
class A:
    y = 2
    z = y
    def m(self):
        return x, y_global
    w = [y for _ in range(3)]
    v = [k for k in range(y)]
    u = lambda self: y
y_global = 0
''',
    'comprehension_scopes': '''
def f(a):
    r = [i * a for i in range(a) if i > free_name]
    s = {j: [k for k in range(j)] for j in r}
    t = (m for m in s if (lambda q: q + m)(1))
    return r, s, t, i
''',
    'global_in_nested_function': '''
counter = 0
def outer():
    counter = 10
    def inner():
        global counter, created_here
        counter += 1
        created_here = counter
        return counter
    def reader():
        return counter, created_here
    return inner, reader
''',
    'global_declared_in_parent': '''
def outer():
    global g
    def inner():
        return g, h
    return inner
''',
    'param_shadows_module_import': '''
from scipy import signal
import numpy as np
def process_tone(fs, signal, frequency):
    return signal.mean(), np.pi * frequency / fs
def other(x):
    return signal.lfilter(x), signal.no_such_function
def local_import():
    import numpy as signal
    return signal.zeros(3)
''',
    'nonlocal_chain': '''
def a():
    v = 0
    def b():
        def c():
            nonlocal v
            v += 1
            return v
        return c
    return b
''',
    'class_in_function': '''
def factory(base):
    local = 3
    class K(base):
        attr = local
        def m(self):
            return local, attr, __class__, super().m()
        class Inner:
            def n(self):
                return local, K
    return K
''',
    'defaults_and_decorators': '''
import functools
d = 4
def deco(f): return f
class C:
    e = 5
    @deco
    def m(self, a=e, b=d, *args, c: int = e, **kw) -> int:
        return a + b + c + e
    @functools.wraps(m)
    def n(self): pass
f = lambda x=d, *y, z=d: x + z + w
''',
    'walrus_and_match': '''
def f(data):
    if (n := len(data)) > 3:
        pass
    out = [y for x in data if (y := x + n)]
    match data:
        case [first, *rest]:
            return first, rest, y
        case {"k": v, **others}:
            return v, others
        case str() as s:
            return s
    return n, y
''',
    'except_with_for_del': '''
import os.path
import xml.dom.minidom as md
try:
    import json as js
except ImportError as err:
    js = None
def f(p):
    with open(p) as fh, open(p) as (a, b):
        for i, (j, k) in enumerate(fh):
            del k
    try:
        pass
    except (OSError, ValueError) as e:
        return e, i, j, a, b, os.path.join(p), md.parse, js.loads
    return undefined_thing
''',
    'annotations': '''
import typing
def f(a: typing.List[int], b: 'Undefined' = 3) -> typing.Optional[int]:
    x: NotDefinedAnywhere = 3
    y: int
    return x
class C:
    v: typing.Any = 1
    w: int
''',
    'lambda_in_class_and_genexpr_first_iter': '''
class C:
    xs = [1, 2, 3]
    ys = list(x + 1 for x in xs)
    zs = list(x + len(xs) for x in xs)
    f = staticmethod(lambda a: a + bias)
bias = 1
''',
    'async_and_star_args': '''
import asyncio
async def g(*args, **kwargs):
    async with lock as l:
        async for item in aiter_():
            yield item, l, args, kwargs
    r = [await z async for z in agen()]
    return
''',
    # ---- hardening pass: binding forms / scoping corners the corpus lacked (resolving + non-resolving variants) ----
    'rare_branches': '''
known = 1
def f(x):
    try:
        known
    except ValueErr as e:
        return hnd1, known
    except (KeyError, TupleErr):
        return known
    else:
        return els1, known
    finally:
        fin1, known
    for i in x:
        pass
    else:
        forelse1, known
    while x:
        pass
    else:
        whileelse1, known
    if x:
        if x:
            if x:
                if x:
                    deep1, known
    elif elif1:
        pass
    assert x, assertmsg1
    raise known from cause1
    return (yes1 if x else no1), (x and short1), (x or short2), known
''',
    'match_forms': '''
import enum
class Color(enum.Enum):
    RED = 1
def f(x, Point):
    match x:
        case Color.RED:
            return a1
        case Point(x=px, y=py):
            return px, py
        case Missing(q):
            return q
        case [1, 2, *_]:
            return b1
        case {"a": 1, **rest}:
            return c1, rest
        case 1 | 2:
            return d1
        case cap if cap > guard1:
            return cap
        case _:
            return e1
''',
    'decorators': '''
import functools
def deco(*a, **k):
    return lambda f: f
known = 1
@deco(arg1, key=arg2)
@missing_deco
@functools.lru_cache(maxsize=None)
@deco(known, key=known)
def f(): pass
class C:
    @property
    def p(self): return 1
    @p.setter
    def p(self, v): pass
    @staticmethod
    @other_missing
    def s(): pass
@deco(cls_arg)
class D: pass
''',
    'defaults_annotations': '''
import typing
K = 1
def f(a=K, b=missing_default, *, c=K, d=missing_kwdefault, e: ann_missing1 = 2, g: typing.Any = 3) -> ret_missing: pass
def g(a=lambda: lam_missing, b=[q for q in iter_missing], c=lambda: K): pass
class C:
    k = 2
    hid = 3
    def m(self, a=k, b: k = 3): pass
    def n(self, a=lambda: hid): pass
''',
    'future_annotations': '''
from __future__ import annotations
def f(a: NotThere, b: 'Str' = default_missing) -> AlsoNot:
    x: Nope = 1
    return x
class C:
    v: NotThereEither = 1
v: ModuleLevelNot = 2
''',
    'class_bodies': '''
class A:
    in_cls = 1
    first_iter = [i for i in range(in_cls)]
    hid_elt = 1
    y = [hid_elt for _ in range(3)]
    hid_inner = 1
    w = [[hid_inner for _ in range(2)] for j in range(in_cls)]
    hid_meth = 1
    def m(self):
        return hid_meth
    def n(self):
        return __class__, super().n()
    hid_lam = 1
    lam = lambda self: hid_lam
    hid_nested = 1
    class B:
        q = hid_nested
    r = in_cls
class E(Base_missing, metaclass=Meta_missing, kw=kw_missing): pass
''',
    'comprehension_parts': '''
def f(data):
    a = [u for u in first_iter_missing]
    b = [u for u in data for v in second_iter_missing]
    c = [u for u in data if cond_missing]
    d = {k: v for k, v in data}
    e = (elt_missing for _ in data)
    g = [w := u for u in data]
    return w, leak_u
def h():
    return [y for y in range(3)], leak_y
''',
    'lambda_closures': '''
def outer(p):
    q = 1
    def inner():
        def innermost():
            return p, q, r_missing, late
        return innermost
    late = 2
    return inner, (lambda z=q: z + p + lam_missing)
''',
    'global_written_elsewhere': '''
def setter():
    global made_here
    made_here = 1
def reader():
    return made_here, never_made
def declared_only():
    global only_declared
    return only_declared
def outer():
    v = 1
    def inner():
        nonlocal v
        v = 2
    return inner
''',
    'binding_forms': '''
import os
def f(p, seq):
    with open(p) as fh, open(p) as (a, [b, c]):
        pass
    for i, (j, *k) in seq: pass
    first, *rest = seq
    (x, y), z = seq
    acc += 1
    obj_missing.attr = 1
    sub_missing[idx_missing] = 1
    try: pass
    except E_missing as e: pass
    import os.path as osp, sys
    from os import path as pth, sep
    def local_fn(): pass
    class LocalCls: pass
    return fh, a, b, c, i, j, k, first, rest, x, y, z, acc, e, osp, sys, pth, sep, local_fn, LocalCls
''',
    'module_del': '''
import os
tmp = [1, 2]
table = {k: tmp for k in tmp}
class K:
    v = tmp
    w = [tmp for _ in range(2)]
for _i in range(3):
    pass
del tmp, _i
cond = 1
if os.sep:
    del cond
again = 1
del again
again = 2
a, b = 1, 2
del (a, b)
def f():
    return tmp, _i, cond, again, a, b
def g():
    global revived
    revived = 1
revived = 0
del revived
def h():
    return revived
''',
    'module_except_name': '''
try:
    import json
except ImportError as err1:
    json = None
err2 = None
try:
    pass
except OSError as err2:
    pass
def f():
    try:
        pass
    except OSError as err3:
        pass
    return err1, err2, err3, json
''',
    'conditional_imports': '''
import sys
if sys.version_info > (3,):
    import json
else:
    json = None
try:
    import yaml
except ImportError:
    yaml = None
def f():
    import collections
    return json, yaml, collections.OrderedDict
def g():
    return collections
''',
    'builtins_level': '''
def f():
    return (__builtins__, __name__, __file__, __doc__, __spec__, __debug__, __import__, __build_class__, Ellipsis,
            NotImplemented, __dict__, __module__, __qualname__)
class C:
    a = __module__, __qualname__
    def m(self): return __module__
''',
    'dynamic_names': '''
globals()['dyn1'] = 1
exec('dyn2 = 2')
def f():
    return dyn1, dyn2
''',
    'name_mangling': '''
_A__mod = 1
class A:
    __priv = 1
    def m(self):
        return __priv, __mod, __dunder__, self.__x
''',
    'expression_positions': '''
def f(a, g):
    yield f"{a!r:>{width_missing}} {fmt_missing:.2f}"
    yield g(*star_missing, **dstar_missing, kw=kwval_missing)
    yield a[sl_missing:1], {k_missing: 1}, {*set_missing}, -neg_missing, not not_missing
    yield (yield y_missing)
    yield a < cmp_missing < a, a if a else a, await_missing.x
''',
}


if sys.version_info >= (3, 12):
    # PEP 695: type-parameter scopes (evaluated: annotations of a generic def, bases of a generic class — they see the
    # class namespace when directly in a class body); TypeVar bounds and type-alias values are evaluated lazily
    CORNER_CASES['pep695'] = '''
G = int
def deco(f): return f
@deco
def f[T: (int, BoundLazy), *Ts, **P](x: T, y: G = G, z: ann_missing = default_missing) -> list[T]:
    def inner(): return T, x, Ts, P
    return inner
class C[U](Base_missing[U], kw=G):
    clsname = int
    def m[V](self, a: clsname, b: V, c: meth_ann_missing) -> U:
        return V, U, clsname_not_visible
    type Alias[W] = dict[W, clsname, LazyMissing]
    class Inner[X](clsname): pass
type A2 = NotDefinedLazy | G
type A3[Z: BoundZLazy] = list[Z]
def user():
    return A2, A3, C, f, Zleak
'''



def _scale_case(depth=40, width=400):
    """Scale: a closure chain `depth` functions deep (innermost reads the outermost local, a module global, and one
    undefined name) and `width` sibling functions/classes; boundary: empty-bodied defs, a name bound after its use."""
    lines = ['late_global_reader = lambda: bound_later', 'def level0(v0):']
    for d in range(1, depth):
        lines.append('    ' * d + f'def level{d}(v{d}):')
    lines.append('    ' * depth + f'return v0, v{depth - 1}, bound_later, deep_missing')
    for d in range(depth - 1, 0, -1):
        lines.append('    ' * d + f'return level{d}')
    for k in range(width):
        lines += [f'def wide{k}(a{k}=None): return a{k}, wide{(k + 1) % width}, bound_later',
                  f'class Wide{k}:', f'    attr{k} = wide{k}', f'    def m(self): return attr{k}' if k == 7 else '    pass']
    lines.append('bound_later = 1')
    return '\n'.join(lines) + '\n'


CORNER_CASES['scale_deep_and_wide'] = _scale_case()
CORNER_CASES['empty_module'] = ''
CORNER_CASES['docstring_only'] = '"""Nothing but a docstring."""\n'


def corner_sources():
    return [T.SourceModule(f'c19corpus.{k}', f'<corpus:{k}>', False, src=v, resolve_star=False)
            for k, v in sorted(CORNER_CASES.items())]


def stdlib_sources(rng, count):
    d = sysconfig.get_paths()['stdlib']
    files = sorted(f for f in os.listdir(d) if f.endswith('.py'))
    if count is not None and count < len(files):
        files = sorted(rng.sample(files, count))
    out, skipped = [], []
    for f in files:
        p = os.path.join(d, f)
        try:
            src = open(p, encoding='utf-8').read()
            out.append(T.SourceModule('stdlib.' + f[:-3], p, False, src=src, resolve_star=False))
        except (T.Unsupported, SyntaxError, UnicodeDecodeError, RecursionError) as e:
            skipped.append(f'{f}: {type(e).__name__}')
    return out, skipped


def validate(sources, label, with_imports=False, pkg=None, data=None):
    """Translator + Lean-resolve vs symtable on a list of modules. Returns stats dict; raises Disagreement."""
    if pkg is None:
        pkg = T.Package(sources, with_imports=with_imports)
        data = pkg.build()
    cls, ok, fails = run_driver(data)
    bi = set(data['builtins'])
    # python mirror == driver
    for (mi, si, n), r in cls.items():
        pr = py_resolve(bi, data['modules'][mi]['scopes'], si, n)
        if pr != r:
            m = data['modules'][mi]
            raise Disagreement(f'{m["name"]} scope {si}: `{data["names"][n]}` python mirror {pr} != Lean {r}')
    compared = 0
    unresolved = {}
    for mi, sm in enumerate(pkg.mods):
        c, u = symtable_compare(sm, mi, data, cls)
        compared += c
        if u:
            unresolved[sm.name] = u
    # Lean `failures` (loads) == symtable-derived unresolved set
    lean_u = {}
    for f in fails:
        if f[0] == 'L':
            _, mi, si, n, _line = f
            lean_u.setdefault(data['modules'][mi]['name'], set()).add((si, data['names'][n]))
    if lean_u != unresolved:
        raise Disagreement(f'{label}: Lean failures {lean_u} != symtable-derived unresolved {unresolved}')
    if ok != (not fails):
        raise Disagreement(f'{label}: check = {ok} but failures = {fails[:3]}')
    return {'label': label, 'modules': len(pkg.mods), 'scopes': sum(len(m.scopes) for m in pkg.mods),
            'pairs_compared': compared, 'unresolved': sum(len(v) for v in unresolved.values()),
            'cls': cls, 'fails': fails, 'data': data}


# expected verdicts of the corner corpus (unresolved names per case) — guards the oracle itself
CORNER_EXPECT = {
    'class_scope_skipping': {'y'},
    'comprehension_scopes': {'free_name', 'i'},
    'global_in_nested_function': set(),
    'global_declared_in_parent': {'g', 'h'},
    'param_shadows_module_import': set(),
    'nonlocal_chain': set(),
    'class_in_function': {'attr'},
    'defaults_and_decorators': {'e', 'w'},
    'walrus_and_match': set(),
    'except_with_for_del': {'undefined_thing'},
    'annotations': set(),
    'lambda_in_class_and_genexpr_first_iter': {'xs'},
    'async_and_star_args': {'lock', 'aiter_', 'agen'},
    # hardening pass (every expectation below was confirmed by executing the snippet)
    'rare_branches': {'TupleErr', 'ValueErr', 'assertmsg1', 'cause1', 'deep1', 'elif1', 'els1', 'fin1', 'forelse1',
        'hnd1', 'no1', 'short1', 'short2', 'whileelse1', 'yes1'},
    'match_forms': {'Missing', 'a1', 'b1', 'c1', 'd1', 'e1', 'guard1'},
    'decorators': {'arg1', 'arg2', 'cls_arg', 'missing_deco', 'other_missing'},
    'defaults_annotations': {'ann_missing1', 'hid', 'iter_missing', 'lam_missing', 'missing_default',
        'missing_kwdefault', 'ret_missing'},
    'future_annotations': {'default_missing'},
    'class_bodies': {'Base_missing', 'Meta_missing', 'hid_elt', 'hid_inner', 'hid_lam', 'hid_meth', 'hid_nested',
        'kw_missing'},
    'comprehension_parts': {'cond_missing', 'elt_missing', 'first_iter_missing', 'leak_u', 'leak_y',
        'second_iter_missing'},
    'lambda_closures': {'lam_missing', 'r_missing'},
    'global_written_elsewhere': {'never_made', 'only_declared'},
    'binding_forms': {'E_missing', 'idx_missing', 'obj_missing', 'sub_missing'},
    'module_del': {'_i', 'a', 'b', 'tmp'},
    'module_except_name': {'err1'},
    'conditional_imports': {'collections'},
    'builtins_level': {'__dict__', '__module__', '__qualname__'},
    'dynamic_names': {'dyn2'},
    'name_mangling': {'_A__priv', '__dunder__'},
    'expression_positions': {'await_missing', 'cmp_missing', 'dstar_missing', 'fmt_missing', 'k_missing',
        'kwval_missing', 'neg_missing', 'not_missing', 'set_missing', 'sl_missing', 'star_missing', 'width_missing',
        'y_missing'},
}

CORNER_EXPECT.update({'scale_deep_and_wide': {'deep_missing', 'attr7'}, 'empty_module': set(), 'docstring_only': set()})
if 'pep695' in CORNER_CASES:
    CORNER_EXPECT['pep695'] = {'ann_missing', 'default_missing', 'Base_missing', 'meth_ann_missing',
                               'clsname_not_visible', 'Zleak'}


def corner_check():
    """The corner corpus through translator + Lean, with its hand-written expectations, and the
    shadowing case with real imports (chains)."""
    srcs = corner_sources()
    st = validate(srcs, 'corner-cases')
    data = st['data']
    got = {}
    for f in st['fails']:
        if f[0] == 'L':
            got.setdefault(data['modules'][f[1]]['name'].split('.', 1)[1], set()).add(data['names'][f[3]])
    for k, want in CORNER_EXPECT.items():
        if got.get(k, set()) != want:
            raise Disagreement(f'corner case {k}: unresolved {sorted(got.get(k, set()))}, expected {sorted(want)}')
    # chains: parameter `signal` shadows the module import -> only `other` is checked against scipy.signal
    sm = [T.SourceModule('c19corpus.shadow', '<corpus:shadow>', False,
                         src=CORNER_CASES['param_shadows_module_import'], resolve_star=False)]
    pkg = T.Package(sm, with_imports=True)
    d = pkg.build()
    _, _, fails = run_driver(d)
    chain_fails = sorted((d['modules'][0]['scopes'][f[2]]['qualname'], d['names'][f[3]], f[4])
                         for f in fails if f[0] == 'C')
    if chain_fails != [('other', 'signal', 7)]:
        raise Disagreement(f'shadowing corner case: chain failures {chain_fails}, '
                           f"expected [('other', 'signal', 7)] (signal.no_such_function only)")
    st.pop('cls'), st.pop('data'), st.pop('fails')
    return st


# --------------------------------------------------------------------------
# synthetic package: attribute chains, imports of every spelling, star-imports, dynamic names — the Lean verdict is
# compared with hand-written expectations (function-name prefix) AND with what a pristine interpreter does
# --------------------------------------------------------------------------
# Conventions: every `ok_*` / `bad_*` function is straight-line and takes no argument; `ok_` = inside the claim and
# resolving (must not be reported, must run), `bad_` = inside the claim and failing (must be reported, raises
# NameError/AttributeError when called in a pristine interpreter that imported only its module), `out_` = outside the
# claim (must not be reported; what it does at run time is not compared).  Modules `bad_import_*` must be reported with a
# failing import and must fail to import; all other modules must import.
SYNTH_FILES = {
    'c19synth/__init__.py': '''
from . import alpha
from .alpha import helper as pkg_helper
X = 1
''',
    'c19synth/alpha.py': '''
helper = 1
_private = 2
def fn(): pass
''',
    'c19synth/beta.py': 'value = 1\n',
    'c19synth/gamma.py': 'value = 3\n',
    'c19synth/delta.py': 'value = 4\n',                 # a file nobody imports
    'c19synth/sub/__init__.py': 'from . import leaf\n',
    'c19synth/sub/leaf.py': 'thing = 1\n',
    'c19synth/sub/other.py': 'thing = 2\n',
    'c19synth/lazy.py': '''
real = 1
def __getattr__(name):
    if name == 'virtual':
        return 42
    raise AttributeError(name)
''',
    'c19synth/withall.py': "__all__ = ['pub', '_listed']\npub = 1\n_listed = 2\nhidden = 3\n",
    'c19synth/noall.py': 'pub2 = 1\n_under = 2\nimport os as os_from_noall\n',
    'c19synth/badall.py': "__all__ = ['exists', 'does_not_exist']\nexists = 1\n",
    'c19synth/deleted.py': 'gone = 1\ndel gone\nkept = 2\n',
    'c19synth/use_attr.py': '''
import c19synth
import c19synth.sub.other
import c19synth.beta as bt
from c19synth import gamma
from c19synth import lazy, deleted
from . import alpha as al
from .sub import leaf as lf
import os.path
import xml.dom.minidom as minidom
import wsgiref
import json
import scipy
import numpy as np
from importlib import resources
try:
    import decimal
except ImportError:
    decimal = None
if os.sep:
    import fractions
def ok_pkg_alpha(): return c19synth.alpha.helper, c19synth.X, c19synth.pkg_helper
def bad_pkg_alpha_attr(): return c19synth.alpha.nope
def bad_pkg_attr(): return c19synth.Y
def ok_pkg_beta(): return c19synth.beta.value
def ok_pkg_sub_other(): return c19synth.sub.other.thing
def ok_pkg_sub_leaf(): return c19synth.sub.leaf.thing
def bad_pkg_delta(): return c19synth.delta.value
def ok_alias(): return bt.value
def bad_alias(): return bt.valu
def ok_from_sub(): return gamma.value
def bad_from_sub(): return gamma.nope
def ok_lazy_real(): return lazy.real
def ok_lazy_virtual(): return lazy.virtual
def bad_lazy(): return lazy.nothing
def ok_deleted_kept(): return deleted.kept
def bad_deleted_gone(): return deleted.gone
def ok_rel(): return al.helper, lf.thing
def bad_rel(): return lf.nope
def ok_os_path(): return os.path.join, os.sep
def bad_os_path(): return os.path.joinn
def ok_minidom(): return minidom.parse
def bad_minidom(): return minidom.parze
def ok_scipy_lazy(): return scipy.constants.pi
def bad_scipy_lazy(): return scipy.constants.pii
def bad_scipy_top(): return scipy.constantz
def ok_np(): return np.linalg.norm, np.random.default_rng, np.pi
def bad_np(): return np.linalg.normm
def bad_unloaded_submodule(): return wsgiref.util.FileWrapper
def bad_json_tool(): return json.tool.main
def ok_from_submodule(): return resources.files
def bad_from_submodule(): return resources.filez
def ok_fallback(): return decimal.Decimal
def bad_fallback(): return decimal.Decimall
def ok_conditional(): return fractions.Fraction
def bad_conditional(): return fractions.Fractionn
def ok_local_import():
    import collections.abc
    return collections.abc.Mapping, collections.OrderedDict
def bad_local_import():
    import collections
    return collections.OrderedDictt
def ok_local_submodule_import():
    import wsgiref.headers
    return wsgiref.headers.Headers
def ok_closure_import():
    import string
    return (lambda: [string.digits for _ in range(1)])()
def bad_closure_import():
    import string
    return (lambda: [string.digitz for _ in range(1)])()
def out_param_shadow(np=None): return np.anything
def out_instance_attr(): return al.helper.no_such_instance_attribute
def out_rebound():
    lf = object()
    return lf.whatever
''',
    'c19synth/use_loaded_elsewhere.py': '''
import wsgiref
import wsgiref.util
import c19synth
from . import delta
def ok_loaded_submodule(): return wsgiref.util.FileWrapper
def ok_pkg_delta(): return c19synth.delta.value
''',
    'c19synth/use_star.py': '''
from .withall import *
from .noall import *
def ok_star_all(): return pub, _listed
def bad_star_not_listed(): return hidden
def ok_star_noall(): return pub2, os_from_noall.sep
def bad_star_module_attr(): return os_from_noall.sepp
def bad_star_underscore(): return _under
''',
    'c19synth/use_names.py': '''
from .deleted import kept
helper = 1
scratch = 2
del scratch
try:
    pass
except Exception as exc:
    pass
globals()['injected'] = 1
exec('via_exec = 2')
def _setter():
    global made_later
    made_later = 1
class K:
    attr = helper
    def ok_method(self=None): return helper
    def bad_method(self=None): return attr
ok_method, bad_method = K.ok_method, K.bad_method
def ok_helper(): return helper, kept, __name__, len
def bad_scratch(): return scratch
def bad_exc(): return exc
def ok_injected(): return injected
def ok_via_exec(): return via_exec
def bad_typo(): return helpr
def bad_builtin_typo(): return lenn
def out_made_later(): return made_later
def out_unbound_local(flag=False):
    if flag:
        v = 1
    return v
''',
    'c19synth/use_optional.py': '''
try:
    import surely_not_installed_c19 as opt
except ImportError:
    opt = None
def out_optional(): return opt.anything
def out_optional_local():
    from surely_not_installed_c19 import thing
    return thing
def ok_guarded(): return None if opt is None else opt.x
''',
    'c19synth/bad_import_star_all.py': 'from .badall import *\n',
    'c19synth/bad_import_missing_module.py': 'from .nonexistent import thing\n',
    'c19synth/bad_import_missing_name.py': 'from .alpha import not_there\n',
    'c19synth/bad_import_dotted.py': 'import c19synth.nonexistent2\n',
    'c19synth/bad_import_private_star.py': 'from .noall import _under\nfrom .withall import nothing_like_it\n',
}


def synthetic_check():
    """Translator + Lean on the synthetic package, against the prefix expectations and a pristine interpreter."""
    import shutil
    import subprocess
    import tempfile
    from concurrent.futures import ThreadPoolExecutor
    tmp = tempfile.mkdtemp(prefix='c19synth-')
    saved = dict(sys.modules)
    sys.path.insert(0, tmp)
    try:
        mods = []
        for rel, src in sorted(SYNTH_FILES.items()):
            p = os.path.join(tmp, rel)
            os.makedirs(os.path.dirname(p), exist_ok=True)
            open(p, 'w').write(src)
            is_pkg = rel.endswith('/__init__.py')
            name = (os.path.dirname(rel) if is_pkg else rel[:-3]).replace('/', '.')
            mods.append((name, p, is_pkg))
        importlib.invalidate_caches()
        pkg = T.load_package(sources=[T.SourceModule(n, p, k) for n, p, k in mods], sys_path=[tmp])
        data = pkg.build()
        st = validate(None, 'synthetic-package', pkg=pkg, data=data)
        static = {}        # module -> set of functions (owner qualname / '<import>') the Lean check reports
        for fd in describe_failures(pkg, data, st['fails']):
            static.setdefault(fd['module'], set()).add(fd['function'])

        def fresh(name):
            code = ('import importlib, json, sys\n'
                    'try:\n'
                    f'    m = importlib.import_module({name!r})\n'
                    'except Exception as e:\n'
                    '    print(json.dumps({"<import>": type(e).__name__})); sys.exit(0)\n'
                    'out = {}\n'
                    'for n, f in sorted(vars(m).items()):\n'
                    '    if n.startswith(("ok_", "bad_")) and callable(f):\n'
                    '        try:\n'
                    '            f(); out[n] = None\n'
                    '        except (NameError, AttributeError) as e:\n'
                    '            out[n] = type(e).__name__\n'
                    'print(json.dumps(out))\n')
            r = subprocess.run([sys.executable, '-c', code], capture_output=True, text=True, cwd=tmp,
                               env=dict(os.environ, PYTHONPATH=tmp), timeout=900)
            if r.returncode != 0:
                raise Disagreement(f'synthetic package: pristine interpreter failed on {name}: {r.stderr[-300:]}')
            return json.loads(r.stdout.strip().splitlines()[-1])

        users = [n for n, _, _ in mods if n.split('.')[-1].startswith(('use_', 'bad_import_'))]
        with ThreadPoolExecutor(max_workers=8) as ex:
            dynamic = dict(zip(users, ex.map(fresh, users)))
        checked = 0
        for name in users:
            got, dyn = static.get(name, set()), dynamic[name]
            sm = pkg.by_name[name]
            if name.split('.')[-1].startswith('bad_import_'):
                if '<import>' not in got or '<import>' not in dyn:
                    raise Disagreement(f'synthetic {name}: import must fail; model reports {sorted(got)}, '
                                       f'pristine interpreter {dyn}')
                checked += 1
                continue
            if '<import>' in got or '<import>' in dyn:
                raise Disagreement(f'synthetic {name}: import must work; model reports {sorted(got)}, '
                                   f'pristine interpreter {dyn}')
            fns = {s.qualname.split('.')[-1] for s in sm.scopes if s.kind == 'function'}
            got_fns = {g.split('.')[-1] for g in got}
            for fn in sorted(f for f in fns if f.startswith(('ok_', 'bad_', 'out_'))):
                want_bad = fn.startswith('bad_')
                if (fn in got_fns) != want_bad:
                    raise Disagreement(f'synthetic {name}.{fn}: model {"reports" if fn in got_fns else "accepts"} it')
                if not fn.startswith('out_') and fn in dyn and (dyn[fn] is not None) != want_bad:
                    raise Disagreement(f'synthetic {name}.{fn}: pristine interpreter gives {dyn[fn]}')
                checked += 1
            extra = got_fns - {f for f in fns if f.startswith('bad_')}
            if extra:
                raise Disagreement(f'synthetic {name}: unexpected reports in {sorted(extra)}')
        st.pop('cls'), st.pop('data'), st.pop('fails')
        st['functions_checked_against_pristine_interpreter'] = checked
        st['dynamic_names_found'] = pkg.dynamic_names
        return st
    finally:
        sys.path.remove(tmp)
        for k in [k for k in sys.modules if k not in saved and k.split('.')[0] == 'c19synth']:
            del sys.modules[k]
        shutil.rmtree(tmp, ignore_errors=True)


# --------------------------------------------------------------------------
# dynamic probe (failing-input search)
# --------------------------------------------------------------------------

def reads_global(m, qualname, name):
    """Does the code object `qualname` of module `m` (compiled from its source) load `name` as a
    global/builtin (LOAD_GLOBAL / LOAD_NAME)?  qualname None = the module body."""
    import dis
    import inspect
    top = compile(inspect.getsource(m), m.__file__, 'exec')
    todo, found = [top], False
    while todo:
        c = todo.pop()
        todo.extend(k for k in c.co_consts if hasattr(k, 'co_code'))
        q = None if c is top else c.co_qualname
        # lambdas / comprehensions / generator expressions belong to their enclosing def
        while q and (q.rsplit('.', 1)[-1] in ('<lambda>', '<listcomp>', '<setcomp>', '<dictcomp>', '<genexpr>')
                     or q.rsplit('.', 1)[-1].startswith('<generic parameters of ')):
            q = q.rsplit('.', 1)[0] if '.' in q else None
            if q and q.endswith('.<locals>'):
                q = q[:-len('.<locals>')]
        if q == qualname:
            found = found or any(i.opname in ('LOAD_GLOBAL', 'LOAD_NAME') and i.argval == name
                                 for i in dis.get_instructions(c))
    return found


def probe_load(module, qualname, name):
    """Evaluate `name` the way the function would (module globals, then builtins).
    Returns (script, error or None)."""
    lines = ['import importlib; from harness.c19 import reads_global',
             f'm = importlib.import_module({module!r}); assert reads_global(m, {qualname!r}, {name!r})',
             f'eval({name!r}, vars(m))   # what `{qualname or "<module>"}` does when it reads `{name}`']
    try:
        m = importlib.import_module(module)
        if not reads_global(m, qualname, name):
            return lines, None
    except Exception as e:
        return lines, f'{type(e).__name__}: {e}'
    try:
        eval(name, vars(m))
    except NameError as e:
        return lines, f'NameError: {e}'
    except Exception:
        return lines, None
    return lines, None


def probe_chain(module, base_modobj_key, path_names):
    lines = ['import importlib']
    kind, modname = base_modobj_key[0], base_modobj_key[1]
    if len(base_modobj_key) > 2:
        # a package object reached from module base_modobj_key[2]: whether a submodule is an attribute of it depends on
        # what has been imported, so the chain is evaluated in a fresh interpreter that imports only that module
        import subprocess
        import sys
        ref = base_modobj_key[2]
        lines.append(f'importlib.import_module({ref!r})')
        lines.append(f'o = importlib.import_module({modname!r})')
        lines.append(f'for a in {list(path_names)!r}:\n    o = getattr(o, a)\n'
                     f'    if type(o) is not type(importlib): break')
        env = dict(os.environ, PYTHONPATH=C.REPO)
        r = subprocess.run([sys.executable, '-c', '\n'.join(lines)], capture_output=True, text=True, cwd=C.REPO, env=env)
        if r.returncode != 0 and 'AttributeError' in r.stderr:
            return lines, 'AttributeError: ' + r.stderr.strip().split('AttributeError:')[-1].strip()
        return lines, None
    lines.append(f'o = importlib.import_module({modname!r})')
    try:
        o = importlib.import_module(modname)
    except Exception as e:
        return lines, None
    import types
    for a in path_names:
        lines.append(f'o = getattr(o, {a!r})')
        try:
            o = getattr(o, a)
        except AttributeError as e:
            return lines, f'AttributeError: {e}'
        except Exception:
            return lines, None
        if not isinstance(o, types.ModuleType):
            break
    return lines, None


# --------------------------------------------------------------------------
# main flow
# --------------------------------------------------------------------------

def _first_error(log):
    return [l for l in log.split('\n') if 'error' in l.lower()][:6]


def describe_failures(pkg, data, fails):
    """Lean failure tuples -> dicts with names."""
    out = []
    names = data['names']
    for f in fails:
        if f[0] == 'L':
            _, mi, si, n, line = f
            m = data['modules'][mi]
            s = m['scopes'][si]
            out.append({'what': 'unresolved-name', 'module': m['name'], 'file': os.path.relpath(m['path'], C.REPO),
                        'function': s['owner'] or '<module>', 'name': names[n],
                        'lines': s['all_lines'].get(names[n], [line]), 'idx': (mi, si, n)})
        elif f[0] == 'C':
            _, mi, si, b, line = f
            m = data['modules'][mi]
            s = m['scopes'][si]
            for cb, path, cl in s['chains']:
                if cb == b and cl == line:
                    out.append({'what': 'missing-module-attribute', 'module': m['name'],
                                'file': os.path.relpath(m['path'], C.REPO),
                                'function': s['owner'] or '<module>', 'name': names[b],
                                'chain': '.'.join([names[b]] + [names[a] for a in path]), 'lines': [line],
                                'path': [names[a] for a in path], 'idx': (mi, si, b)})
        else:
            _, mi, mo, a, line = f
            m = data['modules'][mi]
            out.append({'what': 'missing-from-import', 'module': m['name'],
                        'file': os.path.relpath(m['path'], C.REPO), 'function': '<import>',
                        'name': names[a], 'from': data['modobjs'][mo]['key'][1], 'lines': [line],
                        'modobj': mo})
    return out


def probe(pkg, data, fdesc):
    if fdesc['what'] == 'unresolved-name':
        fn = None if fdesc['function'] == '<module>' else fdesc['function']
        return probe_load(fdesc['module'], fn, fdesc['name'])
    if fdesc['what'] == 'missing-module-attribute':
        mi, si, b = fdesc['idx']
        # module object the base denotes: look it up in the import tables of the module
        m = data['modules'][mi]
        for s in m['scopes']:
            for n, mo in s['imports']:
                if n == b:
                    key = data['modobjs'][mo]['key']
                    return probe_chain(fdesc['module'], key, fdesc['path'])
        return [], None
    key = data['modobjs'][fdesc['modobj']]['key']
    return probe_chain(fdesc['module'], key, [fdesc['name']])


def main(tier, seed, replay):
    if replay:
        return do_replay(replay)
    t0 = time.time()
    rng = C.Rng(seed)
    infra, breaks, out_lines = [], [], []
    checker_cmds = ['python -m harness.translate_names']
    stats = []

    # ---- 1. translate ----------------------------------------------------
    try:
        pkg = T.load_package()
        data = pkg.build()
    except SyntaxError as e:
        path = C.write_replay(PROP, {'property': PROP, 'kind': 'failing-input',
                                     'failures': [{'what': 'syntax-error', 'file': e.filename, 'lines': [e.lineno],
                                                   'script': [f'import ast; ast.parse(open({e.filename!r}).read())'],
                                                   'error': f'SyntaxError: {e.msg}'}], 'seed': seed, 'tier': tier})
        print(f'VIOLATION property={PROP} replay={path}')
        return 1
    except T.Unsupported as e:
        print(f'INFRA: translator does not support: {e}')
        return 2
    excused = excused_entries(data)
    T.write_if_changed(T.OUT, T.render(data, excused, f'{T.PKG} ({len(data["modules"])} modules)'))

    # ---- 2. driver + translator validation ---------------------------------
    driver_ok, dlog, _ = C.lake_build(['psidriver'])
    if not driver_ok:
        print('INFRA: psidriver does not build: ' + '; '.join(_first_error(dlog)))
        return 2
    fails = None
    try:
        st = validate(None, 'package', pkg=pkg, data=data)
        fails = st['fails']
        st.pop('cls'), st.pop('data'), st.pop('fails')
        stats.append(st)
        stats.append(corner_check())
        stats.append(synthetic_check())
        srcs, skipped = stdlib_sources(rng, 25 if tier == 'quick' else None)
        st = validate(srcs, 'stdlib-sample' if tier == 'quick' else 'stdlib-all')
        st.pop('cls'), st.pop('data'), st.pop('fails')
        st['skipped'] = skipped
        stats.append(st)
    except Disagreement as e:
        infra.append(f'translator validation failed (symtable disagrees): {e}')
    except Exception as e:
        infra.append(f'translator validation crashed: {type(e).__name__}: {e}')
        traceback.print_exc()
    if fails is None:
        try:
            _, _, fails = run_driver(data)
        except Exception as e:
            print(f'INFRA: driver run failed: {e}')
            return 2

    # ---- 3. proof build + audit ---------------------------------------------
    proof_ok, log, dt = C.lake_build(PROOF_MODULES)
    checker_cmds.append('cd lean && lake build ' + ' '.join(PROOF_MODULES))
    entries = C.registry(PROP)
    axioms, discharged = {}, 0
    if proof_ok:
        hits = C.grep_forbidden()
        if hits:
            infra.append('forbidden constructs in lean/: ' + '; '.join(hits[:5]))
        axioms, _ = C.print_axioms(entries)
        checker_cmds.append('lake env lean <#print axioms of each registered theorem>')
        for _, t in entries:
            ax = axioms.get(t)
            if ax is None:
                breaks.append(('theorem-missing', {'theorem': t}))
            elif not set(ax) <= C.ACCEPTED_AXIOMS:
                infra.append(f'{t} depends on unaccepted axioms {ax}')
            else:
                discharged += 1
        if tier == 'thorough':
            ok, out = C.leanchecker(PROOF_MODULES + ['PsiGen.Names'])
            checker_cmds.append('lake env leanchecker ' + ' '.join(PROOF_MODULES + ['PsiGen.Names']))
            if not ok:
                infra.append('leanchecker rejected: ' + out[-300:])
    else:
        breaks.append(('proof', {'modules': PROOF_MODULES, 'errors': _first_error(log)}))

    # ---- 4. classify failures -------------------------------------------------
    fdescs = describe_failures(pkg, data, fails)
    known_hit, fresh = {}, []
    for fd in fdescs:
        kid = known_id(fd['module'], fd['function'], fd['name']) if fd['what'] == 'unresolved-name' else None
        if kid:
            known_hit.setdefault(kid, fd)
        else:
            fresh.append(fd)
    for kid, fd in sorted(known_hit.items()):
        out_lines.append(f'KNOWN-FINDING: property={PROP} {kid}: {fd["file"]}:{fd["lines"][0]} '
                         f'`{fd["function"]}` reads unresolved name `{fd["name"]}`')
    exit_code = 0
    confirmed, unconfirmed = [], []
    for fd in fresh:
        script, err = probe(pkg, data, fd)
        rec = {k: v for k, v in fd.items() if k not in ('idx', 'modobj')}
        rec['script'] = script
        rec['error'] = err
        (confirmed if err else unconfirmed).append(rec)
    if confirmed:
        path = C.write_replay(PROP, {'property': PROP, 'kind': 'failing-input', 'failures': confirmed,
                                     'statically_unresolved_but_present_at_run_time': unconfirmed,
                                     'also_broken': [b[0] for b in breaks], 'seed': seed, 'tier': tier})
        out_lines.append(f'VIOLATION property={PROP} replay={path}')
        for rec in confirmed[:10]:
            out_lines.append(f'  {rec["file"]}:{rec["lines"][0]} `{rec["function"]}`: '
                             f'{rec.get("chain", rec["name"])} -> {rec["error"]}')
        exit_code = 1
    elif unconfirmed or breaks:
        path = C.write_replay(PROP, {'property': PROP, 'kind': 'no-failing-input-found',
                                     'no_longer_checks': [{'what': w, 'detail': d} for w, d in breaks] +
                                     [{'what': 'statically unresolved, but present at run time '
                                               '(dynamically injected?)', 'detail': r} for r in unconfirmed],
                                     'seed': seed, 'tier': tier})
        out_lines.append(f'VIOLATION property={PROP} replay={path} no-failing-input-found')
        exit_code = 1
    if infra and exit_code == 0:
        exit_code = 2

    # ---- 5. evidence -----------------------------------------------------------
    n_loads = sum(len(s['loads']) for m in data['modules'] for s in m['scopes'])
    n_chains = sum(len(s['chains']) for m in data['modules'] for s in m['scopes'])
    coverage = {
        'obligations': len(entries), 'discharged': discharged,
        'theorems': [{'name': t, 'module': m, 'axioms': axioms.get(t)} for m, t in entries],
        'checker_cmd': ' && '.join(checker_cmds),
        'trusted_base': C.BASE_TRUST[:2] + TRUST,
        'evaluations': sum(s['pairs_compared'] for s in stats),
        'distinct_nontrivial': sum(s['pairs_compared'] for s in stats),
        'rule': 'the model is regenerated from the source AST: every (scope, loaded name) of every package '
                'module is decided by the kernel (decide +kernel on the regenerated table); translator validation '
                'compares the Lean classification of every (scope, name) with CPython symtable on the package, a '
                'corner-case corpus and standard-library modules',
        'package': {'modules': len(data['modules']),
                    'scopes': sum(len(m['scopes']) for m in data['modules']),
                    'distinct_scope_name_loads': n_loads, 'attribute_chains': n_chains,
                    'from_imports': sum(len(m['from_imports']) for m in data['modules']),
                    'module_objects': len(data['modobjs']),
                    'excused_known_findings': [[data['modules'][a]['name'], data['modules'][a]['scopes'][b]['qualname'],
                                                data['names'][c]] for a, b, c in excused]},
        'translator_validation': stats,
        'names_bound_dynamically_at_import': getattr(pkg, 'dynamic_names', {}),
        'known_findings_hit': sorted(known_hit),
        'unresolved_fresh': len(fresh), 'confirmed_at_run_time': len(confirmed),
        'breaks': [b[0] for b in breaks], 'infrastructure_problems': infra,
        'exhaustive': True,
        'exhaustive_scope': 'all scopes and all evaluated name loads / module attribute chains of all modules under '
                            'psiaudio/ (static, all paths at once)',
    }
    C.write_evidence(PROP, tier, seed, coverage, ASSUMPTIONS, time.time() - t0, 1 if exit_code == 1 else 0)
    for l in out_lines:
        print(l)
    for i in infra:
        print('INFRA:', i)
    print(f'{PROP} {tier} seed={seed}: theorems {discharged}/{len(entries)}, '
          f'{n_loads} loads + {n_chains} chains in {len(data["modules"])} modules decided by the kernel, '
          f'symtable comparison on {sum(s["pairs_compared"] for s in stats)} (scope, name) pairs in '
          f'{sum(s["modules"] for s in stats)} modules, failing {len(fdescs)} (known {len(fdescs) - len(fresh)}), '
          f'exit {exit_code}, {time.time() - t0:.1f}s')
    return exit_code


TRUST = [
    'harness/translate_names.py (AST -> scope tables: which names each scope binds/loads/declares, which names are '
    'module imports, dir()/hasattr of the installed libraries) — validated on every run against CPython symtable',
    'CPython compile-time scoping is LEGB as implemented by symtable.c (the Lean `resolve` is compared with it on '
    'every (scope, name) of the package, a corner corpus and standard-library modules)',
    'attribute sets of installed libraries are those of the versions in /venv at check time',
]
ASSUMPTIONS = [
    'flow-insensitive: a name bound anywhere in its scope counts as bound (locals possibly unbound on some path '
    'and instance attributes are outside the claim, as the property states)',
    'names assigned under a `global` declaration in some function count as module globals',
    'attribute chains are checked as far as they stay inside module objects; modules that are not importable in '
    'this environment (optional dependencies) are outside the claim',
    'names created at import time by exec/setattr/globals()[...] are outside the claim: a statically unbound global '
    'that a pristine interpreter finds in the imported module counts as bound (listed in the evidence)',
    'a module-level name whose last top-level statement is `del name`, or only ever bound by `except … as name`, is '
    'not a module global; reads of it while the module body itself runs are flow-dependent and not checked',
    'which sub-modules of an installed package are attributes of it is decided in a pristine interpreter (after '
    'importing the package alone, else after importing the referencing module), not from this process',
    'aliases of module objects made by assignment (`sig = signal`) and `__all__` entries of modules nobody '
    'star-imports are not followed',
]


def do_replay(path):
    obj = json.load(open(path if os.path.isabs(path) else os.path.join(C.VERIF, path)))
    if obj.get('kind') != 'failing-input':
        print('replay names what no longer checks (no concrete input):')
        print(json.dumps(obj.get('no_longer_checks'), indent=1))
        return 1
    bad = 0
    for rec in obj['failures']:
        print(f'{rec.get("file")}:{rec.get("lines")} `{rec.get("function")}` {rec.get("chain", rec.get("name"))}')
        g = {}
        err = None
        for line in rec['script']:
            print('   >>>', line)
            try:
                exec(line, g)
            except AssertionError:
                print('   -> the function no longer reads that name')
                break
            except Exception as e:
                err = f'{type(e).__name__}: {e}'
                break
        print('   ->', err or 'no error (property holds on this input)')
        bad += err is not None
    return 1 if bad else 0
