#!/bin/sh
# seedregress_one.sh <ID>: re-run the filed seeded changes of one property against the current harness
cd /verif || exit 2
id=$1
for d in seeded/$id-*/; do
  n=$(basename $d); cid=$id
  case $n in C03-r2-2) cid=C10;; C08-r2-1) cid=C07;; esac
  r=$(./harness/seedtest_wt.sh /verif/seeded/$n/patch.diff $cid 2>&1 | head -1 | cut -c1-70)
  echo "$n: $r"
done
