"""C09 — finite stimuli honour their duration contract and envelope shape (psiaudio/stim.py)."""
import copy

import numpy as np

from . import common as C
from . import stim_common as S
from . import c01 as G
from .framework import Spec


def fmt_info(f):
    """n_samples / n_samples_remaining / is_complete of a real factory as `<ns> <rem> <0|1>`."""
    def ext(fn):
        try:
            v = fn()
        except (NotImplementedError, AttributeError, NameError):
            return 'na'
        if np.isinf(v):
            return 'inf'
        if float(v) != int(v):
            return repr(v)
        return str(int(v))
    return f'{ext(f.n_samples)} {ext(f.n_samples_remaining)} {1 if f.is_complete() else 0}'


def finite_tree(rng, fs, top):
    ones = {'t': 'silence', 'fill': 1}
    carrier = rng.choice([ones, ones, G.leaf(rng, fs, ('tone', 'bbn', 'silence', 'sqwave', 'samtone'))])
    if rng.random() < 0.25:
        carrier = rng.choice([G.sam, G.sqenv, G.notch])(rng, fs, G.leaf(rng, fs, ('tone', 'bbn'))) \
            if rng.random() < 0.7 else {'t': 'fixed', 'fs': fs, 'n': rng.randint(0, 300), 'seed': rng.randint(0, 9)}
    if top == 'gate':
        return G.gate(rng, fs, carrier)
    if top == 'env':
        return G.env(rng, fs, carrier)
    if top == 'cos2':
        return G.env(rng, fs, carrier, window='cos2factory')
    if top == 'fixed':
        return {'t': 'fixed', 'fs': fs, 'n': rng.randint(0, 600), 'seed': rng.randint(0, 99)}
    if top == 'repeat':
        return G.repeat(rng, fs)
    if top == 'fixedlike':
        return G.fixed_like(rng, fs)
    raise ValueError(top)


TOPS = ['gate', 'env', 'cos2', 'fixed', 'repeat']
ONES = {'t': 'silence', 'fill': 1}


def is_ones(node):
    return node.get('t') == 'silence' and node.get('fill') == 1 and type(node.get('fill')) is int


class C09(Spec):
    PROP = 'C09'
    MODEL = 'stim'
    PROOF_MODULES = ['PsiProofs.C09']
    DESIGN_REF = 'DESIGN.md §6 C09'
    PARALLEL = 16
    CASE_TIMEOUT = 60       # CPU seconds per case (the largest legitimate cases take a few seconds)
    TRUST = [
        'int(round(x*fs)) conversions are performed by the harness in Python with the identical expression; the model '
        'receives the integers',
        '"exactly zero" for enveloped stimuli means the product of an exact-zero envelope value and a finite carrier sample',
        'the window function is a parameter of the model (cells R i); that its values lie in [0, 1] is checked numerically '
        'on every table the harness instantiates, not proved',
    ] + G.C01.TRUST[:2]
    ASSUMPTIONS = ['start, duration, rise >= 0; carriers produce finite samples']
    RULE = ('gated / enveloped (every window, rise None included) / fixed / repeated stimuli over constant-one and other '
            'carriers, fs from the seven rates, times on and off the sample grid and at .5 ties, drawn along random and '
            'boundary partitions that run past the end, bookkeeping read after every draw; rejected rise times; '
            'non-trivial = history with >= 2 chunks that crosses the end of the stimulus. Hardening block (kinds tagged '
            '/var /hist /scale /many): constructor spellings, value representations and options as in C01, the '
            'FixedWaveform subclasses (n_samples = array length), IIR/FIR noise carriers, a repeat of a repeat; reset() '
            'before any draw / mid-way / after completion / twice with the bookkeeping re-read, get_samples_remaining(), '
            'NumPy integer chunk sizes, the caller overwriting the chunks; stimuli of 2^16..2^20 samples.')
    exhaustive_note = {
        'thorough': 'all 2^(N-1) partitions of N = total+3 <= 12 for every (start, duration, rise) <= (2, 6, 3) gate and '
                    'cosine-squared envelope over a constant-one carrier',
    }

    def __init__(self):
        self.cache = S.ModelCache('stim')
        self._calls = 0
        self._last = None

    # ---- cases ------------------------------------------------------------------------
    def gen_cases(self, rng, tier):
        per = 600 if tier == 'quick' else 4000
        for top in TOPS:
            for _ in range(per):
                fs = rng.choice(S.FS_LIST)
                tree = finite_tree(rng, fs, top)
                total = S.total_of(tree)
                n = total + rng.choice([0, 1, 2, 17, 300])
                n = max(n, 1)
                marks = S.marks_of(tree) + [total]
                chunks = rng.chunks(n, 8) if rng.random() < 0.4 else S.boundary_chunks(rng, n, marks)
                if rng.random() < 0.3:
                    chunks += [rng.randint(1, 50) for _ in range(rng.randint(1, 3))]
                yield {'kind': 'finite', 'cls': top, 'tree': tree, 'chunks': chunks}
        for _ in range(per // 2):
            fs = rng.choice(S.FS_LIST)
            e = G.env(rng, fs, {'t': 'silence', 'fill': 1}, span=300, valid=False)
            yield {'kind': 'finite', 'cls': 'reject', 'tree': e, 'chunks': [rng.randint(1, 50), rng.randint(1, 50)]}
        yield from self.hardening_cases(rng, tier)
        if tier == 'thorough':
            fs = 1000.0
            ones = {'t': 'silence', 'fill': 1}
            for lb in (0, 1, 2):
                for dur in range(0, 7):
                    yield {'kind': 'exh', 'cls': 'gate', 'N': min(lb + dur + 3, 12),
                           'tree': {'t': 'gate', 'fs': fs, 'start': lb / fs, 'dur': dur / fs, 'in': ones}}
                    for rise in (None, 0, 1, 2, 3):
                        if rise is not None and 2 * rise > dur:
                            continue
                        yield {'kind': 'exh', 'cls': 'env', 'N': min(lb + dur + 3, 12),
                               'tree': {'t': 'env', 'window': 'cosine-squared', 'fs': fs, 'start': lb / fs,
                                        'dur': dur / fs, 'rise': None if rise is None else rise / fs, 'in': ones}}

    # ---- HARDENING.md: input shapes and histories beyond the main generators ------------------------
    def hardening_cases(self, rng, tier):
        quick = tier == 'quick'

        def history(tree, total, past=(0, 1, 2, 17, 300)):
            n = max(total + rng.choice(past), 1)
            marks = S.marks_of(tree) + [total]
            chunks = rng.chunks(n, 8) if rng.random() < 0.4 else S.boundary_chunks(rng, n, marks)
            if rng.random() < 0.3:
                chunks += [rng.randint(1, 50) for _ in range(rng.randint(1, 3))]
            return chunks

        # items 1, 2: spellings, representations, options; the FixedWaveform subclasses; noise carriers; nested repeats
        for top in TOPS + ['fixedlike', 'noisecar', 'int', 'rrepeat']:
            m = {'noisecar': 6 if quick else 40, 'int': 30 if quick else 100}.get(top, 60 if quick else 400)
            for _ in range(m):
                fs = rng.choice(S.FS_LIST)
                if top == 'noisecar':
                    car = G.noise_leaf(rng, rng.choice(['blnoise', 'firnoise', 'shaped']))
                    tree = rng.choice([G.gate, G.env])(rng, car['fs'], car)
                elif top == 'int':
                    tree = G.int_tree(rng, rng.choice(['gate', 'env']))
                elif top == 'rrepeat':
                    tree = G.repeat(rng, fs)
                    tot = S.total_of(tree)
                    tree = {'t': 'repeat', 'fs': fs, 'n': rng.randint(0, 3), 'skip': rng.randint(0, 1),
                            'rate': fs / (tot + rng.randint(0, 3) + 1), 'delay': rng.randint(0, 1) / fs, 'in': tree}
                else:
                    tree = finite_tree(rng, fs, top)
                if top != 'int' and rng.random() < 0.8:
                    tree = G.vary(rng, tree, transform=False)
                    if top == 'noisecar' and tree['in']['t'] == 'blnoise':
                        # filter designs the carrier's own constructor refuses ("Unstable filter coefficients") say
                        # nothing about the finite stimulus
                        tree['in'].update(rolloff=1, pass_att=1, stop_att=80)
                yield {'kind': 'finite', 'cls': top, 'tree': tree, 'chunks': history(tree, S.total_of(tree)), 'tag': 'var'}
        # item 9: optional constructor arguments left out (start_time, transform, window, normalization, carrier options):
        # the contract is the one of the documented defaults
        for top in TOPS + ['fixedlike']:
            for _ in range(20 if quick else 100):
                fs = rng.choice(S.FS_LIST)
                tree = G.defaults_tree(rng, finite_tree(rng, fs, top))
                yield {'kind': 'finite', 'cls': top, 'tree': tree, 'chunks': history(tree, S.total_of(tree)), 'tag': 'dflt'}
        # item 7 (siblings): a stimulus that differs in exactly one optional argument (a transform callable, the window
        # name, start, duration) was built and drawn with the same chunking just before: the contract of the second one
        # is untouched (a module-level memo whose key forgets an argument would hand it the other's fragments)
        for top in ('env', 'env', 'env', 'cos2', 'gate'):
            for i in range(12 if quick else 80):
                fs = rng.choice(S.FS_LIST)
                tree = finite_tree(rng, fs, top)
                if rng.random() < 0.7:
                    tree['in'] = dict(ONES)
                if top == 'env' and tree['window'] == 'cos2factory':
                    tree['window'] = 'cosine-squared'
                sib = G.one_param_twin(rng, tree, key=['transform', 'transform', 'window', 'start', 'dur'][i % 5]
                                       if top == 'env' else None)
                if sib is None:
                    continue
                yield {'kind': 'finite', 'cls': top, 'tree': tree, 'chunks': history(tree, S.total_of(tree)), 'tag': 'sib',
                       'sib': sib}
        # items 5, 6: reset and re-use (before any draw, mid-way, after completion, twice), get_samples_remaining(),
        # NumPy integer chunk sizes, the caller overwriting the chunks it received
        for top in TOPS + ['fixedlike']:
            for _ in range(60 if quick else 400):
                fs = rng.choice(S.FS_LIST)
                tree = finite_tree(rng, fs, top)
                if rng.random() < 0.3:
                    tree = G.vary(rng, tree, transform=False)
                total = S.total_of(tree)
                c = {'kind': 'finite', 'cls': top, 'tree': tree, 'tag': 'hist'}
                if total > 1 and rng.random() < 0.4:
                    n = rng.randint(1, total - 1)
                    c['gsr'] = total - n
                    c['chunks'] = rng.chunks(n, 5) if rng.random() < 0.5 else S.boundary_chunks(rng, n, S.marks_of(tree))
                else:
                    c['chunks'] = history(tree, total)
                pre = []
                for _ in range(rng.choice([0, 1, 1, 1, 2, 3])):
                    k = rng.choice([0, 1, max(total - 1, 0), total, total + 7, rng.randint(0, total + 300)])
                    pre.append(rng.chunks(k, 4) if k else [])
                if pre:
                    c['pre'] = pre
                if rng.random() < 0.3:
                    c['ntype'] = rng.choice(['i64', 'i32'])
                if rng.random() < 0.4:
                    c['mutate'] = True
                yield c
        # item 3: stimuli of 2^16 .. 2^20 samples; thousands of draws
        for cls in ('gate', 'env', 'fixed', 'repeat'):
            for _ in range(1 if quick else 4):
                tree = G.big_tree(rng, cls)
                if cls in ('gate', 'env') and rng.random() < 0.5:
                    tree['in'] = dict(ONES)
                yield {'kind': 'finite', 'cls': cls, 'tree': tree, 'tag': 'scale',
                       'chunks': history(tree, S.total_of(tree), past=(1, 2, 70000))}
        for top in rng.sample(TOPS, 2 if quick else 5):
            tree = finite_tree(rng, rng.choice(S.FS_LIST), top)
            yield {'kind': 'finite', 'cls': top, 'tree': tree, 'tag': 'many',
                   'chunks': [rng.randint(1, 3) for _ in range(S.total_of(tree) // 2 + 20)]}

    def cases(self, rng, tier):
        self._calls += 1
        gen = self.gen_cases(rng, tier)
        if self._calls > 1:
            yield from gen
            return
        allc = list(gen)
        try:
            self.cache.fill(allc + self.corpus(), self.model_lines)
        except Exception:
            pass
        yield from allc

    # ---- lines ------------------------------------------------------------------------
    @staticmethod
    def histories(c):
        """Chunk-size lists, each drawn from a fresh generator (exh: a new object per list; finite: one object,
        `reset()` between the lists).  `gsr` = the count the last draw obtains through get_samples_remaining()."""
        if c['kind'] == 'exh':
            return list(S.all_partitions(c['N']))
        return [list(h) for h in c.get('pre', [])] + [list(c['chunks']) + ([c['gsr']] if c.get('gsr') else [])]

    def model_lines(self, c):
        hs = self.histories(c)
        if c['kind'] == 'exh':
            ok = G.model_applies(c['tree'], max(hs, key=len))
        else:
            ok = all(G.model_applies(c['tree'], h) for h in hs)
        if not ok:
            return []
        expr = S.Plan(c['tree']).expr
        out = []
        for h in hs:
            out += ['new ' + expr, 'info']
            for n in h:
                out += [f'next {n}', 'info']
        return out

    ERRS = (ValueError, ZeroDivisionError)

    def run_real(self, c):
        """Per history: ('err', name) or list of records (chunk | error name, info string).  Optional case fields as
        in C01.run_factory: `pre`, `gsr`, `ntype`, `mutate`."""
        res = []
        f = None
        hs = self.histories(c)
        conv = G.NTYPES.get(c.get('ntype'), int)
        if c.get('sib') and c['kind'] != 'exh':
            # a sibling stimulus (one optional argument changed) is built and drawn along the very same chunking first
            try:
                a = S.build_real(c['sib'])
                for i, h in enumerate(hs):
                    if i:
                        a.reset()
                    for n in h:
                        a.next(conv(n))
            except self.ERRS:
                pass
        for i, h in enumerate(hs):
            if c['kind'] == 'exh' or i == 0:
                try:
                    f = S.build_real(c['tree'])
                except self.ERRS as e:
                    if c['kind'] == 'exh':
                        res.append(('err', type(e).__name__))
                        continue
                    return [('err', type(e).__name__) for _ in hs]
            else:
                f.reset()
            rec = [(None, fmt_info(f))]
            for j, n in enumerate(h):
                rest = c['kind'] != 'exh' and bool(c.get('gsr')) and i == len(hs) - 1 and j == len(h) - 1
                try:
                    x = f.get_samples_remaining() if rest else f.next(conv(n))
                    keep = np.array(x)
                    if c.get('mutate'):
                        G.scribble(x)
                    x = keep
                except self.ERRS as e:
                    x = type(e).__name__
                rec.append((x, fmt_info(f)))
            res.append(rec)
        return res

    def model_out(self, c, ml):
        """Model output for the case; when the driver cannot be run the lines say so (the oracle is unaffected)."""
        try:
            return self.cache.get(c, self.model_lines)
        except Exception as e:
            return [f'no-model ({type(e).__name__})'] * len(ml)

    def impl_lines(self, c):
        res = self.run_real(c)
        self._last = (C.case_hash(c), res)
        ml = self.model_lines(c)
        if not ml:
            return []
        mout = self.model_out(c, ml)
        plan = S.Plan(c['tree'])
        plan.hint = max(sum(h) for h in self.histories(c))
        tol = S.tree_tol(c['tree'])
        out, j = [], 0
        for h, rec in zip(self.histories(c), res):
            if rec and rec[0] == 'err':
                out += [f'err {rec[1]}'] + ['bad-op'] * (1 + 2 * len(h))
                j += 2 + 2 * len(h)
                continue
            out += ['ok', rec[0][1]]
            j += 2
            for x, info in rec[1:]:
                out.append(f'err {x}' if isinstance(x, str) else G.C01.compare(plan, mout[j], x, tol, 1.0))
                out.append(info)
                j += 2
        return out

    # ---- the property itself ---------------------------------------------------------
    def oracle(self, c, out):
        if any(l.startswith('HARNESS-EXC') for l in out):
            return out[0]
        res = self._last[1] if self._last and self._last[0] == C.case_hash(c) else self.run_real(c)
        tree = c['tree']
        t = tree['t']
        fs = tree.get('fs')
        if t in ('gate', 'env'):
            lb = int(round(tree['start'] * fs))
            dur = int(round(tree['dur'] * fs))
            total = lb + dur
        elif t == 'fixed':
            lb, dur, total = 0, tree['n'], tree['n']
        elif t in S.FIXED_LIKE:
            total = S.fixed_len(tree)         # "or its array length"
            lb, dur = 0, total
        else:
            total = (tree['n'] + tree['skip']) * int(round(fs / tree['rate']))
            lb, dur = 0, total
        reject = False
        r = None
        if t == 'env':
            r = dur // 2 if tree['rise'] is None else int(round(tree['rise'] * fs))
            reject = dur < 2 * r
        for h, rec in zip(self.histories(c), res):
            if rec and rec[0] == 'err':
                return f'constructor raised {rec[1]}'
            ns, rem, done = rec[0][1].split()
            if ns != str(total):
                return f'n_samples() = {ns}, expected {total}'
            if rem != str(total) or done != ('1' if total <= 0 else '0'):
                return f'fresh stimulus reports remaining {rem}, complete {done}; total is {total}'
            drawn = 0
            chunks = []
            for n, (x, info) in zip(h, rec[1:]):
                if reject:
                    if not isinstance(x, str):
                        return f'rise {r} > duration {dur} / 2 was not rejected'
                    continue
                if isinstance(x, str):
                    return f'next({n}) raised {x} (duration {dur}, rise {r})'
                if len(x) != n:
                    return f'next({n}) returned {len(x)} samples'
                drawn += n
                chunks.append(x)
                ns, rem, done = info.split()
                if ns != str(total):
                    return f'n_samples() changed to {ns}'
                if rem != str(max(total - drawn, 0)):
                    return f'after {drawn} of {total} samples n_samples_remaining() = {rem}'
                if done != ('1' if drawn >= total else '0'):
                    return f'after {drawn} of {total} samples is_complete() = {done}'
            if reject or not chunks:
                continue
            y = np.concatenate(chunks)
            k = np.arange(len(y))
            outside = (k < lb) | (k >= lb + dur)
            if np.any(y[outside] != 0):
                i = int(k[outside][np.flatnonzero(y[outside] != 0)[0]])
                return f'sample {i} outside [{lb}, {lb + dur}) is {y[i]!r} (history {h})'
            if t == 'env' and is_ones(tree['in']):
                from psiaudio import stim
                from scipy import signal
                w = S.window_name(tree)
                tbl = stim.cos2ramp(2 * r) if w == 'cosine-squared' else getattr(signal.windows, w)(2 * r)
                want = np.concatenate([np.zeros(lb), tbl[:r], np.ones(dur - 2 * r), tbl[r:], np.zeros(max(len(y) - total, 0))])
                m = min(len(y), len(want))
                if not np.array_equal(y[:m], want[:m]):
                    i = int(np.flatnonzero(y[:m] != want[:m])[0])
                    return (f'envelope sample {i} is {y[i]!r}, the {w} shape (start {lb}, rise {r}, duration {dur}) '
                            f'has {want[i]!r} (history {h})')
                if w in S.NONNEG_WINDOWS and (np.any(y < 0) or np.any(y > 1)):
                    return f'envelope leaves [0, 1] (window {w})'
        return None

    def nontrivial(self, c, out):
        if c['kind'] == 'exh':
            return True
        return len(c['chunks']) >= 2 and sum(c['chunks']) > (S.total_of(c['tree']) or 0)

    def kind(self, c):
        return c['kind'] + ':' + c['cls'] + ('/' + c['tag'] if c.get('tag') else '')

    def neighbours(self, c, rng):
        if c['kind'] != 'finite':
            return
        n = sum(c['chunks'])
        for _ in range(30):
            d = copy.deepcopy(c)
            d.pop('gsr', None)      # (the count get_samples_remaining() is expected to deliver belongs to the old chunks)
            d['chunks'] = S.boundary_chunks(rng, max(n + rng.randint(0, 3), 1), S.marks_of(c['tree']) + [n])
            yield d

    def shrink_candidates(self, c):
        if c['kind'] == 'exh':
            for h in S.all_partitions(c['N']):
                yield {'kind': 'finite', 'cls': c['cls'], 'tree': c['tree'], 'chunks': h}
            return
        ch = c['chunks']
        ones = {'t': 'silence', 'fill': 1}
        for key in ('pre', 'gsr', 'mutate', 'ntype', 'sib'):
            if key in c:
                yield {k: v for k, v in c.items() if k != key}
        if c.get('pre'):
            yield {**c, 'pre': c['pre'][1:]}
            yield {**c, 'pre': [h[:-1] for h in c['pre']]}
        if c.get('gsr'):
            return
        if 'in' in c['tree'] and c['tree']['t'] != 'repeat' and c['tree']['in'] != ones:
            yield {**c, 'tree': {**c['tree'], 'in': ones}}
        for i in range(len(ch) - 1):
            yield {**c, 'chunks': ch[:i] + [ch[i] + ch[i + 1]] + ch[i + 2:]}
        if len(ch) > 1:
            yield {**c, 'chunks': ch[:-1]}
        for i in range(len(ch)):
            if ch[i] > 1:
                yield {**c, 'chunks': ch[:i] + [ch[i] // 2] + ch[i + 1:]}
                yield {**c, 'chunks': ch[:i] + [ch[i] - 1] + ch[i + 1:]}

    def describe(self, c):
        return f"{S.Plan(c['tree']).expr} | chunks {c.get('chunks', 'all partitions of %s' % c.get('N'))} | {c['tree']}"[:600]


SPEC = C09()
