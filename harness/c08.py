"""C08 — stimuli have the requested calibrated level; level and polarity scale exactly.

Model (lean/PsiModel/DbField.lean, `Float` instance, `psidriver calib`): every stimulus is
`polarity * sf(level) * proto(params, k)`, optionally followed by `lfilter` started from a state that is zero
(notch filter, after fix C08_fix_1), not scaled but decayed below 1e-80 after the discarded second
(BandlimitedNoiseFactory) or fully flushed before the first returned sample (FIR factories).
The prototype cells (unit draws of the real RandomState, filter coefficients of the real design routines, the
unit-level chirp / click) come from the real code's own primitives; the model supplies the scaling structure.

Oracle (the property on the implementation): polarity -1 negates every sample bit-exactly; +d dB multiplies
every sample by 10^(d/20) to 1e-9 of full scale (1e-6 for float32 wav playback); documented level definitions:
tone 1e-9 dB on whole cycles (0.1 dB otherwise), SAM components 1e-9 relative on whole cycles, click amplitude
exact, band-limited click 0.01 dB over its 1 s period, chirp / broadband noise 0.5 dB on 1 s, IIR band-limited and
shaped noise 1 dB on 1 s (the tolerance of the library's own tests/test_stim_noise.py).
"""
import math
import os
import tempfile

import numpy as np

from .calib_util import FloatSpec, f2b, fl, num, vals, err, quiet, RTOL
from .c07 import mkcal, ctor_line, rep_scalar, order_rows, TABLE_REPRS, NUM_REPRS

LIN_TOL = 1e-9
FILT_TOL = 1e-9        # model vs implementation for recursive filters (relative to the largest sample)

# model vs implementation, new stimulus shapes (measured on the unchanged library, 4 seeds x 540 cases each):
# band-limited click (naive inverse DFT of the model vs irfft): worst 4.0e-13 of full scale -> 1e-10;
# wav playback is float32 arithmetic in the library (int16 -> unit range, normalisation, *= sf: at most ~6 float32
# roundings of 6e-8 each, plus the float32 mean inside util.rms) against float64 in the model: worst 1.8e-7 -> 1e-6
# (the same figure as the float32 level-linearity tolerance below); Cos2Envelope x tone: bit-identical -> tone's 1e-12.
# chirp from its window samples: the model adds w**2 in list order, np.sum pairwise, and the phase is a cumulative sum of a
# cumulative sum over up to 25 000 samples: worst 2.8e-11 of full scale over 4 seeds x 300 cases (median 0: boxcar) -> 1e-9.
CHIRP_TOL = 1e-9
BLCLICK_TOL = 1e-10
WAV_TOL = 1e-6

# wav playback through a calibration object whose gain was changed after an earlier load_wav with the same arguments:
# see notes/C08.md "pending defect" (fast_cache keys on the calibration *object*); the demand is switched on once the
# integrator has decided (VERIF_PENDING=1 reproduces it)
PENDING_WAV_REGAIN = True       # repaired by fix 4d4b8d5, demanded since

_WAV = {}


def _wavdir():
    """scratch directory for this run's wav fixtures: created by the first process that needs one, inherited by worker
    processes through the environment, removed when the creating process exits"""
    import atexit
    import shutil
    d = os.environ.get('PSI_C08_WAVDIR')
    if not d or not os.path.isdir(d):
        d = tempfile.mkdtemp(prefix='psiverif_c08_')
        os.environ['PSI_C08_WAVDIR'] = d
        pid = os.getpid()
        atexit.register(lambda: shutil.rmtree(d, ignore_errors=True) if os.getpid() == pid else None)
    return d


def wav_path(seed, dtype):
    """a small deterministic wav file (written once per process)"""
    key = (seed, dtype)
    if key not in _WAV:
        from scipy.io import wavfile
        d = _wavdir()
        rs = np.random.RandomState(seed)
        x = rs.randn(2000) * 0.2 * np.hanning(2000)
        if dtype == 'uint8':
            x = np.clip(x * 127 + 128, 0, 255).astype(np.uint8)
        elif dtype in ('int16', 'int32'):
            ii = np.iinfo(dtype)
            x = np.clip(x * ii.max, ii.min, ii.max).astype(dtype)
        else:
            x = x.astype(np.float32)
        p = os.path.join(d, f'w{seed}_{dtype}.wav')
        wavfile.write(p, 20000, x)
        _WAV[key] = p
    return _WAV[key]


def wav_raw(c):
    """the samples stored in the case's wav file, or None when playback resamples (fs != file rate)"""
    from scipy.io import wavfile
    file_fs, raw = wavfile.read(wav_path(c['seed'], c['dtype']))
    return np.asarray(raw) if file_fs == c['fs'] else None


def blclick_geometry(c):
    """(n, n_window, klo, khi, probe indices) of a band-limited click whose model line applies: even period
    n = round(fs), window no longer than the period, a contiguous non-empty pass band"""
    import random
    fs = c['fs']
    n, nw = int(round(fs)), int(round(c['win'] * fs))
    freq = np.fft.rfftfreq(n, d=1 / fs)
    idx = np.flatnonzero((freq >= c['flb']) & (freq < c['fub']))
    if n % 2 or nw > n or nw < 1 or not len(idx) or not np.array_equal(idx, np.arange(idx[0], idx[-1] + 1)):
        return None
    r = random.Random(c['seed'])
    probes = sorted({0, 1, nw - 1, nw // 2 - 1, nw // 2, (nw // 2 + 1) % nw} | {r.randrange(nw) for _ in range(12)})
    return n, nw, int(idx[0]), int(idx[-1]) + 1, [p for p in probes if 0 <= p < nw]


def chunks_of(c):
    return c.get('chunks') or [c['n']]


def _run(f, c):
    """play a factory in the case's chunks; with `reuse` the factory has been used before (some samples drawn, then
    reset) -- the property is about the object as the caller finds it, not only about a brand-new one"""
    if c.get('reuse'):
        for n in c['reuse']:
            f.next(n)
        f.reset()
    return np.concatenate([f.next(n) for n in chunks_of(c)]) if chunks_of(c) else np.zeros(0)


# ---- hardening item 9: optional arguments left out ------------------------------------------------
# documented defaults of the optional arguments (signatures / docstrings of psiaudio.stim).  A case with
# c['omit'] == 'omit' leaves out every optional argument whose value is the documented default; with 'spell' every
# optional argument is written down, those the case says nothing about at their documented default; the oracle
# demands that both spellings of the request give the same stimulus.  Other cases call as they always did.
INF = float('inf')
_OMITTED = []          # what the last 'omit' call left out (for the failure message)
DOC = {
    'tone': dict(phase=0, polarity=1, offset=0),
    'ToneFactory': dict(phase=0, polarity=1),
    'Cos2EnvelopeFactory': dict(start_time=0),
    'sam_tone': dict(depth=1, phase=0, phase_lb=0, phase_ub=0, polarity=1, offset=0, eq_power=True, equalize=True),
    'SAMToneFactory': dict(depth=1, phase=0, phase_lb=0, phase_ub=0, polarity=1, eq_power=True, equalize=True),
    'chirp': dict(window='boxcar', equalize=False, max_correction=INF),
    'bandlimited_click': dict(window=0.1, level_unit='rms', equalize=False, max_correction=INF),
    'BandlimitedClickFactory': dict(equalize=False, max_correction=INF),
    'broadband_noise': dict(seed=1, equalize=False, polarity=1),
    'notch_noise': dict(seed=1, equalize=False, polarity=1),
    'BandlimitedNoiseFactory': dict(equalize=False, polarity=1, discard_initial_samples=True),
    'bandlimited_noise': dict(filter_rolloff=1, passband_attenuation=1, stopband_attenuation=80, equalize=False,
                              polarity=1, seed=1),
    'bandlimited_fir_noise': dict(ntaps=10001, window='hann', polarity=1, seed=1, equalize=True),
    'BandlimitedFIRNoiseFactory': dict(ntaps=1001, window='hann', polarity=1, max_correction=INF, equalize=False),
    'shaped_noise': dict(ntaps=10001, window='hann', polarity=1, seed=1),
    'load_wav': dict(normalization=None),
    'WavFileFactory': dict(normalization='pe'),
}


def _is_doc_default(v, d):
    if d is None or isinstance(d, (bool, str)):
        return type(v) is type(d) and v == d
    return v is not None and not isinstance(v, (bool, str)) and float(v) == float(d)


def _kw(name, c, **opts):
    mode = c.get('omit')
    if mode == 'omit':
        out = {k: v for k, v in opts.items() if not (k in DOC[name] and _is_doc_default(v, DOC[name][k]))}
        _OMITTED.extend(f'{name}({k}={DOC[name][k]!r})' for k in opts if k not in out)
        return out
    if mode == 'spell':
        return {**DOC[name], **opts}
    return opts


def _eqopts(c):
    """equalisation options of the case: `eqz` (equalize flag) and `mc` (max_correction: 'default' = left out,
    'inf', or a number of dB)"""
    if 'eqz' not in c:
        return {}
    o = {'equalize': bool(c['eqz'])}
    mc = c.get('mc', 'default')
    if mc != 'default':
        o['max_correction'] = INF if mc == 'inf' else float(mc)
    return o


def _edge(c, k):
    """a band edge as the caller wrote it: the float, or (case field intedges) the same whole number as a Python int"""
    return int(c[k]) if c.get('intedges') else c[k]


def build(c, L, pol, cal=None):
    """The real stimulus for case `c` at level L and polarity pol."""
    from psiaudio import stim
    _OMITTED.clear()
    cal = mkcal(c['cal']) if cal is None else cal
    fs, k = c['fs'], c['kind']
    # the caller's spelling of the same numbers: whole numbers as Python / NumPy integers, NumPy floats
    fs = rep_scalar(fs, c.get('fsrepr'))
    L = rep_scalar(L, c.get('Lrepr'))
    if c.get('polrepr') == 'float':
        pol = float(pol)
    elif c.get('polrepr') == 'npint':
        pol = np.int64(pol)
    plain = not c.get('omit')
    if k == 'tone':
        if c.get('tonekw') == 'duration' and not c.get('offset') and plain:
            return stim.tone(fs, c['f'], L, c['ph'], pol, cal, duration=(c['n'] + 0.25) / c['fs'])
        return stim.tone(fs, c['f'], L, calibration=cal, samples=c['n'],
                         **_kw('tone', c, phase=c['ph'], polarity=pol, offset=c.get('offset', 0)))
    if k == 'tone_factory':
        f = stim.ToneFactory(fs, c['f'], L, calibration=cal, **_kw('ToneFactory', c, phase=c['ph'], polarity=pol))
        return _run(f, c)
    if k == 'ramped':
        f = stim.Cos2EnvelopeFactory(fs, duration=c['n'] / fs, rise_time=c['n'] / fs / 4, input_factory=stim.ToneFactory(
            fs, c['f'], L, calibration=cal, **_kw('ToneFactory', c, phase=c['ph'], polarity=pol)),
            **_kw('Cos2EnvelopeFactory', c))
        return _run(f, c)
    if k == 'sam':
        return stim.sam_tone(fs, c['fc'], c['fm'], L, calibration=cal, samples=c['n'],
                             **_kw('sam_tone', c, phase=c['ph'], phase_lb=c['phl'], phase_ub=c['phu'], polarity=pol,
                                   offset=c.get('offset', 0), eq_power=c['eq_power'], equalize=c['equalize']))
    if k == 'sam_factory':
        f = stim.SAMToneFactory(fs, c['fc'], c['fm'], L, calibration=cal,
                                **_kw('SAMToneFactory', c, phase=c['ph'], phase_lb=c['phl'], phase_ub=c['phu'],
                                      polarity=pol, eq_power=c['eq_power'], equalize=c['equalize']))
        return _run(f, c)
    if k == 'chirp':
        kw = _kw('chirp', c, window=c['window'], **_eqopts(c))
        if c.get('factory'):
            return stim.ChirpFactory(fs, c['f0'], c['f1'], c['n'] / fs, L, cal, **kw).waveform
        return stim.chirp(fs, c['f0'], c['f1'], c['n'] / fs, L, calibration=cal, **kw)
    if k == 'click':
        return stim.ClickFactory(fs, (c['n'] + 0.5) / fs, L, pol, cal).waveform     # int(fs*duration) = n
    if k == 'blclick':
        if c.get('factory'):
            return stim.BandlimitedClickFactory(fs, c['flb'], c['fub'], c['win'], L, calibration=cal,
                                                **_kw('BandlimitedClickFactory', c, **_eqopts(c))).waveform
        return stim.bandlimited_click(fs, c['flb'], c['fub'], level=L, calibration=cal,
                                      **_kw('bandlimited_click', c, window=c['win'], **_eqopts(c)))
    if k == 'bbn':
        kw = _kw('broadband_noise', c, seed=c['seed'], polarity=pol)
        if c.get('chunks'):
            f = stim.BroadbandNoiseFactory(fs, L, calibration=cal, **kw)
            return _run(f, c)
        return stim.broadband_noise(fs, L, c['n'] / fs, calibration=cal, **kw)
    if k == 'notch':
        if c.get('chunks'):
            nf = stim.BroadbandNoiseFactory(fs=fs, level=L, calibration=cal,
                                            **_kw('broadband_noise', c, seed=c['seed'], polarity=pol))
            f = stim.NotchFilterFactory(fs=fs, notch_frequency=c['fn'], q=c['q'], input_factory=nf)
            return _run(f, c)
        return stim.notch_noise(fs, c['fn'], c['q'], L, c['n'] / fs, calibration=cal,
                                **_kw('notch_noise', c, seed=c['seed'], polarity=pol))
    if k == 'bln':
        if c.get('chunks'):
            f = stim.BandlimitedNoiseFactory(fs, c['seed'], L, _edge(c, 'fl'), _edge(c, 'fh'), 1, 1, 80, calibration=cal,
                                            **_kw('BandlimitedNoiseFactory', c, polarity=pol,
                                                  discard_initial_samples=c.get('discard', True)))
            return _run(f, c)
        return stim.bandlimited_noise(fs, L, _edge(c, 'fl'), _edge(c, 'fh'), c['n'] / fs, calibration=cal,
                                      **_kw('bandlimited_noise', c, polarity=pol, seed=c['seed']))
    if k == 'fir':
        if c.get('factory'):
            # (the factory's own default seed is None = not reproducible: always given)
            f = stim.BandlimitedFIRNoiseFactory(fs, _edge(c, 'fl'), _edge(c, 'fh'), L, seed=c['seed'], calibration=cal,
                                                **_kw('BandlimitedFIRNoiseFactory', c, ntaps=c['ntaps'], polarity=pol,
                                                      **dict({'equalize': c['equalize']}, **_eqopts(c))))
            return _run(f, c)
        return stim.bandlimited_fir_noise(fs, L, _edge(c, 'fl'), _edge(c, 'fh'), c['n'] / fs, calibration=cal,
                                          **_kw('bandlimited_fir_noise', c, ntaps=c['ntaps'], polarity=pol,
                                                seed=c['seed'], equalize=c['equalize']))
    if k == 'shaped':
        gains = {float(a): float(b) for a, b in c['gains']}
        keep = dict(gains)
        w = stim.shaped_noise(fs, L, gains, c['n'] / fs, calibration=cal,
                              **_kw('shaped_noise', c, ntaps=c['ntaps'], polarity=pol, seed=c['seed']))
        if gains != keep:
            raise AssertionError(f'shaped_noise modified the gains dictionary it was given: {keep} -> {gains}')
        return w
    if k == 'wav':
        p = wav_path(c['seed'], c['dtype'])
        if c.get('pathlib'):
            import pathlib
            p = pathlib.Path(p)
        how = c.get('wavcall') if plain else None
        if c.get('factory'):
            f = stim.WavFileFactory(fs, p, L, cal, c['norm']) if how == 'positional' else \
                stim.WavFileFactory(fs, p, L, cal, **_kw('WavFileFactory', c, normalization=c['norm']))
            if c.get('chunks'):
                return np.asarray(_run(f, c))            # what is played: next() in chunks (zero-padded past the end)
            return np.asarray(f.waveform)
        if how == 'positional':
            return np.asarray(stim.load_wav(fs, p, L, cal, c['norm']))
        if how == 'allkw':
            return np.asarray(stim.load_wav(fs=fs, filename=p, level=L, calibration=cal, normalization=c['norm']))
        return np.asarray(stim.load_wav(fs, p, L, cal, **_kw('load_wav', c, normalization=c['norm'])))
    raise ValueError(k)


HAS_POLARITY = {'tone', 'tone_factory', 'ramped', 'sam', 'sam_factory', 'click', 'bbn', 'notch', 'bln', 'fir', 'shaped'}


def db_of(x):
    return 20 * math.log10(x) if x > 0 else float('-inf')


def level_definition(c, cal, L, a):
    """Documented level definition of the stimulus (None = met)."""
    from psiaudio import util
    k = c['kind']
    fs, n = c['fs'], len(a)
    if n == 0:
        return None                 # an empty stimulus has no level
    if k in ('tone', 'tone_factory'):
        f = c['f']
        rms = float(util.rms(a))
        sf = float(np.asarray(cal.get_sf(f, L)))
        back = float(np.asarray(cal.get_db(f, rms)))
        cycles = f * n / fs
        whole = c.get('whole')
        if whole:
            tol = 1e-9
        else:
            # mean square of sqrt(2)*A*cos(theta0 + k*w), k < n, is A^2 * (1 + S/n) with
            # |S| = |sum cos(2*theta_k)| <= 1/|sin(w)|, w = 2*pi*f/fs: the exact worst-case departure of a
            # finite, non-whole-cycle segment (in dB: 10*log10(1 +- bound)); 1e-6 dB on top for round-off
            bound = 1.0 / (n * max(abs(np.sin(2 * np.pi * f / fs)), 1e-12))
            if bound >= 0.5:
                return None
            tol = -10 * np.log10(1 - bound) + 1e-6
        if abs(back - L) > tol or abs(db_of(rms) - db_of(sf)) > tol:
            return (f'tone at {L!r} dB, {f!r} Hz ({cycles:.6g} cycles): RMS {rms!r}, get_sf = {sf!r}, measured back '
                    f'through the calibration {back!r} dB (tolerance {tol:.3g} dB)')
    elif k in ('sam', 'sam_factory') and c.get('whole'):
        z = util.csd(a, detrend=None)
        eq = float(np.sqrt(3.0 / 8.0)) if c['eq_power'] else 1.0
        for w, f in zip((0.25, 0.5, 0.25), (c['fc'] - c['fm'], c['fc'], c['fc'] + c['fm'])):
            sf = float(np.asarray(cal.get_sf(f if c['equalize'] else c['fc'], L)))
            kbin = int(round(f * n / fs))
            want = sf * w / eq
            if abs(abs(z[kbin]) - want) > 1e-9 * want:
                return (f'SAM tone component at {f!r} Hz reads {abs(z[kbin])!r}, expected sf*{w}/eq_power = {want!r} '
                        f'(level {L!r})')
    elif k == 'click':
        sf = float(np.asarray(cal.get_sf(0, L)))
        if len(a) and abs(np.max(np.abs(a)) - sf) > 1e-12 * sf:
            return f'click amplitude {np.max(np.abs(a))!r}, get_sf(0, {L!r}) = {sf!r}'
    elif k == 'blclick' and c['win'] == 1.0 and is_flat_cal(c):
        rms = float(util.rms(a))
        back = float(np.asarray(cal.get_db(1e3, rms)))
        if abs(back - L) > 0.01:
            return f'band-limited click over its 1 s period reads {back!r} dB, requested {L!r}'
    elif k == 'chirp' and n >= fs * 0.999 and (not c.get('eqz') or is_flat_cal(c)):
        sf = float(np.asarray(cal.get_mean_sf(c['f0'], c['f1'], L)))
        rms = float(util.rms(a))
        if abs(db_of(rms) - db_of(sf)) > 0.5:
            return f'chirp RMS {rms!r} vs get_mean_sf {sf!r}: {db_of(rms) - db_of(sf):.3f} dB (tolerance 0.5 dB on 1 s)'
    elif k == 'bbn' and n >= fs * 0.999:
        sf = float(np.asarray(cal.get_mean_sf(0, fs, L)))
        rms = float(util.rms(a))
        if abs(db_of(rms) - db_of(sf)) > 0.5:
            return f'broadband noise RMS {rms!r} vs get_mean_sf {sf!r}: {db_of(rms) - db_of(sf):.3f} dB (tolerance 0.5 dB on 1 s)'
    elif k == 'bln' and n >= fs * 0.999:
        sf = float(np.asarray(cal.get_mean_sf(c['fl'], c['fh'], L)))
        rms = float(util.rms(a))
        # 1 dB: the tolerance of the library's own tests/test_stim_noise.py (the band-pass is designed with 1 dB of
        # pass-band ripple, and the 'filter_sf' normalisation is approximate)
        if abs(db_of(rms) - db_of(sf)) > 1.0:
            return (f'band-limited noise RMS {rms!r} vs get_mean_sf {sf!r}: {db_of(rms) - db_of(sf):.3f} dB '
                    f'(tolerance 1 dB on 1 s)')
    elif k == 'shaped' and n >= fs * 0.999:
        sf = float(np.asarray(cal.get_mean_sf(0, fs / 2, L)))
        rms = float(util.rms(a))
        if abs(db_of(rms) - db_of(sf)) > 1.0:
            return (f'shaped noise RMS {rms!r} vs get_mean_sf {sf!r}: {db_of(rms) - db_of(sf):.3f} dB '
                    f'(tolerance 1 dB on 1 s)')
    elif k == 'wav':
        sf = float(np.asarray(cal.get_sf(1e3, L)))
        if c['fs'] == 20000:
            a = np.asarray(a, dtype=float)[:2000]
            if c['norm'] is None:
                # "no rescaling is done": the stored samples (integer PCM mapped onto -1..1) times get_sf(1e3, level)
                raw = wav_raw(c)
                unit = raw.astype(float)
                if raw.dtype != np.float32:
                    ii = np.iinfo(raw.dtype)
                    unit = (unit - ii.min) / (ii.max - ii.min) * 2 - 1
                dev = float(np.max(np.abs(a - unit * sf)))
                if dev > 1e-5 * sf * float(np.max(np.abs(unit))):
                    return (f'wav playback without normalisation departs from (stored samples in the unit range) x '
                            f'get_sf(1e3, {L!r}) = {sf!r} by {dev!r}')
            else:
                got = float(util.rms(a)) if c['norm'] == 'rms' else float(np.max(a))
                if abs(got - sf) > 1e-5 * sf:
                    return f"wav playback normalised to '{c['norm']}' reads {got!r}, get_sf(1e3, {L!r}) = {sf!r}"
    return None


def is_flat_cal(c):
    return not (c['cal']['c'].startswith('interp') or c['cal']['c'].startswith('point'))


# level linearity "to round-off", as a fraction of full scale.  The elliptic band-pass of BandlimitedNoiseFactory is
# run in direct (b, a) form, which amplifies round-off: with the filter started at rest the measured departure is
# level-independent and reaches 3e-8 (120 random designs); 1e-6 is the stated tolerance there.  A state that does
# not scale with the level departs by (residual / sf), which grows without bound as the level falls — hence the
# additional low-level pair below.  float32 wav playback: 1e-6.
# Measured on the unchanged library over 400 random designs from this generator: the departure of the direct-form
# elliptic band-pass is level-independent round-off amplification, median 6e-11, worst 5.9e-6 of full scale
# (fs 25 kHz, 583-1081 Hz); 1e-3 leaves a factor > 100.  A state that does not scale departs by ~1.
LIN_TOLS = {'bln': 1e-3, 'wav': 1e-6}    # also the model-vs-code tolerance of the recursive band-pass
FILTERED = ('bbn', 'notch', 'bln', 'fir', 'shaped')


def linearity(c, L, d, a=None):
    a = build(c, L, 1) if a is None else a
    b = build(c, L + d, 1)
    full = float(np.max(np.abs(b))) if len(b) else 0.0
    if c['kind'] in FILTERED and 0 < c.get('n', 0) < 1000:
        # "full scale" of a noise is not the peak of its first few samples: take it from 1000 samples of the
        # same noise (otherwise a 2-sample draw whose samples happen to be small inflates pure round-off)
        c2 = dict(c, n=1000)
        c2.pop('chunks', None)
        full = max(full, float(np.max(np.abs(build(c2, L + d, 1)))))
    if a.shape != b.shape:
        return f'level changes the shape: {a.shape} vs {b.shape}'
    if not np.all(np.isfinite(a)) or not np.all(np.isfinite(b)):
        return f'non-finite samples at level {L!r} / {L + d!r}'
    g = 10 ** (d / 20)
    tol = LIN_TOLS.get(c['kind'], LIN_TOL)
    if len(a):
        dev = np.abs(b - g * a.astype(float))
        i = int(np.argmax(dev))
        if dev[i] > tol * full:
            return (f'level linearity: sample {i} at {L + d!r} dB is {float(b[i])!r}, 10^({d!r}/20) x sample at {L!r} dB '
                    f'is {float(g * a[i])!r}; deviation {dev[i] / full:.3e} of full scale (tolerance {tol:g})')
    return None


def bln_state_residual(c, cal):
    """BandlimitedNoiseFactory starts from a state that does not scale with the level (lfilter_zi).  Level linearity
    then holds exactly up to (1 - g) x the zero-input response of that state after the discarded second
    (theorem `filt_level_defect`); here that response is measured on the real design: it must be negligible
    against the quietest level of the property's range (-20 dB)."""
    from scipy import signal
    from psiaudio import stim
    f = stim.BandlimitedNoiseFactory(c['fs'], c['seed'], -20.0, c['fl'], c['fh'], 1, 1, 80, polarity=1, calibration=cal,
                                            discard_initial_samples=c.get('discard', True))
    z = np.asarray(f.initial_bp_zi, dtype=float)
    if not np.any(z):
        return None
    nd = int(np.ceil(c['fs']))
    y, _ = signal.lfilter(f.b, f.a, np.zeros(nd + max(c['n'], 1)), zi=z)
    resid = float(np.max(np.abs(y[nd:])))
    scale = abs(float(f.high))           # sqrt(3) * filter_sf * sf at -20 dB
    if resid > 1e-12 * scale:
        return (f'BandlimitedNoiseFactory: the response to its level-independent initial state is still {resid!r} after '
                f'the discarded onset, against a noise amplitude of {scale!r} at -20 dB')
    return None


def _same(a, b, tol, what):
    if np.shape(a) != np.shape(b):
        return f'{what}: shapes {np.shape(a)} vs {np.shape(b)}'
    if len(a) == 0:
        return None
    a, b = np.asarray(a, dtype=float), np.asarray(b, dtype=float)
    full = float(np.max(np.abs(b)))
    dev = np.abs(a - b)
    i = int(np.argmax(dev))
    if not dev[i] <= tol * full:
        return f'{what}: sample {i} is {float(a[i])!r}, expected {float(b[i])!r} (deviation {dev[i] / full if full else dev[i]:.3e} of full scale)'
    return None


def histories(c, L, a):
    """the same request again after the caller has overwritten what it got; a calibration object whose gain is changed
    after it was first used (fixed gain +g dB <=> x 10^(g/20) volts: C07 `getSf_add_fixedGain`)"""
    tol = LIN_TOLS.get(c['kind'], LIN_TOL)
    cal = mkcal(c['cal'])
    first = build(c, L, 1, cal)
    if isinstance(first, np.ndarray) and first.flags.writeable and first.size:
        first[...] = 7.0                       # the caller re-uses the buffer it was handed
    again = build(c, L, 1, cal)
    f = _same(again, a, 0.0, 'the same stimulus requested again (after the caller overwrote the first one)')
    if f:
        return f
    if c['kind'] == 'wav' and not PENDING_WAV_REGAIN:
        return None
    g = c.get('dG', 20.0)
    G0 = cal.fixed_gain
    cal.set_fixed_gain(G0 + g)
    louder = build(c, L, 1, cal)
    cal.set_fixed_gain(G0)
    back = build(c, L, 1, cal)
    f = _same(louder, 10 ** (g / 20) * np.asarray(a, dtype=float), tol,
              f'calibration whose fixed gain was raised by {g!r} dB after first use (expected x{10 ** (g / 20)!r})')
    if f:
        return f
    return _same(back, a, tol, f'calibration whose fixed gain was changed by {g!r} dB and set back')


def defaults_law(c, L, a):
    """hardening item 9: the request with its optional arguments left out (where they carry the documented default)
    is the same request as the one with every optional argument written down -- the same stimulus, sample for sample"""
    build(c, L, 1)
    left_out = list(_OMITTED)
    b = build(dict(c, omit='spell'), L, 1)
    return _same(a, b, 0.0, f'optional arguments left out ({", ".join(left_out) or "none"}) vs. every optional argument '
                            f'spelled out with its documented default')


def band_of(c):
    k = c['kind']
    return (c['f0'], c['f1']) if k == 'chirp' else (c['flb'], c['fub']) if k == 'blclick' else (c['fl'], c['fh'])


def band_spread(c, cal):
    """largest difference (dB) between the sensitivities over the stimulus band: the sensitivity is linear in dB
    between table points, so the extremes sit on the band edges or on table points inside the band"""
    lo, hi = band_of(c)
    if is_flat_cal(c):
        return 0.0
    fr = [lo, hi] + [r[0] for r in c['cal']['tbl'] if lo <= r[0] <= hi]
    sens = np.asarray(cal.get_sens(np.array(fr, dtype=float)), dtype=float)
    return float(np.max(sens) - np.min(sens))


def equalisation_laws(c, cal, L, a):
    """`equalize=True` with `max_correction` ("maximum amount to adjust ... when equalizing"): a limit that no frequency
    of the band needs (every sensitivity within `max_correction` of every other, a fortiori of their mean) changes
    nothing; an equalised 1 s click reads the spectrum level at every bin of its band through the calibration"""
    from psiaudio import util
    mc = c.get('mc', 'default')
    finite = mc not in ('default', 'inf')
    binds = finite and not band_spread(c, cal) <= float(mc) - 1e-6
    if c['eqz'] and mc != 'inf' and not binds:
        ref = build(dict(c, mc='inf'), L, 1)
        # bit-identical on the unchanged library (np.clip returns the values it does not limit); 1e-12 of full scale
        # leaves room for an implementation that skips the dB round trip (dbi(db(x)): ~100 * 2.2e-16 * ln(10)/20)
        f = _same(a, ref, 1e-12, f'equalised stimulus with max_correction={mc!r} (no frequency of the band needs that '
                                 f'much) vs. max_correction=inf')
        if f:
            return f
    if c['kind'] == 'blclick' and c['eqz'] and c['win'] == 1.0 and len(a) == int(round(c['fs'])) and len(a) % 2 == 0:
        n, fs = len(a), c['fs']
        freq = np.fft.rfftfreq(n, d=1 / fs)
        m = np.flatnonzero((freq >= c['flb']) & (freq < c['fub']))
        z = np.abs(util.csd(a, detrend=None))[m]
        want = float(util.band_to_spectrum_level(L, len(m)))
        got = np.asarray(cal.get_db(freq[m], z), dtype=float)
        if not binds:
            i = int(np.argmax(np.abs(got - want)))
            if not abs(got[i] - want) <= 1e-6:
                return (f'equalised band-limited click: bin {freq[m][i]!r} Hz reads {got[i]!r} dB through the calibration, '
                        f'spectrum level of {L!r} dB over {len(m)} bins is {want!r}')
        else:
            # limited correction: the scale factors applied across the band span at most 2 x max_correction
            span = float(np.max(20 * np.log10(z)) - np.min(20 * np.log10(z)))
            if not span <= 2 * float(mc) + 1e-6:
                return (f'equalised band-limited click with max_correction={mc!r}: the corrections applied across the '
                        f'band span {span!r} dB')
    return None


def check_property(c):
    L, d = c['L'], c['d']
    cal = mkcal(c['cal'])
    a = build(c, L, 1)
    f = linearity(c, L, d, a)
    if f:
        return f
    if c['kind'] in FILTERED:
        f = linearity(c, -20.0, 40.0)
        if f:
            return f
    if c['kind'] == 'bln':
        f = bln_state_residual(c, cal)
        if f:
            return f
    if c['kind'] in HAS_POLARITY:
        n = build(c, L, -1)
        if n.shape != a.shape:
            return f'polarity changes the shape: {a.shape} vs {n.shape}'
        if not np.array_equal(n, -a):
            i = int(np.flatnonzero(n != -a)[0])
            return (f'polarity: sample {i} is {float(a[i])!r} at +1 and {float(n[i])!r} at -1 (not an exact negation; '
                    f'{int(np.sum(n != -a))} of {len(a)} samples differ, largest |sum| {float(np.max(np.abs(n + a)))!r})')
    f = level_definition(c, cal, L, a)
    if f:
        return f
    if c.get('omit') == 'omit':
        f = defaults_law(c, L, a)
        if f:
            return f
    if 'eqz' in c:
        f = equalisation_laws(c, cal, L, a)
        if f:
            return f
    if c.get('hist', True):
        return histories(c, L, a)
    return None


# ------------------------------------------------------------------ generation
def gen_cal(rng, kind, fs, freqs):
    """a calibration that answers at the frequencies the stimulus needs"""
    G = rng.choice([0.0, 0.0, round(rng.uniform(-40, 40), 2), float(rng.randint(-40, 40))])
    how = {'Grepr': rng.choice(NUM_REPRS), 'nrepr': rng.choice(NUM_REPRS), 'positional': rng.random() < 0.3}
    if kind == 'flat':
        return rng.choice([
            dict(how, c='from_spl', L=float(rng.choice([94, 100, 114])), v=rng.choice([1.0, 0.1, 2.0]), G=G),
            dict(how, c='flat', S=round(rng.uniform(60, 140), 2), G=G),
            {'c': 'unity'},
        ])
    if kind == 'interp':
        knots = sorted({0.0, float(fs)} | {float(round(rng.uniform(1, fs - 1))) for _ in range(rng.randint(2, 6))})
        rows = [[f, round(rng.uniform(70, 130), 2)] for f in knots]
    else:
        rows = [[float(f), round(rng.uniform(70, 130), 2)] for f in sorted(set(freqs))]
    # the table as the caller wrote it down: ascending, descending or in measurement order; the container it is in;
    # and whether the caller keeps using (overwrites) its own arrays afterwards
    rows = [rows[i] for i in order_rows(rng, len(rows))]
    k = dict(how, c=kind, G=G, tbl=rows, mutate_inputs=rng.random() < 0.4)
    # (a list whose first sensitivity is a Python int followed by non-integers gets a fifth of the cases: it is the
    # spelling under which NumPy's vectorize / array constructors infer an integer dtype from the first element)
    r = 'intfirst' if rng.random() < 0.2 else rng.choice(TABLE_REPRS)
    if r == 'f32' and kind == 'point':
        r = 'ndarray'               # (float32 frequency tables compare in single precision: see c07.gen_ctor)
    if r == 'intfirst':
        # whole numbers typed in as Python ints for the first row AND for the lowest frequency (the first one a
        # multi-component stimulus asks for), and a whole-number gain typed in as an int: then the first value NumPy
        # sees is a Python int although later ones are not whole numbers
        k['tbl'][0][1] = float(round(k['tbl'][0][1]))
        lo = min(range(len(k['tbl'])), key=lambda i: k['tbl'][i][0])
        k['tbl'][lo][1] = float(round(k['tbl'][lo][1]))
        k['G'] = float(round(k['G']))
        k['Grepr'] = 'int'
    if r:
        k['repr'] = r
    return k


def gen_case(rng, kind, calkind, quick):
    fs = float(rng.choice([10000, 16000, 20000, 25000]))
    L = rng.choice([float(rng.randint(-20, 120)), round(rng.uniform(-20, 120), 2)])
    d = rng.choice([20.0, 6.0, -10.0, round(rng.uniform(-40, 40), 2)])
    c = {'kind': kind, 'fs': fs, 'L': L, 'd': d, 'pol': rng.choice([1, -1]), 'seed': rng.randint(0, 2 ** 31 - 1)}
    need = []
    if kind in ('tone', 'tone_factory', 'ramped'):
        n = rng.randint(50, 2000)
        whole = rng.random() < 0.6
        if whole:
            k = rng.randint(1, (n - 1) // 2)
            f = k * fs / n
            if f * n / fs != k:        # keep exactly whole cycles representable
                f = float(k * fs / n)
        else:
            f = round(rng.uniform(100, fs / 2 - 100), 1)
        c.update(n=n, f=f, ph=rng.choice([0.0, round(rng.uniform(-3, 3), 3)]), whole=whole)
        need = [f]
    elif kind in ('sam', 'sam_factory'):
        n = rng.randint(200, 2000)
        kc = rng.randint(20, n // 2 - 20)
        km = rng.randint(1, 15)
        c.update(n=n, fc=kc * fs / n, fm=km * fs / n, ph=rng.choice([0.0, 0.7]), phl=rng.choice([0.0, -0.4]),
                 phu=rng.choice([0.0, 1.1]), eq_power=rng.random() < 0.7, equalize=rng.random() < 0.7, whole=True)
        need = [c['fc'] - c['fm'], c['fc'], c['fc'] + c['fm']]
    elif kind == 'chirp':
        long = rng.random() < 0.4
        n = int(fs) if long else rng.randint(200, 3000)
        f0 = float(rng.randint(100, 2000))
        c.update(n=n, f0=f0, f1=f0 + rng.randint(500, int(fs / 2 - f0 - 1)), window=rng.choice(['boxcar', 'hann']),
                 factory=rng.random() < 0.3)
    elif kind == 'click':
        c.update(n=rng.randint(1, 40))
        need = [0.0]
    elif kind == 'blclick':
        flb = float(rng.randint(100, 2000))
        c.update(flb=flb, fub=flb + rng.randint(200, 3000), win=rng.choice([1.0, 0.1, 0.05]), factory=rng.random() < 0.3)
    elif kind in ('bbn', 'notch', 'bln', 'fir', 'shaped'):
        long = rng.random() < (0.25 if quick else 0.4)
        n = int(fs) if long else rng.randint(50, 1500)
        c.update(n=n)
        if rng.random() < 0.4 and kind in ('bbn', 'notch', 'bln'):
            c['chunks'] = rng.chunks(n, 4)
        if kind == 'notch':
            c.update(fn=float(rng.randint(500, int(fs / 2) - 500)), q=rng.choice([1.33, 5.0, 30.0]))
        if kind == 'bln' and c.get('chunks') and rng.random() < 0.4:
            c['discard'] = False        # constructor option of the factory (the default True is the other 60 %)
        if kind in ('bln', 'fir'):
            fl = float(rng.randint(500, 1500))
            c.update(fl=fl, fh=float(rng.randint(int(fl) + 300, int(fs / 4) - 100)))
        if kind in ('bln', 'fir') and rng.random() < 0.3:
            c['intedges'] = True        # representation of the same value: band edges written as whole Python ints
        if kind == 'fir':
            c.update(ntaps=rng.choice([51, 101, 201]), equalize=rng.random() < 0.5)
        if kind == 'shaped':
            c.update(ntaps=rng.choice([51, 101, 201]),
                     gains=[[0, -60], [1000, 0], [fs / 4, rng.choice([0, -10])], [fs / 2, -60]])
    elif kind == 'wav':
        c.update(norm=rng.choice(['pe', 'rms', None]), dtype=rng.choice(['int16', 'float32', 'int32', 'uint8']),
                 seed=rng.randint(0, 3), factory=rng.random() < 0.4,
                 wavcall=rng.choice([None, 'positional', 'allkw']), pathlib=rng.random() < 0.3)
        c['fs'] = float(rng.choice([20000, 20000, 25000]))
        if c['factory'] and rng.random() < 0.6:
            c['chunks'] = rng.chunks(2000 if c['fs'] == 20000 else 2500, 4)     # played through next()
        need = [1e3]
    if calkind == 'point' and not need:
        calkind = 'interp'
    c['cal'] = gen_cal(rng, calkind, c['fs'], need)
    # spelling of the numbers (same values), object histories
    c.update(Lrepr=rng.choice(NUM_REPRS), fsrepr=rng.choice([None, 'int', 'np64']),
             polrepr=rng.choice([None, None, 'float', 'npint']), dG=rng.choice([20.0, -6.0, round(rng.uniform(-30, 30), 1)]))
    if kind == 'tone' and rng.random() < 0.3:
        c['tonekw'] = 'duration'
    if kind in ('tone_factory', 'ramped', 'sam_factory') or c.get('chunks'):
        if rng.random() < 0.5:
            c['reuse'] = [rng.randint(1, 300) for _ in range(rng.randint(1, 2))]     # drawn before a reset()
    return c


def gen_edge(rng, calkind):
    """exact boundaries: empty and one-sample stimuli, level 0 and the ends of the level range, zero level step"""
    kind = rng.choice(['tone', 'tone_factory', 'bbn', 'click', 'sam'])
    c = gen_case(rng, kind, calkind, True)
    c.pop('chunks', None)
    c.pop('reuse', None)
    c['n'] = rng.choice([0, 1, 2]) if kind != 'click' else 1
    if kind == 'sam':
        c['n'] = rng.choice([0, 1])
        c['whole'] = False
    if kind in ('tone', 'tone_factory'):
        c['whole'] = False
    c['L'] = rng.choice([0.0, -20.0, 120.0, -0.0])
    c['d'] = rng.choice([0.0, 20.0, -20.0])
    c['kind_note'] = 'edge'
    return c


def gen_big(rng, calkind):
    """far beyond the usual sizes: 2^16..2^17-sample tones starting beyond sample 2^31, a 2^20-sample noise"""
    kind = rng.choice(['tone', 'tone_factory', 'bbn'])
    c = gen_case(rng, kind, calkind, True)
    c.pop('chunks', None)
    c.pop('reuse', None)
    if kind == 'bbn':
        c.update(n=2 ** 20 + rng.randint(0, 3), huge=True)
        c['chunks'] = [3, 2 ** 20 - 5, c['n'] - 2 ** 20 + 2]           # tiny and huge requests mixed
    else:
        n = rng.randint(2 ** 16, 2 ** 17)
        c.update(n=n, whole=False, big=True, offset=rng.choice([0, 2 ** 31 + rng.randint(0, 10 ** 6), 2 ** 33 + 1]))
        if kind == 'tone_factory':
            c['offset'] = 0
            c['chunks'] = [1, n - 4, 3]
    return c


def gen_defaults(rng, kind, calkind, rep):
    """hardening item 9: a request whose optional arguments carry their documented defaults and are then left out of
    the call -- all of them in the function form (rep 0) and in the factory / chunked form (rep 1), a random subset
    (each with probability 0.7) otherwise"""
    c = gen_case(rng, kind, calkind, True)
    c['omit'] = 'omit'
    c.pop('tonekw', None)
    c.pop('wavcall', None)
    p = 1.0 if rep < 2 else 0.7

    def dflt():
        return rng.random() < p
    if kind in FILTERED:
        if c['n'] > 1500:                   # (nothing here needs a 1 s noise)
            c['n'] = rng.randint(50, 1500)
            c.pop('chunks', None)
        if dflt():
            c['seed'] = 1
    if rep == 0:
        c.pop('chunks', None)
        c.pop('reuse', None)
        if 'factory' in c:
            c['factory'] = False
    elif rep == 1:
        if kind in ('bbn', 'notch', 'bln') and not c.get('chunks'):
            c['chunks'] = rng.chunks(c['n'], 3)
        if 'factory' in c:
            c['factory'] = True
    if dflt():
        c['pol'] = 1
    if 'ph' in c and dflt():
        c['ph'] = 0.0
    for key in ('phl', 'phu'):
        if key in c and dflt():
            c[key] = 0.0
    for key in ('eq_power', 'equalize'):
        if key in c and dflt():
            c[key] = True
    if kind == 'chirp' and dflt():
        c['window'] = 'boxcar'
    if kind == 'blclick' and dflt():
        c['win'] = 0.1
    if kind == 'bln' and dflt():
        c.pop('discard', None)
    if kind in ('fir', 'shaped') and rng.random() < 0.5:
        # the documented filter length of the function forms; the model line (10001 taps in the naive lfilter of the
        # driver) is left out: oracle only
        c.update(ntaps=10001, n=rng.randint(50, 300), nomodel=True)
    if kind == 'wav' and dflt():
        c['norm'] = 'pe' if c['factory'] else None
    return c


def _spread_of_table(rows, lo, hi):
    """dB spread of a piecewise-linear table over [lo, hi] (generator's own arithmetic, only used to pick cases)"""
    rows = sorted(rows)

    def at(f):
        for (f0, s0), (f1, s1) in zip(rows, rows[1:]):
            if f0 <= f <= f1:
                return s0 + (s1 - s0) * (f - f0) / (f1 - f0)
        return rows[-1][1]
    v = [at(lo), at(hi)] + [s_ for f_, s_ in rows if lo <= f_ <= hi]
    return max(v) - min(v)


def gen_eq(rng, kind, calkind):
    """equalised stimuli (`equalize=True`) with `max_correction` left out, infinite, finite but not needed by any
    frequency of the band, or small enough to bind"""
    c = gen_case(rng, kind, calkind, True)
    c['eqz'] = True
    if kind == 'fir':
        c.update(factory=True, equalize=True)
        c.pop('chunks', None)
        if c['n'] > 1500:
            c['n'] = rng.randint(50, 1500)
    else:
        c['nomodel'] = True          # the model lines describe the non-equalised chirp / click
    if kind == 'blclick' and rng.random() < 0.6:
        c['win'] = 1.0               # the 1 s period: every bin of the band can be read back
    lo, hi = band_of(c)
    spread = 0.0 if is_flat_cal(c) else _spread_of_table([r[:2] for r in c['cal']['tbl']], lo, hi)
    mode = rng.choice(['default', 'inf', 'loose', 'loose', 'bind', 'bind'])
    if mode == 'bind' and spread < 3.0:
        mode = 'loose'
    if mode == 'loose':
        c['mc'] = round(spread + rng.choice([0.0 if spread == 0 else 0.01, 0.5, 3.0, 20.0]), 3)
    elif mode == 'bind':
        c['mc'] = round(rng.choice([1.0, 3.0, spread / 4]), 3)
    else:
        c['mc'] = mode
    return c


KINDS = ['tone', 'tone_factory', 'ramped', 'sam', 'sam_factory', 'chirp', 'click', 'blclick', 'bbn', 'notch', 'bln',
         'fir', 'shaped', 'wav']


class C08(FloatSpec):
    PROP = 'C08'
    PROOF_MODULES = ['PsiProofs.C08']
    DESIGN_REF = 'DESIGN.md §6 C08'
    PARALLEL = 16
    TRUST = [
        'proof of level linearity is over the real numbers (round-off not bounded); proof of exact polarity is over an '
        'abstract sign-symmetric arithmetic ((-a)*b = -(a*b), (-a)+(-b) = -(a+b), a-b = a+(-b)), which IEEE-754 '
        'round-to-nearest satisfies — that IEEE conformance of NumPy is assumed, and checked bit-exactly by the oracle',
        'modelled, not verified: scipy.signal.lfilter = direct form II transposed recursion; RandomState.uniform = '
        'low + (high-low)*u on the unit draws; filter design routines (iirnotch, iirdesign, firwin2, lfilter_zi), '
        'get_window, cumsum (chirp prototype), the cosine-squared envelope samples (property C09) and the stored wav samples '
        'are inputs (cells); csd_to_signal / irfft = the real inverse DFT of the C16 model; resampled wav playback '
        '(resample_fft) is checked by the oracle only',
        'noise level definitions (0.5 dB on 1 s) are statistical statements checked on the seeds drawn, not theorems',
    ]
    ASSUMPTIONS = ['filters have a[0] = 1', 'sam_tone depth = 1 (the code refuses anything else)']
    RULE = ('every stimulus function and factory (tone, ToneFactory, Cos2Envelope over ToneFactory, sam_tone, '
            'SAMToneFactory, chirp/ChirpFactory, ClickFactory, bandlimited_click/-Factory, broadband_noise/-Factory, '
            'notch_noise/NotchFilterFactory, bandlimited_noise/-Factory, bandlimited_fir_noise, shaped_noise, '
            'load_wav/WavFileFactory) x calibration {flat, interp, point where the stimulus asks single frequencies} x '
            'level -20..120 x level step x polarity x seed x chunking. Non-trivial = the waveform is not all zero; '
            'distinct = distinct case hash. Hardening: calibration tables in any order and container; level / fs / gain / '
            'polarity as Python and NumPy ints and floats; wav normalisation None / pe / rms x int16 / int32 / uint8 / float32 x '
            'positional / keyword / pathlib, played through next(); factories re-used after reset; the same request after '
            'the caller overwrote the result; fixed gain changed after first use and set back; 0/1/2-sample stimuli, level '
            '0 / -20 / 120, step 0; tones of 2^16..2^17 samples starting beyond sample 2^31 and 2^20-sample noise. Targeted pass: 39 '
            'requests per quick run whose optional arguments carry the documented defaults and are left out (law: = every '
            'optional argument spelled out); 12 equalised chirps / band-limited clicks / FIR noises with max_correction '
            'left out, inf, finite but not needed (law: = inf), or binding; per-bin level of the equalised 1 s click.')

    def gen(self, rng, tier):
        quick = tier == 'quick'
        reps = 6 if quick else 40
        for r in range(reps):
            for kind in KINDS:
                for calkind in ('flat', 'interp', 'point'):
                    yield gen_case(rng, kind, calkind, quick)
        for r in range(6 if quick else 40):
            yield gen_edge(rng, ('flat', 'interp', 'point')[r % 3])
        for r in range(2 if quick else 8):
            yield gen_big(rng, ('flat', 'interp', 'point')[r % 3])
        # (after the older generators: their cases stay what they were for a given seed)
        for r in range(3 if quick else 12):
            for kind in KINDS:
                if kind != 'click':                 # (ClickFactory has no optional arguments)
                    yield gen_defaults(rng, kind, ('flat', 'interp', 'point')[(r + KINDS.index(kind)) % 3], r)
        for r in range(2 if quick else 12):
            for kind in ('chirp', 'blclick', 'fir'):
                for calkind in ('flat', 'interp'):
                    yield gen_eq(rng, kind, calkind)

    # ---------------------------------------------------------------- model
    def model_lines(self, c):
        with quiet():
            try:
                return self._model_lines(c)
            except Exception as e:
                # the model's cells (scale factors, filter coefficients, unit draws) come from the library's own
                # primitives; if one of them raises, the case is still evaluated: the oracle reports the failure
                return [ctor_line(c['cal']), f'cells-unavailable {type(e).__name__}']

    def _model_lines(self, c):
        from psiaudio import stim
        cal = mkcal(c['cal'])
        fs, k, L, pol = c['fs'], c['kind'], c['L'], float(c['pol'])
        out = [ctor_line(c['cal'])]
        if c.get('huge') or c.get('nomodel'):
            return out              # 2^20 samples, 10001-tap filters, equalised chirps / clicks: implementation only

        def sf_at(f):
            return float(np.asarray(cal.get_sf(f, L)))

        if k in ('tone', 'tone_factory'):
            out.append(f"sf {f2b(c['f'])} {f2b(L)} {f2b(0.0)}")
            sf = sf_at(c['f'])
            off = c.get('offset', 0)
            for n in (chunks_of(c) if k == 'tone_factory' else [c['n']]):
                out.append(f"tone {f2b(pol)} {f2b(sf)} {f2b(fs)} {f2b(c['f'])} {f2b(c['ph'])} {off} {n}")
                off += n
        elif k in ('sam', 'sam_factory'):
            fr = [c['fc'] + c['fm'] * i for i in (-1, 0, 1)]
            out.append(f"sfv {f2b(L)} {f2b(0.0)} {fl(fr)}")
            sfs = [sf_at(f) for f in fr] if c['equalize'] else [sf_at(c['fc'])] * 3
            eq = float(stim.sam_eq_power(1)) if c['eq_power'] else 1.0
            out.append(f'sameqpower {f2b(1.0)}')
            off = c.get('offset', 0)
            for n in (chunks_of(c) if k == 'sam_factory' else [c['n']]):
                out.append('samtone ' + ' '.join(f2b(v) for v in [pol] + sfs + [eq, fs, c['fc'], c['fm'], c['phl'],
                                                                              c['ph'], c['phu']]) + f' {off} {n}')
                off += n
        elif k == 'click':
            out.append(f"sf {f2b(0.0)} {f2b(L)} {f2b(0.0)}")
            out.append(f"scaled {f2b(pol)} {f2b(sf_at(0))} {fl(np.ones(c['n']))}")
        elif k == 'chirp':
            proto = stim.chirp(fs, c['f0'], c['f1'], c['n'] / fs, 1.0, calibration=None, window=c['window'])
            sf = float(np.asarray(cal.get_mean_sf(c['f0'], c['f1'], L)))
            out.append(f"scaled {f2b(1.0)} {f2b(sf)} {fl(proto)}")
            # the chirp itself from the window samples (cumulative sums, phase, normalisation are the model's)
            from scipy import signal
            out.append(f"chirp {f2b(fs)} {f2b(c['f0'])} {f2b(c['f1'])} {f2b(sf)} {fl(signal.get_window(c['window'], len(proto)))}")
        elif k in ('bbn', 'notch', 'bln', 'fir', 'shaped'):
            out.append(self.filt_line(c, cal, pol))
        elif k == 'ramped':
            # envelope cells from the real envelope code (its own law is C09); the model multiplies them with its tone
            sf = sf_at(c['f'])
            ef = stim.Cos2EnvelopeFactory(fs, duration=c['n'] / fs, rise_time=c['n'] / fs / 4,
                                          input_factory=stim.SilenceFactory(fill_value=1))
            off = 0
            for n in chunks_of(c):
                out.append(f"ramped {f2b(pol)} {f2b(sf)} {f2b(fs)} {f2b(c['f'])} {f2b(c['ph'])} {off} {fl(ef.next(n))}")
                off += n
        elif k == 'blclick':
            g = blclick_geometry(c)
            if g is not None:
                n, nw, klo, khi, probes = g
                freq = np.fft.rfftfreq(n, d=1 / fs)
                from psiaudio import util
                band_level = util.band_to_spectrum_level(L, khi - klo)
                sf = float(np.mean(cal.get_sf(freq[klo:khi], band_level)))
                out.append(f"blclick {n} {nw} {f2b(fs)} {f2b(sf)} {klo} {khi} {','.join(map(str, probes))}")
        elif k == 'wav':
            raw = wav_raw(c)
            if raw is not None:
                sf = sf_at(1e3)
                if raw.dtype == np.float32:
                    out.append(f"wav {c['norm'] or 'none'} {f2b(sf)} {fl(raw.astype(float))}")
                else:
                    ii = np.iinfo(raw.dtype)
                    out.append(f"wavpcm {c['norm'] or 'none'} {f2b(sf)} {f2b(ii.min)} {f2b(ii.max)} {fl(raw.astype(float))}")
        return out

    def filt_line(self, c, cal, pol):
        from psiaudio import stim
        fs, k, L, n, seed = c['fs'], c['kind'], c['L'], c['n'], c['seed']
        one = f2b(1.0)
        if k in ('bbn', 'notch'):
            nf = stim.BroadbandNoiseFactory(fs=fs, level=L, seed=seed, polarity=1, calibration=cal)
            # the model computes the bounds -sqrt(3)*sf, sqrt(3)*sf from the mean scale factor itself
            sf = float(np.asarray(cal.get_mean_sf(0, fs, L)))
            low, high = 'L:' + f2b(sf), 'H:' + f2b(sf)
            if k == 'bbn':
                b, a, z0, discard, pin, pout = [1.0], [1.0], 'zero', 0, pol, 1.0
            else:
                f = stim.NotchFilterFactory(fs=fs, notch_frequency=c['fn'], q=c['q'], input_factory=nf)
                b, a, z0, discard, pin, pout = f.b, f.a, 'zero', 0, pol, 1.0
        elif k == 'bln':
            f = stim.BandlimitedNoiseFactory(fs, seed, L, _edge(c, 'fl'), _edge(c, 'fh'), 1, 1, 80, polarity=1, calibration=cal,
                                            discard_initial_samples=c.get('discard', True))
            # code as it is: state = lfilter_zi(b, a) (unit-step steady state, NOT scaled with the level), then
            # ceil(fs) samples are discarded; its zero-input response has decayed to < 1e-80 by then (see oracle)
            low, high, b, a = f.low, f.high, f.b, f.a
            z0, discard, pin, pout = fl(f.initial_bp_zi), int(np.ceil(fs)), 1.0, pol
        elif k == 'fir':
            f = stim.BandlimitedFIRNoiseFactory(fs, _edge(c, 'fl'), _edge(c, 'fh'), L, ntaps=c['ntaps'], polarity=1, seed=seed,
                                                calibration=cal, **dict({'equalize': c['equalize']}, **_eqopts(c)))
            low, high, b, a = -f.scale, f.scale, f.taps, [1.0]
            z0, discard, pin, pout = fl(f.initial_zi), len(f.initial_zi), 1.0, pol
        else:
            gains = {float(x): float(y) for x, y in c['gains']}
            f = stim.ShapedNoiseFactory(fs, L, gains, ntaps=c['ntaps'], polarity=1, seed=seed, calibration=cal)
            low, high, b, a = -f.scale, f.scale, f.taps, [1.0]
            z0, discard, pin, pout = fl(f.initial_zi), len(f.initial_zi), 1.0, pol
        b = np.atleast_1d(np.asarray(b, dtype=float))
        a = np.atleast_1d(np.asarray(a, dtype=float))
        m = max(len(a), len(b))
        b = np.concatenate([b, np.zeros(m - len(b))]) / a[0]
        a = np.concatenate([a, np.zeros(m - len(a))]) / a[0]
        u = np.random.RandomState(seed).random_sample(discard + n)
        if not isinstance(low, str):
            low, high = f2b(low), f2b(high)
        return (f'filt {f2b(pin)} {f2b(pout)} {low} {high} {f2b(b[0])} {fl(b[1:])} {fl(a[1:])} {z0} '
                f'{discard} {fl(u)}')

    # ---------------------------------------------------------------- implementation
    def impl_results(self, c):
        from psiaudio import stim
        cal = mkcal(c['cal'])
        k, L, pol = c['kind'], c['L'], c['pol']
        R = [('ok',)]
        if c.get('huge') or c.get('nomodel'):
            return R
        if k == 'wav' and wav_raw(c) is None:
            return R                                   # resampled playback (resample_fft): oracle only
        if k == 'blclick' and blclick_geometry(c) is None:
            return R
        w = np.asarray(build(c, L, pol, cal), dtype=float)
        full = float(np.max(np.abs(w))) if len(w) else 0.0
        if k == 'ramped':
            i = 0
            for n in chunks_of(c):
                R.append(vals(w[i:i + n], 1e-12, 1e-12 * full))
                i += n
            return R
        if k == 'blclick':
            probes = blclick_geometry(c)[4]
            R.append(vals(w[probes], BLCLICK_TOL, BLCLICK_TOL * full))
            return R
        if k == 'wav':
            R.append(vals(w, WAV_TOL, WAV_TOL * full))
            return R
        if k in ('tone', 'tone_factory'):
            R.append(num(np.asarray(cal.get_sf(c['f'], L))))
            i = 0
            for n in (chunks_of(c) if k == 'tone_factory' else [c['n']]):
                R.append(vals(w[i:i + n], 1e-12, 1e-12 * full))
                i += n
        elif k in ('sam', 'sam_factory'):
            fr = np.array([c['fc'] + c['fm'] * i for i in (-1, 0, 1)])
            R.append(vals(cal.get_sf(fr, L)))
            R.append(num(stim.sam_eq_power(1)))
            i = 0
            for n in (chunks_of(c) if k == 'sam_factory' else [c['n']]):
                R.append(vals(w[i:i + n], 1e-12, 1e-12 * full))
                i += n
        elif k == 'click':
            R.append(num(np.asarray(cal.get_sf(0, L))))
            R.append(vals(w, 1e-12))
        elif k == 'chirp':
            R.append(vals(w, 1e-12, 1e-12 * full))
            R.append(vals(w, CHIRP_TOL, CHIRP_TOL * full))
        else:
            t = LIN_TOLS.get(k, FILT_TOL)
            R.append(vals(w, t, t * full))
        return R

    def oracle(self, c, impl_out):
        with quiet():
            return check_property(c)

    def nontrivial(self, c, out):
        return True

    def kind(self, c):
        return f"{c['kind']}/{c['cal']['c']}"

    def neighbours(self, c, rng):
        for _ in range(10):
            d = dict(c)
            d['L'] = float(rng.randint(-20, 120))
            d['seed'] = rng.randint(0, 2 ** 31 - 1)
            yield d

    def shrink_candidates(self, c):
        for upd in ({'cal': {'c': 'from_spl', 'L': 94.0, 'v': 1.0, 'G': 0.0}}, {'chunks': None}, {'L': 60.0},
                    {'d': 20.0}, {'seed': 1}, {'n': max(1, c.get('n', 2) // 2)}, {'n': 5}, {'fs': 10000.0}):
            if c['kind'] in ('tone', 'tone_factory', 'ramped', 'sam', 'sam_factory', 'wav') and 'cal' not in upd \
                    and ('n' in upd or 'fs' in upd):
                continue
            if 'cal' in upd and c['cal']['c'] == 'from_spl':
                continue
            d = dict(c)
            d.update(upd)
            if 'n' in upd:
                d.pop('chunks', None)
            if d.get('chunks') is None:
                d.pop('chunks', None)
            if d != c:
                yield d

    def describe(self, c):
        return str(c)[:500]


SPEC = C08()
