"""Generic check flow for hand-modelled properties (differential correspondence).

A property module provides a ``Spec`` subclass; ``run_check`` drives it.
"""
import glob
import json
import os
import sys
import time
import traceback

from . import common as C


class Spec:
    PROP = None            # 'C18'
    MODEL = None           # psidriver model name
    PROOF_MODULES = []     # e.g. ['PsiProofs.C18']
    DESIGN_REF = ''
    TRUST = []             # property-specific trusted-base entries
    ASSUMPTIONS = []
    RULE = ''              # how cases are generated and what makes one non-trivial
    SEARCH_SECONDS = {'quick': 20, 'thorough': 300}
    PARALLEL = 0           # number of worker processes for the implementation runs (0 = in-process)

    # ---- to implement -------------------------------------------------
    def cases(self, rng, tier):
        """Yield JSON-serialisable case dicts."""
        raise NotImplementedError

    def model_lines(self, case):
        """Lines for psidriver (a `reset` is inserted between cases by the framework)."""
        raise NotImplementedError

    def impl_lines(self, case):
        """Run the real psiaudio code; one canonical line per model line."""
        raise NotImplementedError

    def oracle(self, case, impl_out):
        """The property itself on the implementation's behaviour. None = holds, str = how it fails."""
        return None

    def nontrivial(self, case, impl_out):
        return True

    def kind(self, case):
        return case.get('kind', 'case')

    def known(self, case, failure):
        """Return the id of the known finding this failure is an instance of, else None."""
        return None

    def neighbours(self, case, rng):
        """Cases near a disagreeing one, for the failing-input search."""
        return []

    def shrink_candidates(self, case):
        """Smaller variants of a failing case (for minimisation)."""
        return []

    def describe(self, case):
        return json.dumps(case, sort_keys=True)[:300]

    # ---- helpers ------------------------------------------------------
    def corpus(self):
        out = []
        for p in sorted(glob.glob(os.path.join(C.VERIF, 'corpus', self.PROP, '*.json'))):
            try:
                out.append(json.load(open(p)))
            except Exception:
                pass
        return out

    def safe_impl(self, case):
        try:
            return self.impl_lines(case)
        except Exception as e:  # an adapter bug or an exception class the adapter does not map
            return [f'HARNESS-EXC {type(e).__name__}: {e}']

    def fails(self, case):
        """Oracle verdict on the real code for one case (None = holds); a case that does not return within the
        CPU budget fails as a hang."""
        limit = _case_limit(self)
        try:
            with watchdog(limit):
                out = self.safe_impl(case)
                try:
                    return self.oracle(case, out)
                except Exception as e:
                    return f'oracle raised {type(e).__name__}: {e}'
        except CaseTimeout:
            _note_timeout()
            return f'the library did not return within {limit} CPU-seconds on this case (hang)'

    def shrink(self, case, budget_s=10):
        t0 = time.time()
        cur = case
        if _TIMEOUTS is not None and _TIMEOUTS.value:
            return cur      # the library hangs on some inputs: every candidate could cost a full watchdog period
        progress = True
        while progress and time.time() - t0 < budget_s:
            progress = False
            for cand in self.shrink_candidates(cur):
                if time.time() - t0 > budget_s:
                    break
                if self.fails(cand) is not None and self.known(cand, self.fails(cand)) is None:
                    cur = cand
                    progress = True
                    break
        return cur


_SPEC = None
_TIMEOUTS = None      # multiprocessing.Value shared with the pool workers: cases that hit the watchdog so far


def _case_limit(spec):
    """CPU seconds one case may burn. After two cases have hit the full limit the library is known to hang (that is
    already a violation), so the remaining cases get a short leash and the check ends in minutes, not hours."""
    base = getattr(spec, 'CASE_TIMEOUT', 120)
    if _TIMEOUTS is not None and _TIMEOUTS.value >= 8:
        return 1
    if _TIMEOUTS is not None and _TIMEOUTS.value >= 2:
        return max(5, base / 20)
    return base


HANGS_ENOUGH = 20      # after that many cases that did not return, the remaining cases of the run are skipped


def _init_timeouts():
    """the shared hang counter of this run (kept when it exists: hangs met while cases were prepared count too)"""
    global _TIMEOUTS
    if _TIMEOUTS is None:
        import multiprocessing as mp
        _TIMEOUTS = mp.get_context('fork').Value('i', 0)


def _note_timeout():
    if _TIMEOUTS is not None:
        with _TIMEOUTS.get_lock():
            _TIMEOUTS.value += 1


class CaseTimeout(BaseException):
    """raised by the watchdog; a BaseException so that `except Exception` blocks in harness code let it through"""


def _alarm(signum, frame):
    raise CaseTimeout()


class watchdog:
    """with watchdog(seconds): ... raises CaseTimeout when the block burns more than `seconds` of CPU time
    (ITIMER_PROF, so a loaded machine cannot trip it; main thread only)"""

    def __init__(self, seconds):
        self.seconds = seconds

    def __enter__(self):
        import signal
        self.old = signal.signal(signal.SIGPROF, _alarm)
        signal.setitimer(signal.ITIMER_PROF, self.seconds, 5)

    def __exit__(self, *a):
        import signal
        signal.setitimer(signal.ITIMER_PROF, 0)
        signal.signal(signal.SIGPROF, self.old)
        return False


def _eval_one(c):
    """(impl output, oracle verdict) under a watchdog: a library call that never returns is a failing input"""
    import signal
    if _TIMEOUTS is not None and _TIMEOUTS.value >= HANGS_ENOUGH:
        return ['HARNESS-SKIPPED after repeated hangs'], None
    limit = _case_limit(_SPEC)     # CPU seconds of this process (ITIMER_PROF): immune to machine load
    old = signal.signal(signal.SIGPROF, _alarm)
    signal.setitimer(signal.ITIMER_PROF, limit, 5)      # then every 5 CPU-s, in case a bare `except:` swallowed it
    # wall-clock backstop for waits that burn no CPU (a helper process that never answers): far above anything a
    # loaded machine can cause for one case
    old_alrm = signal.signal(signal.SIGALRM, _alarm)
    signal.setitimer(signal.ITIMER_REAL, getattr(_SPEC, 'CASE_WALL_TIMEOUT', 900))
    try:
        iout = _SPEC.safe_impl(c)
        try:
            f = _SPEC.oracle(c, iout)
        except CaseTimeout:
            raise
        except Exception as e:
            f = f'oracle raised {type(e).__name__}: {e}'
        return iout, f
    except CaseTimeout:
        _note_timeout()
        return ['HARNESS-TIMEOUT'], f'the library did not return within {limit} CPU-seconds on this case (hang)'
    finally:
        signal.setitimer(signal.ITIMER_PROF, 0)
        signal.signal(signal.SIGPROF, old)
        signal.setitimer(signal.ITIMER_REAL, 0)
        signal.signal(signal.SIGALRM, old_alrm)


def _die_with_parent():
    """worker initializer: ask the kernel to kill this worker when the parent dies (no orphans burning CPU when a
    check is killed from outside)"""
    try:
        import ctypes
        import signal
        ctypes.CDLL('libc.so.6', use_errno=True).prctl(1, signal.SIGKILL)      # PR_SET_PDEATHSIG
    except Exception:
        pass


def _evaluate_all(spec, cases):
    """(impl output, oracle verdict) per case; in worker processes when spec.PARALLEL."""
    global _SPEC
    _SPEC = spec
    import multiprocessing as mp
    _init_timeouts()
    n = getattr(spec, 'PARALLEL', 0)
    if not n or len(cases) < 64:
        return [_eval_one(c) for c in cases]
    # ProcessPoolExecutor, not multiprocessing.Pool: when a worker is killed from outside (the kernel's OOM killer did
    # that once) Pool.map waits for ever, whereas the executor raises BrokenProcessPool -- then fewer workers, then none
    from concurrent.futures import ProcessPoolExecutor
    from concurrent.futures.process import BrokenProcessPool
    ctx = mp.get_context('fork')
    workers = min(n, os.cpu_count() or 1)
    while workers >= 2:
        try:
            with ProcessPoolExecutor(workers, mp_context=ctx, initializer=_die_with_parent) as pool:
                return list(pool.map(_eval_one, cases, chunksize=max(1, len(cases) // (workers * 8))))
        except BrokenProcessPool:
            print(f'INFO: a worker process died (killed from outside?); retrying with {workers // 4} workers', flush=True)
            workers //= 4
    return [_eval_one(c) for c in cases]


def _first_error(log):
    lines = [l for l in log.split('\n') if 'error' in l.lower()]
    return lines[:6]


def run_check(spec, tier, seed):
    t0 = time.time()
    prop = spec.PROP
    rng = C.Rng(seed)
    breaks = []          # (what, detail) — things that no longer check
    infra = []
    checker_cmds = []

    # ---- 2. build ------------------------------------------------------
    proof_ok, log, dt = C.lake_build(spec.PROOF_MODULES)
    checker_cmds.append('cd lean && lake build ' + ' '.join(spec.PROOF_MODULES))
    if not proof_ok:
        breaks.append(('proof', {'modules': spec.PROOF_MODULES, 'errors': _first_error(log)}))
    driver_ok, dlog, _ = C.lake_build(['psidriver'])
    if not driver_ok:
        breaks.append(('driver-build', {'errors': _first_error(dlog)}))

    # ---- 3. audit ------------------------------------------------------
    entries = C.registry(prop)
    axioms = {}
    discharged = 0
    if proof_ok:
        hits = C.grep_forbidden()
        if hits:
            infra.append('forbidden constructs in lean/: ' + '; '.join(hits[:5]))
        axioms, atext = C.print_axioms(entries)
        checker_cmds.append('lake env lean <#print axioms of each registered theorem>')
        for _, t in entries:
            ax = axioms.get(t)
            if ax is None:
                breaks.append(('theorem-missing', {'theorem': t}))
            elif not set(ax) <= C.ACCEPTED_AXIOMS:
                infra.append(f'{t} depends on unaccepted axioms {ax}')
            else:
                discharged += 1
        if tier == 'thorough':
            ok, out = C.leanchecker(spec.PROOF_MODULES)
            checker_cmds.append('lake env leanchecker ' + ' '.join(spec.PROOF_MODULES))
            if not ok:
                infra.append('leanchecker rejected: ' + out[-300:])

    # ---- 4/5. correspondence + direct oracle ---------------------------
    corpus = spec.corpus()
    try:
        with watchdog(getattr(spec, 'GENERATION_TIMEOUT', 300)):
            generated = list(spec.cases(rng, tier))
    except CaseTimeout:
        generated = []
        breaks.append(('case-generation', {'error': 'case generation did not finish: a library call made while generating '
                                                    'cases never returned (hang)', 'traceback': ''}))
    except Exception as e:  # the library raised while cases were being generated (generators call it for sizes etc.)
        generated = []
        breaks.append(('case-generation', {'error': f'{type(e).__name__}: {e}',
                                           'traceback': traceback.format_exc()[-1500:]}))
    allcases = corpus + generated
    lines, spans = [], []
    unrunnable = {}      # case index -> why the harness could not even set the case up against the library
    _init_timeouts()
    for ci, c in enumerate(allcases):
        if _TIMEOUTS.value >= HANGS_ENOUGH:
            # the library hangs on input after input: the violation is established, the rest of the cases would only
            # cost a watchdog period each
            allcases = allcases[:ci]
            break
        try:
            with watchdog(_case_limit(spec)):
                ml = spec.model_lines(c)
        except CaseTimeout:
            ml = []
            _note_timeout()      # (after two hangs the remaining cases are on a short leash, see _case_limit)
            unrunnable[ci] = 'preparing the case against the library never returned (hang)'
        except Exception as e:  # the library raised while the case was being prepared (e.g. while filling a queue)
            ml = []
            unrunnable[ci] = f'preparing the case against the library raised {type(e).__name__}: {e}'
        spans.append((len(lines) + 1, len(ml)))
        lines.append('reset')
        lines.extend(ml)
    model_out = None
    if driver_ok:
        try:
            model_out = C.Driver(spec.MODEL).run(lines)
        except Exception as e:
            breaks.append(('driver-run', {'error': str(e)[:300]}))

    mismatches, oracle_fail = [], []
    hist, seen, nontrivial = {}, set(), 0
    samples = []
    validated = 0
    results = _evaluate_all(spec, allcases)
    for idx, c in enumerate(allcases):
        iout, f = results[idx]
        if idx in unrunnable and f is None:
            f = unrunnable[idx]
        k = spec.kind(c)
        hist[k] = hist.get(k, 0) + 1
        h = C.case_hash(c)
        if h not in seen:
            seen.add(h)
            if spec.nontrivial(c, iout):
                nontrivial += 1
        if len(samples) < 3 and (idx % max(1, len(allcases) // 3) == 0):
            samples.append({'case': c, 'impl': iout[:6]})
        if f is not None:
            oracle_fail.append((c, f))
        if model_out is not None:
            s, n = spans[idx]
            mout = model_out[s:s + n]
            if idx in unrunnable:
                pass
            elif mout != iout:
                if f is None:
                    j = next((j for j, (a, b) in enumerate(zip(mout, iout)) if a != b), min(len(mout), len(iout)))
                    mismatches.append((c, {'line': j,
                                           'op': (spec.model_lines(c)[j] if j < n else None),
                                           'model': mout[j] if j < len(mout) else None,
                                           'impl': iout[j] if j < len(iout) else None}))
            else:
                validated += 1

    # ---- 6. classify ----------------------------------------------------
    violations = []      # (replay_path, note)
    known_lines = {}
    listed = {k['id'] for k in C.known_findings(prop)}   # known_findings.json is the authority
    for c, f in oracle_fail:
        kid = spec.known(c, f)
        if kid is not None and kid in listed:
            known_lines.setdefault(kid, (c, f))
        else:
            violations.append((c, f))
    if mismatches:
        breaks.append(('correspondence', {'case': mismatches[0][0], 'diff': mismatches[0][1],
                                          'count': len(mismatches)}))

    out_lines = []
    exit_code = 0
    for kid, (c, f) in sorted(known_lines.items()):
        out_lines.append(f'KNOWN-FINDING: property={prop} {kid}: {f[:160]}')

    searched = 0
    if violations:
        c, f = violations[0]
        c = spec.shrink(c)
        f2 = spec.fails(c) or f
        path = C.write_replay(prop, {'property': prop, 'kind': 'failing-input', 'case': c,
                                     'failure': f2, 'seed': seed, 'tier': tier,
                                     'also_broken': [b[0] for b in breaks],
                                     'n_failing_cases': len(violations)})
        out_lines.append(f'VIOLATION property={prop} replay={path}')
        exit_code = 1
    elif breaks:
        # something no longer checks: look for a concrete failing input on the real code
        found = None
        budget = spec.SEARCH_SECONDS.get(tier, 20)
        ts = time.time()
        seeds = [m[0] for m in mismatches[:20]]
        srng = C.Rng(seed ^ 0x5EA4C4)
        queue = []
        for s in seeds:
            queue.extend(spec.neighbours(s, srng))
        # (when generating cases itself broke, generating them again for the search would break the same way)
        gen = iter(()) if any(b[0] == 'case-generation' for b in breaks) else iter(spec.cases(srng, 'thorough'))
        while time.time() - ts < budget and found is None:
            if queue:
                c = queue.pop(0)
            else:
                try:
                    c = next(gen)
                except StopIteration:
                    break
                except Exception:
                    break
            searched += 1
            f = spec.fails(c)
            if f is not None and spec.known(c, f) is None:
                found = (c, f)
        if found:
            c = spec.shrink(found[0])
            path = C.write_replay(prop, {'property': prop, 'kind': 'failing-input', 'case': c,
                                         'failure': spec.fails(c) or found[1], 'seed': seed, 'tier': tier,
                                         'broken': [{'what': w, 'detail': d} for w, d in breaks]})
            out_lines.append(f'VIOLATION property={prop} replay={path}')
        else:
            path = C.write_replay(prop, {'property': prop, 'kind': 'no-failing-input-found',
                                         'no_longer_checks': [{'what': w, 'detail': d} for w, d in breaks],
                                         'searched_cases': searched, 'seed': seed, 'tier': tier})
            out_lines.append(f'VIOLATION property={prop} replay={path} no-failing-input-found')
        exit_code = 1

    if infra and exit_code == 0:
        exit_code = 2

    # ---- 7. evidence -----------------------------------------------------
    coverage = {
        'obligations': len(entries),
        'discharged': discharged,
        'theorems': [{'name': t, 'module': m, 'axioms': axioms.get(t)} for m, t in entries],
        'checker_cmd': ' && '.join(checker_cmds),
        'trusted_base': C.BASE_TRUST + list(spec.TRUST),
        'evaluations': len(allcases),
        'distinct_nontrivial': nontrivial,
        'rule': spec.RULE,
        'samples': samples,
        'case_kinds': hist,
        'corpus_cases': len(corpus),
        'traces_validated_against_impl': validated,
        'model_impl_mismatches': len(mismatches),
        'oracle_failures': len(oracle_fail),
        'known_findings_hit': sorted(known_lines),
        'failing_input_search_cases': searched,
        'breaks': [b[0] for b in breaks],
        'infrastructure_problems': infra,
        'exhaustive': bool(getattr(spec, 'exhaustive_note', {}).get(tier)),
        'exhaustive_scope': getattr(spec, 'exhaustive_note', {}).get(tier, ''),
    }
    C.write_evidence(prop, tier, seed, coverage, list(spec.ASSUMPTIONS), time.time() - t0,
                     1 if exit_code == 1 else 0)
    for l in out_lines:
        print(l)
    for i in infra:
        print('INFRA:', i)
    print(f'{prop} {tier} seed={seed}: theorems {discharged}/{len(entries)}, cases {len(allcases)} '
          f'(validated {validated}, mismatches {len(mismatches)}, oracle failures {len(oracle_fail)}), '
          f'exit {exit_code}, {time.time() - t0:.1f}s')
    return exit_code


def replay(spec, path):
    obj = json.load(open(path if os.path.isabs(path) else os.path.join(C.VERIF, path)))
    if obj.get('kind') != 'failing-input':
        print('replay names what no longer checks (no concrete input):')
        print(json.dumps(obj.get('no_longer_checks'), indent=1))
        return 1
    c = obj['case']
    iout = spec.safe_impl(c)
    print('case  :', spec.describe(c))
    try:
        ml = spec.model_lines(c)
    except Exception as e:
        print(f'preparing the case against the library raised {type(e).__name__}: {e}')
        ml = []
    try:
        mout = C.Driver(spec.MODEL).run(['reset'] + ml)[1:]
    except Exception as e:
        mout = [f'(driver unavailable: {e})']
    for i, l in enumerate(ml):
        print(f'  op {l}\n    model: {mout[i] if i < len(mout) else None}\n    impl : {iout[i] if i < len(iout) else None}')
    f = spec.oracle(c, iout)
    print('oracle:', 'property holds on this input' if f is None else f'FAILS: {f}')
    return 0 if f is None else 1
