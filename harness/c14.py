"""C14 — SignalBuffer returns exactly the retained window of the logical stream.

Cases are operation histories on one buffer.  The same history goes to the Lean model
(`psidriver buffer`, in samples) and to the real `psiaudio.buffer.SignalBuffer` through its
public API (the seconds API is fed times that map to the intended samples with a margin
of >= 0.1 sample, so `round(t*fs)` is unambiguous for every fs used).  Payload of the k-th
sample ever appended in a case is the number k (channel c carries c*CH + k), so content
identifies position; the constructor fill, the fill of filled reads and NaN get their own tokens.
"""
import numpy as np

from .framework import Spec

PADI = -1.0        # constructor fill_value        -> token I
PADF = -2.0        # fill value of filled reads    -> token F
CH = 1_000_000     # channel c carries c*CH + payload
FS = [1.0, 8.0, 1000.0, 44100.0, 195312.5]
POW2 = {1.0, 8.0}  # k/fs*fs is exact: the constructor may be given size = cap/fs
DELTAS = [-0.4, -0.3, 0.0, 0.2, 0.4]   # sub-sample offsets of the float stream (never a tie)

MUTATORS = ('append', 'inval', 'invalt', 'resize')


# ---------------------------------------------------------------------------
# The property, as a reference: the logical stream and the lower bound of what is retained
# ---------------------------------------------------------------------------
class Ref:
    padtok = 'F'       # 'I' when the filled reads use the constructor's own fill value (case['samefill'])

    def __init__(self, cap):
        self.cap, self.stream, self.lo, self.next = cap, [], 0, 0

    @property
    def hi(self):
        return len(self.stream)

    def append(self, n):
        self.stream += list(range(self.next, self.next + n))
        self.next += n
        self.lo = max(self.lo, self.hi - self.cap)      # most recent min(cap, available)

    def inval(self, i):
        if i < self.hi:
            self.stream = self.stream[:i]
            self.lo = min(self.lo, i)

    def resize(self, c):
        self.cap = c
        self.lo = max(self.lo, self.hi - c)

    def mutate(self, op):
        if op[0] == 'append':
            self.append(op[1])
        elif op[0] in ('inval', 'invalt'):
            self.inval(op[1])
        elif op[0] == 'resize':
            self.resize(op[1])

    # expected canonical strings; None = the property makes no demand (reversed range)
    def read(self, lb, ub):
        if lb > ub:
            return None
        if lb < self.lo or ub > self.hi:
            return 'IndexError'
        return toks(self.stream[lb:ub])

    def filled(self, lb, ub):
        if lb > ub:
            return None
        return toks([self.stream[k] if self.lo <= k < self.hi else self.padtok for k in range(lb, ub)])

    def probe(self):
        lo, hi = self.lo, self.hi
        return [f'P {lo} {hi}', self.read(lo, hi), self.read(lo - 1, hi), self.read(lo, hi + 1),
                self.read(lo + 1, hi - 1), self.filled(lo - 2, hi + 1), self.filled(lo - 3, lo - 1),
                self.filled(hi + 1, hi + 3), self.filled(hi - 2, hi)]


def toks(l):
    return ','.join(str(x) for x in l) if l else '-'


# ---------------------------------------------------------------------------
# Adapter to the real code
# ---------------------------------------------------------------------------
def tok(v, ch, frac=0.0):
    if v != v:
        return 'N'
    if v == PADI:
        return 'I'
    if v == PADF:
        return 'F'
    p = v - ch * CH - frac
    if p == int(p) and 0 <= p < CH:
        return str(int(p))
    return f'?{v!r}'


def tokens(arr, nch, frac=0.0):
    a = np.asarray(arr)
    if a.ndim != (2 if nch else 1) or (nch and a.shape[0] != nch):
        return f'SHAPE{a.shape}'
    rows = list(a) if nch else [a]
    cols = [[tok(v, ch, frac) for v in row.tolist()] for ch, row in enumerate(rows)]
    for ch, c in enumerate(cols[1:], 1):
        if c != cols[0]:
            return f'CHANNELS-DIFFER(0:{toks(cols[0])};{ch}:{toks(c)})'
    return toks(cols[0])


class Impl:
    def __init__(self, case):
        from psiaudio.buffer import SignalBuffer
        self.fs = fs = case['fs']
        self.nch = case['nch']
        cap = case['cap']
        size = cap / fs if (case.get('exact') and fs in POW2) else (cap - 0.5) / fs
        # 'numrepr': the samples are non-integers (k + 0.25) and the fill values are written as Python ints
        # (the same numbers -1 / -2): the buffer is a float buffer whatever the type of the fill value
        self.frac = 0.25 if case.get('numrepr') else 0.0
        ifill = int(PADI) if case.get('numrepr') else PADI
        self.b = SignalBuffer(fs=fs, size=size, fill_value=ifill, n_channels=self.nch or None)
        self.next = 0
        # fill value of the filled reads: normally distinct from the constructor's, in `samefill` cases equal to it
        self.padf = PADI if case.get('samefill') else PADF
        if case.get('numrepr'):
            self.padf = int(self.padf)

    def bounds(self):
        return f'{int(self.b.get_samples_lb())} {int(self.b.get_samples_ub())}'

    def rd(self, f, *a, **k):
        try:
            return tokens(f(*a, **k), self.nch, self.frac)
        except Exception as e:
            return type(e).__name__

    def do(self, op):
        b, fs, name = self.b, self.fs, op[0]
        if name == 'append':
            n = op[1]
            pos = np.arange(self.next, self.next + n, dtype=np.double) + self.frac
            data = np.vstack([pos + ch * CH for ch in range(self.nch)]) if self.nch else pos
            b.append_data(data)
            self.next += n
            return 'ok ' + self.bounds()
        if name == 'inval':
            b.invalidate_samples(op[1])
            return 'ok ' + self.bounds()
        if name == 'invalt':
            b.invalidate((op[1] + op[2]) / fs)
            return 'ok ' + self.bounds()
        if name == 'resize':
            b.resize(op[1] / fs)
            return 'ok ' + self.bounds()
        if name == 'bounds':
            return 'ok ' + self.bounds()
        if name == 'boundst':
            return f'ok {round(b.get_time_lb() * fs)} {round(b.get_time_ub() * fs)}'
        if name == 'read':
            return 'ok ' + tokens(b.get_range_samples(op[1], op[2]), self.nch, self.frac)
        if name == 'readt':
            return 'ok ' + tokens(b.get_range((op[1] + op[3]) / fs, (op[2] + op[4]) / fs), self.nch, self.frac)
        if name == 'window':
            return 'ok ' + tokens(b.get_range_samples(), self.nch, self.frac)
        if name == 'windowt':
            return 'ok ' + tokens(b.get_range(), self.nch, self.frac)
        if name == 'filled':
            dl, du = (op[3], op[4]) if len(op) > 3 else (0.0, 0.0)
            return 'ok ' + tokens(b.get_range_filled((op[1] + dl) / fs, (op[2] + du) / fs, self.padf), self.nch, self.frac)
        if name == 'latest':
            return 'ok ' + tokens(b.get_latest(op[1] / fs, op[2] / fs), self.nch, self.frac)
        if name == 'latestf':
            return 'ok ' + tokens(b.get_latest(op[1] / fs, op[2] / fs, fill_value=self.padf), self.nch, self.frac)
        if name == 'probe':
            lb, ub = int(b.get_samples_lb()), int(b.get_samples_ub())
            parts = [f'P {lb} {ub}',
                     self.rd(b.get_range_samples),
                     self.rd(b.get_range_samples, lb - 1, ub),
                     self.rd(b.get_range_samples, lb, ub + 1),
                     self.rd(b.get_range_samples, lb + 1, ub - 1),
                     self.rd(b.get_range_filled, (lb - 2) / fs, (ub + 1) / fs, self.padf),
                     self.rd(b.get_range_filled, (lb - 3) / fs, (lb - 1) / fs, self.padf),
                     self.rd(b.get_range_filled, (ub + 1) / fs, (ub + 3) / fs, self.padf),
                     self.rd(b.get_latest, -2 / fs, 0, fill_value=self.padf)]
            return ' | '.join(parts)
        raise KeyError(name)


def model_line(op, samefill=False):
    name = op[0]
    if samefill and name in ('filled', 'latestf', 'probe'):
        return ' '.join([name + 'i'] + [str(v) for v in op[1:3]])
    if name in ('append', 'inval', 'resize', 'read', 'latest', 'latestf'):
        return ' '.join([name] + [str(v) for v in op[1:]])
    if name == 'invalt':
        return f'inval {op[1]}'
    if name == 'readt':
        return f'read {op[1]} {op[2]}'
    if name == 'filled':
        return f'filled {op[1]} {op[2]}'
    if name == 'boundst':
        return 'bounds'
    if name == 'windowt':
        return 'window'
    return name            # bounds, window, probe


# ---------------------------------------------------------------------------
class C14(Spec):
    PROP = 'C14'
    MODEL = 'buffer'
    PROOF_MODULES = ['PsiProofs.C14']
    DESIGN_REF = 'DESIGN.md §6 C14'
    PARALLEL = 16
    TRUST = [
        'modelled, not verified: NumPy basic-slice assignment/reads on the last axis (incl. overlapping '
        'self-assignment and negative slice bounds) and np.pad(constant); the model transcribes what they '
        'compute, the correspondence run compares on every case',
        'the seconds API (round(t*fs), int(ceil(fs*size))) is outside the Lean model: the harness feeds times '
        'whose sample number is unambiguous (>= 0.1 sample from a rounding tie) and checks the sample-level result',
        'channels: the model is polymorphic in the cell type; the harness checks that every channel of a '
        '2-/3-channel buffer shows the same positions as channel 0',
    ]
    ASSUMPTIONS = ['capacity >= 1 sample, resize to >= 1 sample, append chunks >= 1 sample, invalidation sample >= 0',
                   'range queries with lb <= ub (the property is silent on reversed ranges)']
    RULE = ('operation histories on one buffer: (a) every history up to the depth bound over a state-dependent '
            'alphabet (append 1,2,cap,cap+1; invalidate at 0, lo-1, lo, lo+1, hi-1, hi; resize cap-1, cap+1, cap+2), '
            'each followed by a probe (bounds, window, reads one sample outside either bound, filled reads '
            'overlapping / wholly before / wholly after the window, get_latest); (b) seeded random histories of up to '
            '30 ops, capacities 1..12, 1-D / 2 / 3 channels, five sampling rates, seconds API with sub-sample '
            'offsets; (c) boundary sweeps: invalidate / read / filled read at every offset -2..+2 around both '
            'bounds of a random reachable state. Non-trivial = at least two state-changing ops and one read.')
    exhaustive_note = {
        'quick': 'all histories of depth <= 4 from capacity 1, 2 and of depth <= 3 from capacity 3 over the '
                 'state-dependent alphabet in `rule` (a), each ending in a probe',
        'thorough': 'all histories of depth <= 5 from capacity 1, 2, 3 over the state-dependent alphabet in '
                    '`rule` (a), each ending in a probe',
    }

    # ---- generation ---------------------------------------------------
    @staticmethod
    def alphabet(ref):
        lo, hi, cap = ref.lo, ref.hi, ref.cap
        ops = [['append', n] for n in sorted({1, 2, cap, cap + 1})]
        ops += [['inval', i] for i in sorted({0, lo - 1, lo, lo + 1, hi - 1, hi}) if 0 <= i <= hi]
        ops += [['resize', c] for c in (cap - 1, cap + 1, cap + 2) if 1 <= c <= 5]
        return ops

    def exhaustive(self, cap, depth):
        count = [0]

        def rec(ops, d):
            count[0] += 1
            yield {'kind': 'exh', 'cap': cap, 'nch': 2 if count[0] % 4 == 0 else 0, 'fs': 1.0, 'exact': True,
                   'ops': ops + [['probe']], 'samefill': count[0] % 3 == 0, 'numrepr': count[0] % 5 == 0}
            if d == 0:
                return
            ref = Ref(cap)
            for o in ops:
                ref.mutate(o)
            for o in self.alphabet(ref):
                yield from rec(ops + [o], d - 1)
        yield from rec([], depth)

    @staticmethod
    def _near(rng, ref):
        """A sample number near a structurally interesting index."""
        base = rng.choice([ref.lo, ref.hi, ref.lo, ref.hi, 0, max(0, ref.hi - ref.cap), (ref.lo + ref.hi) // 2])
        return base + rng.randint(-2, 2)

    def _read_op(self, rng, ref, floats):
        a, b = self._near(rng, ref), self._near(rng, ref)
        if a > b and rng.random() < 0.9:
            a, b = b, a
        if a > b:                    # reversed: keep it inside the window (harmless, result empty)
            a, b = min(max(a, ref.lo), ref.hi), min(max(b, ref.lo), ref.hi)
        r = rng.random()
        if r < 0.30:
            return ['readt', a, b, rng.choice(DELTAS), rng.choice(DELTAS)] if floats else ['read', a, b]
        if r < 0.55:
            return ['filled', a, b, rng.choice(DELTAS), rng.choice(DELTAS)] if floats else ['filled', a, b]
        if r < 0.65:
            return ['latest', a - ref.hi, b - ref.hi]
        if r < 0.80:
            return ['latestf', a - ref.hi, b - ref.hi]
        if r < 0.85:
            return ['windowt'] if floats else ['window']
        if r < 0.90:
            return ['boundst'] if floats else ['bounds']
        return ['probe']

    def _mut_op(self, rng, ref, floats):
        r = rng.random()
        cap = ref.cap
        if r < 0.55:
            n = rng.choice([1, 1, 2, cap - 1, cap, cap + 1, cap + 4, rng.randint(1, cap + 4)])
            return ['append', max(1, n)]
        if r < 0.85:
            i = max(0, self._near(rng, ref))
            return ['invalt', i, rng.choice(DELTAS)] if floats and rng.random() < 0.5 else ['inval', i]
        w = ref.hi - ref.lo
        c = rng.choice([cap - 1, cap + 1, cap, w, w + 1, w - 1, rng.randint(1, 16), rng.randint(1, 16)])
        return ['resize', max(1, c)]

    def random_case(self, rng, max_ops, kind='rand', floats=None):
        cap = rng.randint(1, 12)
        fs = rng.choice(FS)
        if floats is None:
            floats = rng.random() < 0.4
        ref = Ref(cap)
        ops = []
        for _ in range(rng.randint(2, max_ops)):
            if rng.random() < 0.55:
                op = self._mut_op(rng, ref, floats)
                ref.mutate(op)
            else:
                op = self._read_op(rng, ref, floats)
            ops.append(op)
        ops.append(['probe'])
        return {'kind': 'float' if floats and kind == 'rand' else kind, 'cap': cap,
                'nch': rng.choice([0, 0, 2, 3]), 'fs': fs, 'exact': rng.random() < 0.5, 'ops': ops,
                'samefill': rng.random() < 0.3, 'numrepr': rng.random() < 0.3}

    def boundary_cases(self, rng):
        """From one random reachable state: sweeps at every offset -2..+2 around both bounds."""
        base = self.random_case(rng, 8, kind='bnd', floats=False)
        pre = [o for o in base['ops'] if o[0] in MUTATORS]
        ref = Ref(base['cap'])
        for o in pre:
            ref.mutate(o)
        lo, hi = ref.lo, ref.hi
        pts = sorted({p + d for p in (lo, hi) for d in range(-2, 3)})
        reads = []
        for a in pts:
            for b in pts:
                if a <= b:
                    reads.append(['read', a, b])
                    reads.append(['filled', a, b])
                    reads.append(['latestf', a - hi, b - hi])
        c = dict(base)
        c['ops'] = pre + reads
        yield c
        for i in pts:
            if i >= 0:
                c = dict(base)
                c['ops'] = pre + [['inval', i], ['probe'], ['append', 1], ['probe'],
                                  ['append', ref.cap + 1], ['probe']]
                yield c
        for cc in sorted({max(1, (hi - lo) + d) for d in range(-2, 3)} | {max(1, ref.cap + d) for d in range(-2, 3)}):
            c = dict(base)
            c['ops'] = pre + [['resize', cc], ['probe'], ['append', 1], ['probe'], ['inval', max(0, lo - 1)], ['probe']]
            yield c

    def malformed(self, rng):
        """Odd but harmless requests: reversed ranges inside the window, negative samples, far-away
        invalidation, resize to the current size."""
        c = self.random_case(rng, 6, kind='malformed', floats=False)
        ref = Ref(c['cap'])
        for o in c['ops']:
            ref.mutate(o)
        lo, hi = ref.lo, ref.hi
        c['ops'] = c['ops'] + [['read', hi, lo], ['read', -3, hi], ['read', lo, hi + 1000], ['filled', hi, lo],
                               ['filled', -5, -1], ['inval', hi + 1000], ['resize', ref.cap], ['latest', 0, 0],
                               ['latestf', 1, 4], ['probe']]
        return c

    def cases(self, rng, tier):
        if tier == 'quick':
            scope, nrand, nbnd, maxops = [(1, 4), (2, 4), (3, 3)], 2500, 60, 30
        else:
            scope, nrand, nbnd, maxops = [(1, 5), (2, 5), (3, 5)], 150000, 4000, 30
        for cap, depth in scope:
            yield from self.exhaustive(cap, depth)
        for _ in range(nrand):
            yield self.random_case(rng, maxops)
        for _ in range(nbnd):
            yield from self.boundary_cases(rng)
        for _ in range(nrand // 20):
            yield self.malformed(rng)

    # ---- the two sides --------------------------------------------------
    def model_lines(self, c):
        return [f"new {c['cap']}"] + [model_line(o, c.get('samefill', False)) for o in c['ops']]

    def impl_lines(self, c):
        im = Impl(c)
        out = ['ok ' + im.bounds()]
        for op in c['ops']:
            try:
                out.append(im.do(op))
            except (IndexError, ValueError) as e:
                out.append(f'err {type(e).__name__}')
        return out

    # ---- the property -----------------------------------------------------
    def oracle(self, c, out):
        ops = c['ops']
        if len(out) != len(ops) + 1:
            return f'the run did not complete: {out[-1][:200]}'
        if out[0] != 'ok 0 0':
            return f'a new buffer reports bounds {out[0]!r}, required 0 0'
        ref = Ref(c['cap'])
        if c.get('samefill'):
            ref.padtok = 'I'
        for k, (op, got) in enumerate(zip(ops, out[1:])):
            name = op[0]
            where = f'after {ops[:k]} (capacity {c["cap"]}, channels {c["nch"] or 1}), {op}'
            if name in MUTATORS:
                if name == 'append' and op[1] < 1:
                    continue
                ref.mutate(op)
                want = f'ok {ref.lo} {ref.hi}'
                if got != want:
                    return (f'{where}: bounds are {got!r}; the logical stream has {ref.hi} samples and the '
                            f'most recent min(capacity, available) start at {ref.lo}')
                continue
            if name in ('bounds', 'boundst'):
                want = f'ok {ref.lo} {ref.hi}'
            elif name in ('window', 'windowt'):
                want = 'ok ' + ref.read(ref.lo, ref.hi)
            elif name == 'probe':
                parts = got.split(' | ')
                exp = ref.probe()
                if len(parts) != len(exp):
                    return f'{where}: {got!r}'
                labels = ['bounds', 'get_range_samples()', 'read(lb-1,ub)', 'read(lb,ub+1)', 'read(lb+1,ub-1)',
                          'filled(lb-2,ub+1)', 'filled(lb-3,lb-1)', 'filled(ub+1,ub+3)', 'get_latest(-2,0,fill)']
                for lab, g, w in zip(labels, parts, exp):
                    if w is not None and g != w:
                        return f'{where}: {lab} gave {g!r}, the logical stream requires {w!r}'
                continue
            else:
                a, b = op[1], op[2]
                if name in ('latest', 'latestf'):
                    a, b = a + ref.hi, b + ref.hi
                w = ref.filled(a, b) if name in ('filled', 'latestf') else ref.read(a, b)
                if w is None:
                    continue
                want = 'err IndexError' if w == 'IndexError' else 'ok ' + w
            if got != want:
                return f'{where}: returned {got!r}, the logical stream (lo {ref.lo}, hi {ref.hi}) requires {want!r}'
        return None

    def nontrivial(self, c, out):
        ops = c['ops']
        return sum(o[0] in MUTATORS for o in ops) >= 2 and any(o[0] not in MUTATORS for o in ops)

    # ---- search / minimisation ---------------------------------------------
    def neighbours(self, c, rng):
        ops = c['ops']
        for k, o in enumerate(ops):
            for j in range(1, len(o)):
                if isinstance(o[j], int):
                    for d in (-1, 1):
                        if o[j] + d >= (1 if o[0] in ('append', 'resize') else -10 ** 9):
                            if o[0] in ('inval', 'invalt') and o[j] + d < 0:
                                continue
                            n = dict(c)
                            n['ops'] = ops[:k] + [o[:j] + [o[j] + d] + o[j + 1:]] + ops[k + 1:] + [['probe']]
                            yield n
        for k in range(len(ops)):
            n = dict(c)
            n['ops'] = ops[:k + 1] + [['probe']] + ops[k + 1:]
            yield n

    def shrink_candidates(self, c):
        ops = c['ops']
        for k in range(len(ops)):
            n = dict(c)
            n['ops'] = ops[:k] + ops[k + 1:]
            yield n
        if c['nch']:
            yield dict(c, nch=0)
        if c['fs'] != 1.0:
            yield dict(c, fs=1.0)
        if c['cap'] > 1:
            yield dict(c, cap=c['cap'] - 1)
        for k, o in enumerate(ops):
            for j in range(1, len(o)):
                if isinstance(o[j], int) and o[j] > (1 if o[0] in ('append', 'resize') else 0):
                    n = dict(c)
                    n['ops'] = ops[:k] + [o[:j] + [o[j] - 1] + o[j + 1:]] + ops[k + 1:]
                    yield n
            if o[0] in ('readt', 'filled', 'invalt') and len(o) > 3 - (o[0] == 'invalt'):
                n = dict(c)
                base = {'readt': ['read'], 'filled': ['filled'], 'invalt': ['inval']}[o[0]]
                n['ops'] = ops[:k] + [base + o[1:(2 if o[0] == 'invalt' else 3)]] + ops[k + 1:]
                yield n

    def describe(self, c):
        return (f"capacity {c['cap']} samples, channels {c['nch'] or 1}, fs {c['fs']}: "
                + '; '.join(' '.join(str(v) for v in o) for o in c['ops']))


SPEC = C14()
